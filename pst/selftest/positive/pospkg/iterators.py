"""Positive and negative examples for IT-ONCE (rules/oneshot.py)."""
import numpy as np


def _pairs(rows, cols):
    for r, c in zip(rows, cols):
        yield r, c


def _table(pairs):
    return np.array([[r, c] for r, c in pairs])


def _total(pairs, D):
    return sum(D[r, c] for r, c in pairs)


def consumed_twice(D, rows, cols, want_table=False):
    pairs = _pairs(rows, cols)
    if want_table:
        table = _table(pairs)
        return _total(pairs, D), table          # IT-ONCE: `pairs` is exhausted by _table
    return _total(pairs, D)


def consumed_twice_in_loop(D, rows, cols, rounds):
    pairs = zip(rows, cols)
    out = []
    for _ in range(rounds):
        out.append(sum(D[r, c] for r, c in pairs))   # IT-ONCE: empty from the second round on
    return out


def materialised_first(D, rows, cols, want_table=False):
    pairs = list(_pairs(rows, cols))
    if want_table:
        return _total(pairs, D), _table(pairs)
    return _total(pairs, D)


def exclusive_branches(D, rows, cols, want_table=False):
    pairs = _pairs(rows, cols)
    if want_table:
        return _table(pairs)
    return _total(pairs, D)


def stepwise_iterator(xs):
    it = iter(xs)
    first = next(it)
    return first + sum(x for x in it)


def peek_then_walk(rows, cols):
    pairs = _pairs(rows, cols)
    head = next(pairs, None)
    return head, [p for p in pairs]


def scan_resumed_in_outer_loop(D, rows, cols, targets):
    # for every target ALL pairs are to be scanned, but the generator is made once: the scan of the second target starts behind
    # the pair at which the first one stopped
    pairs = _pairs(rows, cols)
    hits = []
    for t in targets:
        for r, c in pairs:   # IT-ONCE: resumed, not restarted
            if D[r, c] >= t:
                hits.append((t, r, c))
                break
    return hits


def scan_restarted_in_outer_loop(D, rows, cols, targets):
    # clean twin: a new generator for every target
    hits = []
    for t in targets:
        for r, c in _pairs(rows, cols):
            if D[r, c] >= t:
                hits.append((t, r, c))
                break
    return hits
