"""Positive and negative examples for BUF-STALE (rules/scratch_rule.py)."""
import numpy as np

_BLOCK = 4


def blocked_sum_reads_whole_buffer(x):
    n = x.shape[0]
    buf = np.empty((min(n, _BLOCK), 2))
    total = np.zeros((2, 2))
    for lo in range(0, n, _BLOCK):
        hi = min(lo + _BLOCK, n)
        m = hi - lo
        np.multiply(x[lo:hi], 2.0, out=buf[:m])
        total += buf.T @ buf            # BUF-STALE: the last block is shorter than the buffer
    return total


def blocked_sum_reads_written_part(x):
    n = x.shape[0]
    buf = np.empty((min(n, _BLOCK), 2))
    total = np.zeros((2, 2))
    for lo in range(0, n, _BLOCK):
        hi = min(lo + _BLOCK, n)
        m = hi - lo
        np.multiply(x[lo:hi], 2.0, out=buf[:m])
        total += buf[:m].T @ buf[:m]
    return total


def buffer_filled_whole(x, rounds):
    buf = np.empty(x.shape)
    total = 0.0
    for k in range(rounds):
        buf[:] = x * k
        total += buf.sum()
    return total
