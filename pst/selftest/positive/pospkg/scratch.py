"""Positive and negative examples for BUF-STALE (rules/scratch_rule.py)."""
import numpy as np

_BLOCK = 4


def blocked_sum_reads_whole_buffer(x):
    n = x.shape[0]
    buf = np.empty((min(n, _BLOCK), 2))
    total = np.zeros((2, 2))
    for lo in range(0, n, _BLOCK):
        hi = min(lo + _BLOCK, n)
        m = hi - lo
        np.multiply(x[lo:hi], 2.0, out=buf[:m])
        total += buf.T @ buf            # BUF-STALE: the last block is shorter than the buffer
    return total


def blocked_sum_reads_written_part(x):
    n = x.shape[0]
    buf = np.empty((min(n, _BLOCK), 2))
    total = np.zeros((2, 2))
    for lo in range(0, n, _BLOCK):
        hi = min(lo + _BLOCK, n)
        m = hi - lo
        np.multiply(x[lo:hi], 2.0, out=buf[:m])
        total += buf[:m].T @ buf[:m]
    return total


def buffer_filled_whole(x, rounds):
    buf = np.empty(x.shape)
    total = 0.0
    for k in range(rounds):
        buf[:] = x * k
        total += buf.sum()
    return total


def masked_fill_read_whole(x, block=4):
    # the scratch vector receives values only where the mask holds and is then used whole: stale outside the mask
    acc = np.zeros((block,))
    out = np.empty((len(x),))
    for lo in range(0, len(x), block):
        k = min(block, len(x) - lo)
        part = acc[:k]
        big = x[lo:lo + k] > 1.0
        part[big] = np.log(x[lo:lo + k][big])
        out[lo:lo + k] = part + 1.0
    return out


def masked_fill_after_reset(x, block=4):
    # clean twin: the region is reset at the start of every round
    acc = np.zeros((block,))
    out = np.empty((len(x),))
    for lo in range(0, len(x), block):
        k = min(block, len(x) - lo)
        acc[:k] = 0.0
        part = acc[:k]
        big = x[lo:lo + k] > 1.0
        part[big] = np.log(x[lo:lo + k][big])
        out[lo:lo + k] = part + 1.0
    return out


def threshold_rows_reads_whole_scratch(D, d, scratch, block=4):
    """the scratch array is handed in by the caller; the last, shorter block leaves stale rows that are read again"""
    out = []
    for lo in range(0, D.shape[0], block):
        rows = D[lo: lo + block]
        np.less_equal(rows, d, out=scratch[: rows.shape[0]])
        for i, row in enumerate(scratch, start=lo):
            out.append((i, int(row.sum())))
    return out


def threshold_rows_reads_written_part(D, d, scratch, block=4):
    out = []
    for lo in range(0, D.shape[0], block):
        rows = D[lo: lo + block]
        np.less_equal(rows, d, out=scratch[: rows.shape[0]])
        for i, row in enumerate(scratch[: rows.shape[0]], start=lo):
            out.append((i, int(row.sum())))
    return out
