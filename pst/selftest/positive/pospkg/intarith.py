"""Arithmetic in the dtype of the caller's arrays (PU-INTARITH): three that must be flagged, three that must not."""
import numpy as np

__all__ = ["cross_difference", "squared_norms", "midpoints", "converted_first", "own_difference", "scalar_settings",
           "through_helper"]


def cross_difference(dgm1, dgm2):
    # two caller arrays subtracted in their own dtype: wraps around for unsigned integers
    S = np.array(dgm1)
    T = np.array(dgm2)
    if S.size == 0:
        S = np.array([[0, 0]])
    return np.abs(S[:, None, 0] - T[None, :, 0]).max()


def squared_norms(dgm):
    # a product in the caller's dtype: overflows int16 from 182 on
    d = np.asarray(dgm)
    pers = d[:, 1] - d[:, 0]
    return np.sqrt(np.sum(pers * pers))


def midpoints(dgm):
    # a sum in the caller's dtype: uint8 100 + 200 is 44
    d = np.asarray(dgm)
    return (d[:, 0] + d[:, 1]) / 2


def converted_first(dgm1, dgm2):
    # clean twin: converted where the data enters
    S = np.array(dgm1, dtype=float)
    T = np.asarray(dgm2).astype(np.float64)
    return np.abs(S[:, None, 0] - T[None, :, 0]).max() + np.sum(S[:, 1] * S[:, 1]) + np.sum(T[:, 0] + T[:, 1])


def own_difference(dgm):
    # clean twin: death - birth within one diagram (death >= birth, nothing wraps), scaled by a float
    d = np.asarray(dgm)
    return 0.5 * (d[:, 1] - d[:, 0])


def scalar_settings(dgm, start, stop, num_steps=10):
    # clean twin: numbers the caller wrote (no arrays): python ints do not overflow
    d = np.asarray(dgm, dtype=float)
    step = (stop - start) / num_steps
    return d[:, 0] * step + (start + stop)


def _pairwise(A, B):
    return np.sqrt(((A[:, None, :] - B[None, :, :]) ** 2).sum(axis=-1))


def through_helper(dgm1, dgm2):
    # the helper receives the caller's arrays as they came at its only call site
    return _pairwise(np.asarray(dgm1), np.asarray(dgm2))
