import operator
from functools import reduce

import numpy as np
import matplotlib.pyplot as plt

_CACHE = {}
TABLE = np.array([1.0, 2.0])


def _helper(rows):
    rows[:, 1] -= rows[:, 0]
    return rows


def writes_arg_through_helper(dgm):
    view = np.asarray(dgm)
    return _helper(view)


def writes_arg_in_place_operator(dgm):
    dgm[0] = 0
    dgm *= 2
    return dgm


def writes_arg_through_operator_function(dgm, other):
    # reduce(operator.iadd, ...) is `+=` on the first element, which is the caller's array
    return reduce(operator.iadd, (dgm, other))


def mutates_nested_list_element(dgms):
    rows = list(dgms)
    rows[0].append(1)
    return rows


def stores_global(x):
    global _COUNT
    _COUNT = x
    _CACHE[x] = 1
    TABLE[0] = x


def mutates_default(acc=[]):
    acc.append(1)
    return acc


def fresh_copy_is_fine(dgm):
    d = np.array(dgm)
    d[:, 1] -= d[:, 0]
    rows = [list(r) for r in dgm]
    rows[0].append(3)
    return d, rows


def draws_random(n):
    return np.random.default_rng().permutation(n)


def touches_pyplot_state(x):
    plt.figure()
    return x


def truncating_store(dgm):
    d = np.copy(dgm)
    d[:, 1] = (d[:, 1] - d[:, 0]) / 2
    return d


def truncating_store_named_dtype(dgm, grid):
    # the caller's dtype asked for by name: an int diagram truncates the float grid
    d = np.asarray(dgm)
    grid = np.linspace(0.0, 1.0, 5)
    out = np.empty(d.shape[:1] + (2,), dtype=d.dtype)
    out[:, 0] = grid[: d.shape[0]]
    out[:, 1] = d[:, 0]
    return out


class Holder:
    def __init__(self, values=[]):
        self.values = values

    def scale(self, c):
        self.values *= c
        return self

    def bump(self):
        Holder.count = 1
        self.values.append(0)


# ----------------------------------------------------------------------------- PU-CACHE: module-level memos
_WS_TOTAL = {}
_WS_SPLIT = {}


def _matrix_keyed_by_total(m, n):
    D = _WS_TOTAL.get(m + n)
    if D is None:
        D = np.zeros((m + n, m + n))
        D[0:m, n:] = 1.0          # the layout depends on the split, the key only on the total
        _WS_TOTAL[m + n] = D
    return D


def cache_keyed_by_too_little(m, n):
    return _matrix_keyed_by_total(m, n).sum()


def _matrix_keyed_by_split(m, n):
    D = _WS_SPLIT.get((m, n))
    if D is None:
        D = np.zeros((m + n, m + n))
        D[0:m, n:] = 1.0
        _WS_SPLIT[(m, n)] = D
    return D


def cache_keyed_completely(m, n):
    return _matrix_keyed_by_split(m, n).sum()


class _PowerTable:
    # a class-level memo keyed by too little: the stored power depends on the instance's exponent
    _seen = {}

    def __init__(self, p):
        self.p = p

    def power(self, y):
        key = (type(y), y)
        if key not in self._seen:
            self._seen[key] = y ** (self.p + 1)
        return self._seen[key]


class _SquareTable:
    # clean twin: the stored value is a function of the key alone
    _seen = {}

    def square(self, y):
        if y not in self._seen:
            self._seen[y] = y * y
        return self._seen[y]


_DEFAULT_OPTIONS = {"n": 1.0}


class SharesDefaults:
    # every instance built without options holds the module's own dictionary
    def __init__(self, options=None):
        if options is None:
            options = _DEFAULT_OPTIONS
        self.options = options


class CopiesDefaults:
    # clean twin: a private copy per instance
    def __init__(self, options=None):
        if options is None:
            options = dict(_DEFAULT_OPTIONS)
        self.options = options


class _Derived:
    """pattern F: a setter that also drops derived state, and a copy helper that bypasses it / goes through it"""

    def __init__(self, values):
        self._values = values
        self._total = None

    @property
    def values(self):
        return self._values

    @values.setter
    def values(self, values):
        self._values = values
        self._total = None

    def total(self):
        if self._total is None:
            self._total = sum(self._values)
        return self._total

    def scaled_bypassing(self, c):
        import copy
        out = copy.copy(self)
        out._values = [c * v for v in self._values]      # the memo of the old values survives
        return out

    def scaled_through_setter(self, c):
        import copy
        out = copy.copy(self)
        out.values = [c * v for v in self._values]
        return out

    def scaled_resetting(self, c):
        import copy
        out = copy.copy(self)
        out._values = [c * v for v in self._values]
        out._total = None
        return out


_SETTINGS = {"size": 3, "params": {"n": 1.0}}


def _setting(name):
    return _SETTINGS[name]


class SharesTableEntry:
    def __init__(self, params=None):
        if params is None:
            params = _setting("params")          # the table's own dictionary
        self.params = params
        self.size = _setting("size")


class CopiesTableEntry:
    def __init__(self, params=None):
        import copy
        if params is None:
            params = copy.deepcopy(_setting("params"))
        self.params = params
        self.size = _setting("size")


from collections import OrderedDict

_BY_ID_SELF = OrderedDict()
_BY_ID_COPY = OrderedDict()


class _Rec:
    def __init__(self, points):
        self.points = points
        self.total = float(points.sum())

    def describes(self, a):
        return self.points.shape == a.shape and np.array_equal(self.points, a)


def total_by_id_self(a):
    """pattern G, planted: the record validates the array against itself"""
    known = _BY_ID_SELF.get(id(a))
    if known is not None and known.describes(a):
        return known.total
    fresh = _Rec(a)
    _BY_ID_SELF[id(a)] = fresh
    return fresh.total


def total_by_id_copy(a):
    """clean twin: the record holds a private copy"""
    known = _BY_ID_COPY.get(id(a))
    if known is not None and known.describes(a):
        return known.total
    fresh = _Rec(a.copy())
    _BY_ID_COPY[id(a)] = fresh
    return fresh.total


from functools import cached_property


class _Fitted:
    """pattern H: cached_property over something a later fit changes / over something fixed at construction"""

    def __init__(self, steps):
        self._steps = steps
        self.lo = None
        self.hi = None

    def fit(self, xs):
        self.lo, self.hi = min(xs), max(xs)
        return self

    @cached_property
    def grid_after_fit(self):
        return np.linspace(self.lo, self.hi, self._steps)

    @cached_property
    def unit_grid(self):
        return np.linspace(0.0, 1.0, self._steps)


import copy


class _Pairs:
    """pattern I: copy() re-copies only some arrays; a method writes into the other one through a copy"""

    def __init__(self, rows, cols):
        self.rows = np.asarray(rows)
        self.cols = np.asarray(cols)

    def copy(self):
        out = copy.copy(self)
        out.rows = self.rows.copy()
        return out

    def marked_cols(self, k):
        out = self.copy()
        out.cols[out.cols >= k] = -1        # lands in self.cols as well
        return out

    def marked_rows(self, k):
        out = self.copy()
        out.rows[out.rows >= k] = -1        # rows were re-copied: fine
        return out


class _LooseEq:
    """pattern J: equality after broadcasting"""

    def __init__(self, lengths):
        self.lengths = np.asarray(lengths, dtype=float)

    def __eq__(self, other):
        return isinstance(other, _LooseEq) and np.array_equiv(self.lengths, other.lengths)


class _StrictEq:
    def __init__(self, lengths):
        self.lengths = np.asarray(lengths, dtype=float)

    def __eq__(self, other):
        return isinstance(other, _StrictEq) and np.array_equal(self.lengths, other.lengths)
