"""positive / negative examples of GH-LABEL (pst/rules/label_rule.py)"""
import numpy as np


def lb_by_array_equal(DX, DY):
    return max(abs(DX.max() - DY.max()), int(not np.array_equal(DX, DY)))


def lb_two_steps(DX, DY):
    same = len(DX) == len(DY) and np.array_equal(DX, DY)
    return max(abs(DX.max() - DY.max()), int(not same))


def lb_any_differs(DX, DY):
    differ = len(DX) != len(DY) or (DX != DY).any()
    return abs(DX.max() - DY.max()) + 1 * differ


def ok_size_only(DX, DY):
    return max(abs(DX.max() - DY.max()), int(len(DX) != len(DY)))


def ok_shortcut(DX, DY):
    # identical labelled matrices ARE isometric: a sound fast path
    if DX.shape == DY.shape and np.array_equal(DX, DY):
        return 0
    return max(abs(DX.max() - DY.max()), int(len(DX) != len(DY)))


def ok_positive_number(DX, DY):
    # a positive use as a number: 1 when the labelled matrices agree; says nothing when they differ
    agree = int(np.array_equal(DX, DY))
    return agree * 0 + abs(DX.max() - DY.max())


class Search:
    def __init__(self, order):
        self.order = order

    def lb_method(self, DX, DY):
        return max(abs(DX.max() - DY.max()), int(not np.array_equal(DX, DY)))
