"""Tiny positive examples: every zero-expected rule must flag its example on every run.
These files are parsed, never imported or executed."""
