"""IX-BOUND positive examples: a count table indexed by `bound - value`, callers that hand it a covering / a too small bound."""
from typing import NamedTuple

import numpy as np


def _rows_as_counts(D, top):
    counts = np.zeros((len(D), top + 1), dtype=int)
    values, freq = np.unique(D + 1j * np.arange(len(D))[:, None], return_counts=True)
    where = (np.imag(values).astype(int), top - np.real(values).astype(int))
    counts[where] = freq
    return counts[:, :-1]


def _compare(K, D, top):
    return _rows_as_counts(K, top), _rows_as_counts(D, top)


def _largest_block(D, d):
    K = D
    while np.any(K < d):
        K = np.delete(K, 0, axis=0)
        K = np.delete(K, 0, axis=1)
    return K


# -- must be flagged: the bound covers only one of the two matrices
def compare_with_own_diameter(DX, DY, d):
    diam_X = np.max(DX)
    K = _largest_block(DX, d)
    return _compare(K, DY, diam_X)


# -- clean twin
def compare_with_common_diameter(DX, DY, d):
    top = max(np.max(DX), DY.max())
    K = _largest_block(DX, d)
    return _compare(K, DY, top)


class _Space(NamedTuple):
    D: np.ndarray
    diam: int


class Search:
    def __init__(self, DX, DY):
        self.X = _Space(DX, np.max(DX))
        self.Y = _Space(D=DY, diam=np.max(DY))
        self.top = max(self.X.diam, self.Y.diam)

    def confirms_wrong(self, d, source, target):
        return _compare(_largest_block(source.D, d), target.D, source.diam)

    def confirms(self, d, source, target):
        return _compare(_largest_block(source.D, d), target.D, self.top)

    def run(self, d):
        return self.confirms(d, self.X, self.Y), self.confirms(d, self.Y, self.X), self.confirms_wrong(d, self.X, self.Y)
