"""ST-FLAG: a guard flag set around a call and restored — or not — on the exception path."""


class Worker:
    def __init__(self):
        self._busy = False

    def step(self, x):
        if self._busy:
            return x
        return 2 * x

    def guard_without_finally(self, x):
        self._busy = True
        y = self.step(x) + self.step(x + 1)
        self._busy = False
        return y

    def guard_with_finally(self, x):
        self._busy = True
        try:
            y = self.step(x) + self.step(x + 1)
        finally:
            self._busy = False
        return y

    def guard_without_calls(self, x):
        self._busy = True
        y = x + 1
        self._busy = False
        return y


def guard_without_finally(w, x):
    w._busy = True
    y = w.step(x)
    w._busy = False
    return y


def guard_with_finally(w, x):
    w._busy = True
    try:
        return w.step(x)
    finally:
        w._busy = False


def guard_without_calls(w, x):
    w._busy = True
    y = x
    w._busy = False
    return y
