"""Tiny positive examples for rules whose expected count on persim is zero (they must fire here on every run)."""
import numpy as np

_TABLE_DTYPE = np.float32


def _directions(k):
    return np.ones((k, 2)).astype(_TABLE_DTYPE)


def pools_without_accumulating(points, weights):
    support, inverse = np.unique(points, axis=0, return_inverse=True)
    pooled = np.zeros(support.shape[0])
    pooled[inverse] += weights
    return support, pooled


def pools_by_accumulating(points, weights):
    support, inverse = np.unique(points, axis=0, return_inverse=True)
    pooled = np.zeros(support.shape[0])
    np.add.at(pooled, inverse, weights)
    return support, pooled


def narrows_the_data(points, k=4):
    table = _directions(k)
    return table @ points.T.astype(table.dtype)


def narrows_only_its_table(points, k=4):
    table = _directions(k).astype(np.float32)
    return table @ points.T
