"""LZ-READ positive examples: a lazily computed class, methods that read before / behind the computation."""


class Lazy:
    def __init__(self, data, compute=False):
        self.data = data
        self.pairs = []
        self.depth = 0
        if compute:
            self.compute_landscape()

    def compute_landscape(self):
        if self.pairs:
            return
        self.pairs = [x for x in self.data]
        self.depth = len(self.pairs)

    # -- must be flagged
    def depth_before(self):
        if self.depth == 0:          # the place-holder, not an empty result
            return 0.0
        self.compute_landscape()
        return max(self.pairs)

    def answers_when_not_computed(self):
        if not self.pairs:
            return 0.0
        return max(self.pairs)

    def through_helper(self):
        return self._top()

    def _top(self):
        return max(self.pairs)

    # -- clean twins
    def depth_behind(self):
        self.compute_landscape()
        if self.depth == 0:
            return 0.0
        return max(self.pairs)

    def cached_or_computed(self, k):
        if self.pairs:
            return self.pairs[k]
        else:
            self.compute_landscape()
            return self.pairs[k]

    def computed_if_needed(self):
        if len(self.pairs) == 0:
            self.compute_landscape()
        return self.pairs[0] + self.depth

    def is_computed(self):
        return bool(self.pairs)

    def helper_behind(self):
        self.compute_landscape()
        return self._top()


def reads_param_before(l: "Lazy"):
    n = l.depth
    l.compute_landscape()
    return n


def reads_param_behind(l: "Lazy"):
    l.compute_landscape()
    return l.depth


def _depth_of(l):
    return l.depth


def helper_after_compute(l: "Lazy"):
    l.compute_landscape()
    return _depth_of(l)


def helper_before_compute(l: "Lazy"):
    n = _depth_of(l)
    l.compute_landscape()
    return n
