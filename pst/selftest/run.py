"""Sensitivity run of a check: every corpus edit is applied to a scratch copy of persim (mkdtemp, outside /repo and
/verif, removed afterwards) and the same check is run on it with --dry (no evidence written). Breaking edits must be
refuted (exit 1), neutral edits must stay silent (exit 0). The verdict on /repo is never changed by this; a mismatch
means the *checker* is broken (exit 2 of the thorough tier)."""
from __future__ import annotations

import os
import shutil
import subprocess
import sys
import tempfile
from concurrent.futures import ThreadPoolExecutor

from .corpus import CORPUS

VERIF = os.path.dirname(os.path.dirname(os.path.dirname(os.path.abspath(__file__))))


def _one(args):
    k, pid, rel, old, new, expect, repo = args
    d = tempfile.mkdtemp(prefix="pstmut.")
    try:
        shutil.copytree(os.path.join(repo, "persim"), os.path.join(d, "persim"),
                        ignore=shutil.ignore_patterns("__pycache__"))
        p = os.path.join(d, "persim", rel)
        with open(p) as fh:
            s = fh.read()
        pairs = list(zip(old, new)) if isinstance(old, (tuple, list)) else [(old, new)]   # several edits of one file
        new = " / ".join(n_ for _, n_ in pairs)
        for o_, n_ in pairs:
            if o_ not in s:
                return dict(k=k, file=rel, new=new[:80], expect=expect, got="anchor-missing", rule=None)
            s = s.replace(o_, n_, 1)
        with open(p, "w") as fh:
            fh.write(s)
        try:
            r = subprocess.run([sys.executable, "-m", "pst.check", pid, "--repo", d, "--dry"], cwd=VERIF, capture_output=True,
                               text=True, timeout=300)
        except subprocess.TimeoutExpired:
            return dict(k=k, file=rel, new=new[:80], expect=expect, got="timeout", rule=None)
        rule = None
        for ln in r.stdout.splitlines():
            if " rule=" in ln:
                rule = ln.split(" rule=")[1].split(":")[0]
                break
        got = {0: "silent", 1: "refute"}.get(r.returncode, "error")
        return dict(k=k, file=rel, new=new[:80], expect=expect, got=got, rule=rule)
    finally:
        shutil.rmtree(d, ignore_errors=True)


def sensitivity(pid: str, repo: str, jobs: int = 16):
    items = [(k, pid, rel, old, new, expect, repo) for k, (p, rel, old, new, expect) in enumerate(CORPUS) if p == pid]
    if not items:
        return []
    with ThreadPoolExecutor(max_workers=jobs) as ex:
        return list(ex.map(_one, items))


def neutral_run(pid: str, repo: str, restyle: bool = False):
    """the check must stay silent on a reformatted, locally-renamed (behaviour-preserving) copy of the sources; with
    restyle=True comparisons are mirrored, if/else arms swapped under a negation, constants commuted and returns routed
    through a temporary as well"""
    from . import neutral
    d = tempfile.mkdtemp(prefix="pstneu.")
    try:
        neutral.make(repo, d, restyle=restyle)
        r = subprocess.run([sys.executable, "-m", "pst.check", pid, "--repo", d, "--dry"], cwd=VERIF, capture_output=True,
                           text=True, timeout=300)
        first = ""
        for ln in r.stdout.splitlines():
            if " rule=" in ln or "ANALYSIS-ERROR" in ln:
                first = ln.strip()[:200]
                break
        return dict(variant="ast.unparse round-trip + every local variable renamed" +
                    (" + mirrored comparisons, swapped if/else arms, commuted constants, returns through a temporary" if restyle else ""),
                    exit=r.returncode, first=first)
    finally:
        shutil.rmtree(d, ignore_errors=True)


def seeded_runs(pid: str, repo: str, jobs: int = 8):
    """independently written breaking changes kept under /verif/seeded/<id>/patch.diff: each must be refuted by the check
    of the property it targets (applied with `patch` to a scratch copy, never to /repo)"""
    import json
    root = os.path.join(VERIF, "seeded")
    out = []
    if not os.path.isdir(root):
        return out
    for name in sorted(os.listdir(root)):
        mp = os.path.join(root, name, "meta.json")
        pp = os.path.join(root, name, "patch.diff")
        if not (os.path.exists(mp) and os.path.exists(pp)):
            continue
        meta = json.load(open(mp))
        targets = {meta.get("property")} | {x.split()[0] for x in meta.get("detected_by", [])}
        if pid not in targets:
            continue
        d = tempfile.mkdtemp(prefix="pstseed.")
        try:
            shutil.copytree(os.path.join(repo, "persim"), os.path.join(d, "persim"), ignore=shutil.ignore_patterns("__pycache__"))
            pr = subprocess.run(["patch", "-p1", "-s", "-d", d, "-i", pp], capture_output=True, text=True)
            if pr.returncode != 0:
                out.append(dict(seed=name, got="patch-does-not-apply", expect="refute"))
                continue
            r = subprocess.run([sys.executable, "-m", "pst.check", pid, "--repo", d, "--dry"], cwd=VERIF, capture_output=True,
                               text=True, timeout=300)
            rule = None
            for ln in r.stdout.splitlines():
                if " rule=" in ln:
                    rule = ln.split(" rule=")[1].split(":")[0]
                    break
            out.append(dict(seed=name, expect=meta.get("expect", "refute"),
                            got={0: "silent", 1: "refute"}.get(r.returncode, "error"), rule=rule,
                            primary=(meta.get("property") == pid)))
        finally:
            shutil.rmtree(d, ignore_errors=True)
    return out


def _anchor_files(pid: str):
    """files the property is anchored in (None = whole package)"""
    import json
    if pid == "C19":
        return None
    try:
        for ln in open(os.path.join(VERIF, "properties.jsonl")):
            d = json.loads(ln)
            if d["id"] == pid:
                fs = set(d.get("anchors", {}).get("files", []))
                # anchors name the main files; helpers live next to them
                extra = set()
                for f in fs:
                    if f.startswith("persim/landscapes/"):
                        extra |= {"persim/landscapes/auxiliary.py", "persim/landscapes/base.py"}
                    if f == "persim/images.py":
                        extra |= {"persim/images_kernels.py", "persim/images_weights.py"}
                return fs | extra
    except OSError:
        pass
    return None


def refactor_runs(pid: str, repo: str):
    """behaviour-preserving refactorings written independently (kept under /verif/refactors/<R>/patch.diff, each verified
    against the test suite and a differential harness when it was collected): the check must not report a violation on
    any of them.  `silent` (exit 0) is the goal; `unmodelled` (exit 2: the checker says it cannot decide the refactored
    form) is tolerated and listed; exit 1 is a false alarm and fails the self-test."""
    root = os.path.join(VERIF, "refactors")
    out = []
    if not os.path.isdir(root):
        return out
    names = [n for n in sorted(os.listdir(root)) if os.path.exists(os.path.join(root, n, "patch.diff"))]
    # small single-purpose maintenance patches (refactors/small/<S>/pK.diff): applied one at a time, and only to the checks
    # whose property is anchored in a file the patch touches (C19 looks at the whole package)
    small_root = os.path.join(root, "small")
    anchored = _anchor_files(pid)
    if os.path.isdir(small_root):
        for sname in sorted(os.listdir(small_root)):
            for f in sorted(os.listdir(os.path.join(small_root, sname))):
                if f.startswith("p") and f.endswith(".diff"):
                    pth = os.path.join(small_root, sname, f)
                    touched = {ln[6:].strip() for ln in open(pth) if ln.startswith("+++ b/")}
                    if anchored is None or touched & anchored:
                        names.append(os.path.join("small", sname, f))

    def one(name):
        pp = os.path.join(root, name, "patch.diff") if not name.endswith(".diff") else os.path.join(root, name)
        d = tempfile.mkdtemp(prefix="pstref.")
        try:
            shutil.copytree(os.path.join(repo, "persim"), os.path.join(d, "persim"), ignore=shutil.ignore_patterns("__pycache__"))
            pr = subprocess.run(["patch", "-p1", "-s", "-d", d, "-i", pp], capture_output=True, text=True)
            if pr.returncode != 0:
                return dict(refactor=name, got="patch-does-not-apply")
            r = subprocess.run([sys.executable, "-m", "pst.check", pid, "--repo", d, "--dry"], cwd=VERIF, capture_output=True,
                               text=True, timeout=300)
            first = ""
            for ln in r.stdout.splitlines():
                if " rule=" in ln or "ANALYSIS-ERROR" in ln:
                    first = ln.strip()[:200]
                    break
            return dict(refactor=name, got={0: "silent", 1: "false-alarm", 2: "unmodelled"}.get(r.returncode, "error"), first=first)
        finally:
            shutil.rmtree(d, ignore_errors=True)
    with ThreadPoolExecutor(max_workers=10) as ex:
        return list(ex.map(one, names))


def hidden_runs(pid: str, repo: str):
    """/verif/hidden/<H>/: a behaviour-preserving clean-up (clean.diff) and the same clean-up with a small slip hidden in
    it (patch.diff), written independently. The clean-up alone must not be reported (exit 1 = false alarm); the slip must
    be refuted by the check of its property unless its meta.json says the check cannot decide that shape (exit 2)."""
    import json
    root = os.path.join(VERIF, "hidden")
    out = []
    if not os.path.isdir(root):
        return out
    jobs = []
    for name in sorted(os.listdir(root)):
        mp = os.path.join(root, name, "meta.json")
        if not os.path.exists(mp):
            continue
        meta = json.load(open(mp))
        also = meta.get("also_checked_by") or {}
        if meta.get("property") != pid and pid not in also:
            continue
        if pid in also:
            meta = dict(meta, **also[pid])
        for which in ("clean", "patch"):
            jobs.append((name, which, meta))

    def one(job):
        name, which, meta = job
        pp = os.path.join(root, name, which + ".diff")
        d = tempfile.mkdtemp(prefix="psthid.")
        try:
            shutil.copytree(os.path.join(repo, "persim"), os.path.join(d, "persim"), ignore=shutil.ignore_patterns("__pycache__"))
            pr = subprocess.run(["patch", "-p1", "-s", "-d", d, "-i", pp], capture_output=True, text=True)
            if pr.returncode != 0:
                return dict(hidden=name, which=which, got="patch-does-not-apply", ok=True)
            r = subprocess.run([sys.executable, "-m", "pst.check", pid, "--repo", d, "--dry"], cwd=VERIF, capture_output=True,
                               text=True, timeout=600)
            rule = None
            for ln in r.stdout.splitlines():
                if " rule=" in ln:
                    rule = ln.split(" rule=")[1].split(":")[0]
                    break
            got = {0: "silent", 1: "refute", 2: "unmodelled"}.get(r.returncode, "error")
            if which == "clean":
                ok = got != "refute"
            else:
                exp = meta.get("expect_patch", "")
                ok = got == "refute" or (exp.startswith("undecided") and got == "unmodelled") or \
                    ("or silent" in exp and got == "silent")   # a slip of another property's kind (see also_checked_by)
            return dict(hidden=name, which=which, got=got, rule=rule, ok=ok)
        except subprocess.TimeoutExpired:
            return dict(hidden=name, which=which, got="timeout", rule=None, ok=which == "clean")
        finally:
            shutil.rmtree(d, ignore_errors=True)

    with ThreadPoolExecutor(max_workers=12) as ex:
        out = list(ex.map(one, jobs))
    return out


if __name__ == "__main__":
    # python -m pst.selftest.run C09 [repo]  — run all self-tests of one check without writing evidence
    import json
    pid_ = sys.argv[1].upper()
    repo_ = sys.argv[2] if len(sys.argv) > 2 else "/repo"
    bad = 0
    for r_ in seeded_runs(pid_, repo_):
        ok = r_["got"] == "refute" or not r_.get("primary", True) or r_.get("expect") == "missed"
        bad += not ok
        print("seeded  ", "ok " if ok else "BAD", r_)
    for rs_ in (False, True):
        n_ = neutral_run(pid_, repo_, restyle=rs_)
        bad += n_["exit"] != 0
        print("neutral ", "ok " if n_["exit"] == 0 else "BAD", n_)
    for r_ in refactor_runs(pid_, repo_):
        ok = r_["got"] in ("silent", "unmodelled", "patch-does-not-apply")
        bad += not ok
        print("refactor", "ok " if r_["got"] == "silent" else ("~~ " if ok else "BAD"), r_)
    for r_ in hidden_runs(pid_, repo_):
        bad += not r_["ok"]
        print("hidden  ", "ok " if r_["ok"] else "BAD", r_)
    res_ = sensitivity(pid_, repo_)
    miss = [r_ for r_ in res_ if r_["got"] != r_["expect"]]
    bad += len([m for m in miss if m["got"] != "anchor-missing"])
    print(f"corpus   {len(res_) - len(miss)}/{len(res_)} as expected")
    for m in miss:
        print("   MISMATCH", m)
    sys.exit(1 if bad else 0)