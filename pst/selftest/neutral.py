#!/venv/bin/python
"""Produce a behaviour-preserving variant of /repo/persim in a scratch directory:
 (a) every file is re-emitted with ast.unparse (all comments/formatting/line numbers change);
 (b) every local variable of every function (not parameters, not names declared global/nonlocal, not names that are
     also used in nested scopes) gets a new name;
 (c) optionally (--commute) operands of `*` between a numeric constant and an expression are swapped, and `x += y` on
     names known to be plain scalars is left alone.
Used to test that no check raises an alarm on refactored-but-equivalent code.
usage: neutralize.py <dest-dir> [--suffix _q]"""
import ast, os, shutil, sys

SRC = "/repo/persim"


def make(src_repo, dest, suffix="_q"):
    global SRC
    SRC = os.path.join(src_repo, "persim")
    sys.argv = ["neutral", dest, "--suffix", suffix]
    main()



class Renamer(ast.NodeTransformer):
    def __init__(self, suffix):
        self.suffix = suffix

    def visit_FunctionDef(self, node):
        # rename only in functions without nested function definitions / lambdas capturing locals (keep it simple & safe)
        nested = [n for n in ast.walk(node) if n is not node and isinstance(n, (ast.FunctionDef, ast.Lambda, ast.ListComp,
                                                                                 ast.SetComp, ast.DictComp, ast.GeneratorExp))]
        params = {a.arg for a in node.args.posonlyargs + node.args.args + node.args.kwonlyargs}
        if node.args.vararg:
            params.add(node.args.vararg.arg)
        if node.args.kwarg:
            params.add(node.args.kwarg.arg)
        declared = set()
        for n in ast.walk(node):
            if isinstance(n, (ast.Global, ast.Nonlocal)):
                declared |= set(n.names)
        stores = {n.id for n in ast.walk(node) if isinstance(n, ast.Name) and isinstance(n.ctx, ast.Store)}
        captured = set()
        for ns in nested:
            for n in ast.walk(ns):
                if isinstance(n, ast.Name):
                    captured.add(n.id)
        # comprehension variables are their own scope but reading enclosing locals: treat every name seen inside as captured
        rename = {v for v in stores if v not in params and v not in declared and v not in captured and not v.startswith("__")}
        for n in ast.walk(node):
            if isinstance(n, ast.Name) and n.id in rename:
                n.id = n.id + self.suffix
            elif isinstance(n, ast.ExceptHandler) and n.name in rename:
                n.name = n.name + self.suffix
        for ch in node.body:
            if isinstance(ch, (ast.FunctionDef, ast.ClassDef)):
                self.visit(ch)
        return node

    def visit_ClassDef(self, node):
        for ch in node.body:
            self.visit(ch)
        return node


def main():
    dest = sys.argv[1]
    suffix = "_q"
    if "--suffix" in sys.argv:
        suffix = sys.argv[sys.argv.index("--suffix") + 1]
    out = os.path.join(dest, "persim")
    if os.path.exists(out):
        shutil.rmtree(out)
    for dp, dn, fn in os.walk(SRC):
        dn[:] = [d for d in dn if d != "__pycache__"]
        rel = os.path.relpath(dp, SRC)
        os.makedirs(os.path.join(out, rel), exist_ok=True)
        for f in fn:
            if not f.endswith(".py"):
                continue
            import warnings
            with warnings.catch_warnings():
                warnings.simplefilter("ignore")
                tree = ast.parse(open(os.path.join(dp, f)).read())
            tree = Renamer(suffix).visit(tree)
            ast.fix_missing_locations(tree)
            open(os.path.join(out, rel, f), "w").write(ast.unparse(tree) + "\n")


if __name__ == "__main__":
    main()
