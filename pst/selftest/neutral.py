#!/venv/bin/python
"""Produce a behaviour-preserving variant of /repo/persim in a scratch directory:
 (a) every file is re-emitted with ast.unparse (all comments/formatting/line numbers change);
 (b) every local variable of every function (not parameters, not names declared global/nonlocal, not names that are
     also used in nested scopes) gets a new name;
 (c) optionally (--commute) operands of `*` between a numeric constant and an expression are swapped, and `x += y` on
     names known to be plain scalars is left alone.
Used to test that no check raises an alarm on refactored-but-equivalent code.
usage: neutralize.py <dest-dir> [--suffix _q]"""
import ast, os, shutil, sys

SRC = "/repo/persim"


def make(src_repo, dest, suffix="_q", restyle=False):
    global SRC
    SRC = os.path.join(src_repo, "persim")
    sys.argv = ["neutral", dest, "--suffix", suffix] + (["--restyle"] if restyle else [])
    main()



class Renamer(ast.NodeTransformer):
    def __init__(self, suffix):
        self.suffix = suffix

    def visit_FunctionDef(self, node):
        # rename only in functions without nested function definitions / lambdas capturing locals (keep it simple & safe)
        nested = [n for n in ast.walk(node) if n is not node and isinstance(n, (ast.FunctionDef, ast.Lambda, ast.ListComp,
                                                                                 ast.SetComp, ast.DictComp, ast.GeneratorExp))]
        params = {a.arg for a in node.args.posonlyargs + node.args.args + node.args.kwonlyargs}
        if node.args.vararg:
            params.add(node.args.vararg.arg)
        if node.args.kwarg:
            params.add(node.args.kwarg.arg)
        declared = set()
        for n in ast.walk(node):
            if isinstance(n, (ast.Global, ast.Nonlocal)):
                declared |= set(n.names)
        stores = {n.id for n in ast.walk(node) if isinstance(n, ast.Name) and isinstance(n.ctx, ast.Store)}
        captured = set()
        for ns in nested:
            for n in ast.walk(ns):
                if isinstance(n, ast.Name):
                    captured.add(n.id)
        # comprehension variables are their own scope but reading enclosing locals: treat every name seen inside as captured
        rename = {v for v in stores if v not in params and v not in declared and v not in captured and not v.startswith("__")}
        for n in ast.walk(node):
            if isinstance(n, ast.Name) and n.id in rename:
                n.id = n.id + self.suffix
            elif isinstance(n, ast.ExceptHandler) and n.name in rename:
                n.name = n.name + self.suffix
        for ch in node.body:
            if isinstance(ch, (ast.FunctionDef, ast.ClassDef)):
                self.visit(ch)
        return node

    def visit_ClassDef(self, node):
        for ch in node.body:
            self.visit(ch)
        return node


class Restyle(ast.NodeTransformer):
    """Semantics-preserving restyling, applied on top of renaming when --restyle is given:
      * single comparisons are mirrored:            a < b   ->  b > a      (also <=, >, >=, ==, !=; operands without calls)
      * if/else arms are swapped under a negation:  if c: A else: B  ->  if not c: B else: A
      * `return <expr>` goes through a temporary:   _rv = <expr>; return _rv   (top level of a function only)
      * products/sums of two call-free operands where one is a numeric constant are commuted:  0.5 * x -> x * 0.5
    None of these changes a value, an exception or an evaluation order that matters (operands are call-free)."""
    MIRROR = {ast.Lt: ast.Gt, ast.Gt: ast.Lt, ast.LtE: ast.GtE, ast.GtE: ast.LtE, ast.Eq: ast.Eq, ast.NotEq: ast.NotEq}

    @staticmethod
    def _pure(e):
        return not any(isinstance(x, (ast.Call, ast.Await, ast.Yield, ast.YieldFrom, ast.NamedExpr)) for x in ast.walk(e))

    def visit_Compare(self, n):
        self.generic_visit(n)
        if len(n.ops) == 1 and type(n.ops[0]) in self.MIRROR and self._pure(n.left) and self._pure(n.comparators[0]):
            return ast.copy_location(ast.Compare(n.comparators[0], [self.MIRROR[type(n.ops[0])]()], [n.left]), n)
        return n

    def visit_If(self, n):
        self.generic_visit(n)
        if n.orelse and not (len(n.orelse) == 1 and isinstance(n.orelse[0], ast.If)):
            return ast.copy_location(ast.If(ast.UnaryOp(ast.Not(), n.test), n.orelse, n.body), n)
        return n

    def visit_BinOp(self, n):
        self.generic_visit(n)
        if isinstance(n.op, (ast.Mult, ast.Add)) and self._pure(n.left) and self._pure(n.right):
            num = lambda e: isinstance(e, ast.Constant) and isinstance(e.value, (int, float)) and not isinstance(e.value, bool)
            if num(n.left) != num(n.right):
                return ast.copy_location(ast.BinOp(n.right, n.op, n.left), n)
        return n

    def visit_FunctionDef(self, n):
        self.generic_visit(n)
        body = []
        for st in n.body:
            if isinstance(st, ast.Return) and st.value is not None and not isinstance(st.value, (ast.Name, ast.Constant)):
                body.append(ast.copy_location(ast.Assign([ast.Name("_rv", ast.Store())], st.value), st))
                body.append(ast.copy_location(ast.Return(ast.Name("_rv", ast.Load())), st))
            else:
                body.append(st)
        n.body = body
        return n


def main():
    dest = sys.argv[1]
    suffix = "_q"
    if "--suffix" in sys.argv:
        suffix = sys.argv[sys.argv.index("--suffix") + 1]
    out = os.path.join(dest, "persim")
    if os.path.exists(out):
        shutil.rmtree(out)
    for dp, dn, fn in os.walk(SRC):
        dn[:] = [d for d in dn if d != "__pycache__"]
        rel = os.path.relpath(dp, SRC)
        os.makedirs(os.path.join(out, rel), exist_ok=True)
        for f in fn:
            if not f.endswith(".py"):
                continue
            import warnings
            with warnings.catch_warnings():
                warnings.simplefilter("ignore")
                tree = ast.parse(open(os.path.join(dp, f)).read())
            tree = Renamer(suffix).visit(tree)
            if "--restyle" in sys.argv:
                tree = Restyle().visit(tree)
            ast.fix_missing_locations(tree)
            open(os.path.join(out, rel, f), "w").write(ast.unparse(tree) + "\n")


if __name__ == "__main__":
    main()
