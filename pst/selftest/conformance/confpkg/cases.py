"""Micro-programs on which the symbolic evaluator (pst/core/absint.py) is compared with CPython + numpy.

Every function takes no arguments and returns numbers / lists / arrays.  The conformance runner executes each one for real
and through the evaluator; a result the evaluator calls exact must equal Python's.  Each case isolates one piece of
semantics on which an evaluator that 'reads the text' tends to differ from the language (aliasing, views, in-place
operators, iteration protocols, late binding, truthiness, ties, rounding).
"""
import numpy as np


# ----------------------------------------------------------------------------- aliasing and in-place updates
def list_alias_append():
    a = [1, 2]
    b = a
    b.append(3)
    return a


def list_copy_append():
    a = [1, 2]
    b = list(a)
    b.append(3)
    return a


def list_slice_copy():
    a = [1, 2, 3]
    b = a[:]
    b[0] = 9
    return a


def nested_list_shared_rows():
    rows = [[0, 0]] * 2
    rows[0][0] = 5
    return rows


def nested_list_fresh_rows():
    rows = [[0, 0] for _ in range(2)]
    rows[0][0] = 5
    return rows


def array_view_store():
    a = np.zeros(4)
    v = a[1:3]
    v[0] = 7.0
    return a


def array_copy_store():
    a = np.zeros(4)
    v = a[1:3].copy()
    v[0] = 7.0
    return a


def array_alias_inplace_add():
    a = np.array([1.0, 2.0])
    b = a
    b += 1.0
    return a


def array_rebind_add():
    a = np.array([1.0, 2.0])
    b = a
    b = b + 1.0
    return a


def _bump(x):
    x += 10.0


def array_inplace_through_helper():
    a = np.array([1.0, 2.0])
    _bump(a)
    return a


def number_inplace_through_helper():
    a = 1.0
    _bump(a)
    return a


def _set_first(x):
    x[0] = 42.0


def array_store_through_helper():
    a = np.zeros(3)
    _set_first(a)
    return a


def list_inplace_add_is_extend():
    a = [1]
    b = a
    b += [2]
    return a


def tuple_inplace_add_rebinds():
    a = (1,)
    b = a
    b += (2,)
    return list(a)


def transpose_is_a_view():
    a = np.zeros((2, 2))
    t = a.T
    t[0, 1] = 3.0
    return a


def fill_diagonal_in_place():
    a = np.zeros((2, 2))
    np.fill_diagonal(a, 1.5)
    return a


def default_list_shared_between_calls():
    def f(x, acc=[]):
        acc.append(x)
        return len(acc)
    f(1)
    return f(2)


# ----------------------------------------------------------------------------- iteration protocols
def generator_consumed_twice():
    g = (k * k for k in range(4))
    first = sum(g)
    second = sum(g)
    return [first, second]


def zip_stops_at_shorter():
    return [a + b for a, b in zip([1, 2, 3], [10, 20])]


def map_consumed_twice():
    m = map(abs, [-1, -2])
    return [list(m), list(m)]


def pop_while_iterating():
    xs = [1, 1, 1, 2]
    seen = []
    for k, x in enumerate(xs):
        seen.append(x)
        if x == 1:
            xs.pop(k)
    return [seen, xs]


def iterate_over_copy_while_popping():
    xs = [1, 1, 1, 2]
    seen = []
    for k, x in enumerate(list(xs)):
        seen.append(x)
    return seen


def for_else_without_break():
    out = 0
    for k in range(3):
        if k == 5:
            break
    else:
        out = 1
    return out


def while_else_with_break():
    k, out = 0, 0
    while k < 5:
        k += 1
        if k == 3:
            break
    else:
        out = 1
    return [k, out]


def next_with_default():
    it = iter([1])
    a = next(it, None)
    b = next(it, -1)
    return [a, b]


def reversed_range():
    return list(reversed(range(4)))


def range_negative_step():
    return list(range(5, 0, -2))


def enumerate_start():
    return [k for k, _ in enumerate("ab", start=3)]


def dict_keeps_insertion_order():
    d = {}
    d[3] = "c"
    d[1] = "a"
    d[2] = "b"
    return list(d)


def dict_overwrite_keeps_position():
    d = {1: 0, 2: 0}
    d[1] = 5
    return [list(d), d[1]]


# ----------------------------------------------------------------------------- closures and scopes
def lambda_late_binding():
    fs = [lambda: k for k in range(3)]
    return [f() for f in fs]


def lambda_default_binding():
    fs = [lambda k=k: k for k in range(3)]
    return [f() for f in fs]


def nonlocal_counter():
    total = 0

    def add(v):
        nonlocal total
        total += v
    for v in (1, 2, 3):
        add(v)
    return total


def closure_sees_later_assignment():
    x = 1

    def f():
        return x
    x = 2
    return f()


def comprehension_variable_is_local():
    k = 10
    _ = [k for k in range(3)]
    return k


class _Box:
    shared = []

    def __init__(self):
        self.own = []


def class_attribute_is_shared():
    a, b = _Box(), _Box()
    a.shared.append(1)
    a.own.append(1)
    return [len(b.shared), len(b.own)]


class _Temp:
    def __init__(self, c):
        self._c = c

    @property
    def f(self):
        return self._c * 9 / 5 + 32

    @f.setter
    def f(self, v):
        self._c = (v - 32) * 5 / 9


def property_setter_runs():
    t = _Temp(0.0)
    t.f = 212.0
    return t._c


# ----------------------------------------------------------------------------- truthiness, short circuit, comparisons
def or_returns_operand():
    return [0 or 5, 3 or 5, None or 0, [] or [1]]


def and_returns_operand():
    return [0 and 5, 3 and 5]


def zero_is_falsy_default():
    def f(start=None):
        if not start:
            start = 7
        return start
    return [f(0), f(2)]


def none_check_keeps_zero():
    def f(start=None):
        if start is None:
            start = 7
        return start
    return [f(0), f(2)]


def chained_comparison():
    return [1 < 2 < 3, 1 < 3 < 2, 3 > 2 > 1]


def empty_array_truth_via_size():
    a = np.array([])
    return [a.size == 0, len(a)]


def nan_is_not_equal_to_itself():
    x = float("nan")
    return [x == x, x != x, x < 1.0]


def inf_arithmetic():
    i = float("inf")
    return [i > 1e308, -i < 0, i - 1 == i]


def bool_is_an_int():
    return [True + True, sum([True, False, True])]


def equal_lists_are_not_identical():
    a, b = [1], [1]
    return [a == b, a is b]


# ----------------------------------------------------------------------------- numbers
def floor_division_negative():
    return [7 // 2, -7 // 2, 7 % 3, -7 % 3, 7.5 // 2]


def int_truncates_toward_zero():
    return [int(2.7), int(-2.7)]


def round_half_to_even():
    return [round(0.5), round(1.5), round(2.5), round(-0.5)]


def np_round_half_to_even():
    return np.round(np.array([0.5, 1.5, 2.5]))


def ceil_of_float_quotient():
    return [int(np.ceil(2.1 / 0.7)), int(2.1 / 0.7), round(2.1 / 0.7)]


def power_precedence():
    return [-2 ** 2, (-2) ** 2, 2 ** 3 ** 2]


def integer_array_store_truncates():
    a = np.array([1, 2, 3])
    a[0] = 2.9
    return a


def integer_array_division_is_float():
    a = np.array([1, 2, 3])
    return a / 2


def integer_array_inplace_floor_divide():
    a = np.array([5, 7])
    a //= 2
    return a


def abs_and_sign():
    return [abs(-3), np.sign(-2.0), np.sign(0.0)]


def min_max_of_ties_take_first():
    pairs = [(1, "a"), (1, "b"), (0, "c"), (0, "d")]
    lo = min(pairs, key=lambda p: p[0])
    hi = max(pairs, key=lambda p: p[0])
    return [lo[1] == "c", hi[1] == "a"]


def sort_is_stable():
    pairs = [(1, 3), (0, 2), (1, 1), (0, 0)]
    return [p[1] for p in sorted(pairs, key=lambda p: p[0])]


def sort_reverse_keeps_ties_in_order():
    pairs = [(1, 3), (0, 2), (1, 1), (0, 0)]
    return [p[1] for p in sorted(pairs, key=lambda p: p[0], reverse=True)]


def sorted_lists_compare_lexicographically():
    return sorted([[1, 5], [1, 2], [0, 9]])


# ----------------------------------------------------------------------------- numpy
def argmax_takes_first_of_ties():
    return [int(np.argmax(np.array([1, 3, 3]))), int(np.argmin(np.array([2, 1, 1])))]


def np_sort_sorts_last_axis():
    return np.sort(np.array([[3, 1], [0, 2]]))


def np_sort_axis0():
    return np.sort(np.array([[3, 1], [0, 2]]), axis=0)


def np_unique_sorts():
    return np.unique(np.array([3, 1, 3, 2]))


def broadcasting_outer_difference():
    a = np.array([1.0, 2.0, 4.0])
    b = np.array([0.5, 1.0])
    return a[:, None] - b[None, :]


def sum_over_axes():
    a = np.array([[1, 2], [3, 4]])
    return [a.sum(), list(a.sum(axis=0)), list(a.sum(axis=1))]


def boolean_mask_selects_rows():
    a = np.array([[1, 5], [2, np.inf], [3, 7]])
    return a[np.isfinite(a[:, 1]), :]


def masked_store():
    a = np.array([1.0, -2.0, 3.0])
    a[a < 0] = 0.0
    return a


def where_three_arguments():
    a = np.array([1.0, -2.0, 3.0])
    return np.where(a > 0, a, -a)


def negative_index_and_slices():
    a = np.arange(6)
    return [int(a[-1]), list(a[1::2]), list(a[::-1][:2]), list(a[-2:])]


def slice_past_the_end_is_clipped():
    a = [1, 2, 3]
    return [a[1:10], a[5:], a[-10:2]]


def maximum_accumulate():
    return np.maximum.accumulate(np.array([1, 3, 2, 5, 4]))


def cumsum_and_diff():
    a = np.array([1, 2, 4])
    return [list(np.cumsum(a)), list(np.diff(a))]


def linspace_endpoints():
    return [list(np.linspace(0, 1, 5)), list(np.linspace(0, 1, 4, endpoint=False))]


def arange_float_step_count():
    return len(np.arange(0.5, 1.5, 0.25))


def concatenate_and_stack():
    a, b = np.array([1, 2]), np.array([3, 4])
    return [np.concatenate([a, b]).tolist(), np.vstack([a, b]).tolist(), np.column_stack([a, b]).tolist()]


def reshape_is_row_major():
    return np.arange(6).reshape(2, 3)


def reshape_then_transpose():
    return np.arange(6).reshape(3, 2).T


def meshgrid_indexing():
    xx, yy = np.meshgrid(np.array([1, 2, 3]), np.array([10, 20]))
    ii, jj = np.meshgrid(np.array([1, 2, 3]), np.array([10, 20]), indexing="ij")
    return [xx.tolist(), yy.tolist(), ii.tolist(), jj.tolist()]


def pad_front_and_back():
    return np.pad(np.array([[1, 2]]), ((1, 0), (0, 1)))


def tril_indices_pairs():
    i, j = np.tril_indices(3, -1)
    return [i.tolist(), j.tolist()]


def isclose_default_tolerances():
    return [bool(np.isclose(1.0, 1.0 + 1e-6)), bool(np.isclose(1.0, 1.0 + 1e-4)), bool(np.isclose(0.0, 1e-9))]


def array_equal_vs_allclose():
    a = np.array([1.0, 2.0])
    return [bool(np.array_equal(a, a + 1e-12)), bool(np.allclose(a, a + 1e-12))]


def all_any_of_empty():
    e = np.array([])
    return [bool(np.all(e)), bool(np.any(e)), all([]), any([])]


def dot_and_outer():
    a, b = np.array([1.0, 2.0]), np.array([3.0, 4.0])
    return [float(np.dot(a, b)), np.outer(a, b).tolist()]


def rotation_by_quarter_pi():
    c, s = np.cos(np.pi / 4), np.sin(np.pi / 4)
    R = np.array([[c, -s], [s, c]])
    return np.array([[1.0, 3.0]]).dot(R)


def fancy_index_pairs():
    a = np.arange(9).reshape(3, 3)
    return a[np.array([0, 2]), np.array([1, 1])]


def ix_picks_a_block():
    a = np.arange(9).reshape(3, 3)
    return a[np.ix_([0, 2], [0, 2])]


def row_mask_then_column_mask():
    a = np.arange(9).reshape(3, 3)
    m = np.array([True, False, True])
    return a[m][:, m]


def row_mask_only():
    a = np.arange(9).reshape(3, 3)
    m = np.array([True, False, True])
    return a[m]


# ----------------------------------------------------------------------------- idioms of the analysed package
from bisect import bisect_left
from operator import itemgetter


def bisect_on_a_range():
    return [bisect_left(range(7), int(7 / 2)), bisect_left(range(1), 0), bisect_left([1, 3, 3, 5], 3)]


def format_keys_round_trip():
    g = {}
    for i in range(3):
        g["{}".format(i)] = {j for j in range(3) if j >= i}
    return [sorted(g["1"]), len(g)]


def dict_from_zip_lookup():
    grid = [0.0, 0.5, 1.0]
    d = dict(zip(grid, range(3)))
    return [d[0.5], d[1.0]]


def itemgetter_min_max():
    pts = [[2, 9], [0, 4], [1, 7]]
    return [min(pts, key=itemgetter(0))[0], max(pts, key=itemgetter(1))[1]]


def list_sort_with_key_in_place():
    a = [[1, 2], [0, 5], [1, 4]]
    a.sort(key=lambda x: [x[0], -x[1]])
    return a


def sorted_reverse_numbers():
    return sorted([3, 1, 2], reverse=True)


def consecutive_pairs():
    xs = [1, 4, 9, 16]
    return [b - a for a, b in zip(xs, xs[1:])]


def reversed_columns():
    a = np.array([[1.0, 2.0, 9.0], [3.0, 4.0, 9.0]])
    return a[:, 1::-1]


def copy_then_skew():
    a = np.array([[1.0, 3.0], [2.0, 7.0]])
    b = np.copy(a)
    b[:, 1] -= b[:, 0]
    return [a.tolist(), b.tolist()]


def skew_in_place_on_argument():
    def to_bp(d):
        d[:, 1] -= d[:, 0]
        return d
    a = np.array([[1.0, 3.0], [2.0, 7.0]])
    to_bp(a)
    return a


def inf_times_ones_and_fill_diagonal():
    u = np.inf * np.ones((2, 2))
    np.fill_diagonal(u, np.array([1.0, 2.0]))
    return u


def block_matrix_by_slices():
    D = np.zeros((3, 3))
    D[0:1, 0:2] = np.array([[1.0, 2.0]])
    D[1:, 0:2] = 5.0
    D[0:1, 2:] = 7.0
    return D


def open_ended_slices():
    D = np.zeros((3, 3))
    D[1::, 0:2] = 1.0
    D[0:1, 2::] = 2.0
    return D


def sum_at_index_arrays():
    D = np.arange(9.0).reshape(3, 3)
    return float(np.sum(D[np.array([0, 1, 2]), np.array([2, 0, 1])]))


def isfinite_row_filter_keeps_order():
    a = np.array([[0.0, 1.0], [1.0, np.inf], [2.0, 3.0]])
    b = a[np.isfinite(a[:, 1]), :]
    return [b.tolist(), b.shape[0], a.shape[0]]


def min_of_shape_and_size():
    e = np.array([])
    f = np.zeros((0, 2))
    g = np.zeros((3, 2))
    return [min(e.shape[0], e.size), min(f.shape[0], f.size), min(g.shape[0], g.size)]


def max_of_unique_flattened():
    D = np.array([[1.0, np.inf], [0.0, 1.0]])
    ds = np.sort(np.unique(D.flatten()))
    return [ds.tolist(), float(ds[-1]), len(ds)]


def pop_and_insert_positions():
    a = [10, 20, 30, 40]
    x = a.pop(1)
    a.insert(2, 99)
    y = a.pop()
    return [a, x, y]


def interp_piecewise_linear():
    return np.interp(np.array([0.0, 0.5, 1.5, 3.0]), [0.0, 1.0, 2.0], [0.0, 2.0, 0.0])


def zip_star_transposes():
    xs, ys = zip(*[[0, 1], [2, 3], [4, 5]])
    return [list(xs), list(ys)]


def array_of_list_of_pairs():
    return np.array([list(zip([0.0, 1.0], [5, 6])), list(zip([0.0, 1.0], [7, 8]))])


def negate_each_row():
    vals = np.array([[1.0, 2.0], [3.0, 4.0]])
    return np.array([-1 * row for row in vals])


def max_len_of_lists():
    W = [[1], [], [1, 2, 3]]
    return max([len(w) for w in W])


def ragged_fill_into_matrix():
    W = [[3.0], [], [2.0, 1.0]]
    K = max(len(w) for w in W)
    L = np.array([np.zeros(3) for _ in range(K)])
    for i in range(3):
        for k in range(len(W[i])):
            L[k][i] = W[i][k]
    return L


def argmin_along_axis():
    ax = np.array([0.0, 1.0, 2.0])
    pts = np.array([0.4, 1.6, 1.5])
    diff = ax[:, np.newaxis] - pts
    return np.argmin(np.abs(diff), axis=0)


def tie_goes_to_first_grid_node():
    ax = np.array([0.0, 1.0])
    return int(np.argmin(np.abs(ax - 0.5)))


def min_of_keyless_pairs():
    return [min([[1, 5], [1, 2]]), max([[1, 5], [1, 7], [0, 9]])]


def any_isinf():
    a = np.array([[0.0, np.inf], [1.0, 2.0]])
    return [bool(np.any(np.isinf(a))), bool(np.any(np.isinf(a[1:])))]


def unique_with_counts():
    labels = np.array([1, 0, 1, 1, 2])
    vals, counts = np.unique(labels, return_counts=True)
    return [vals.tolist(), counts.tolist(), int(vals[np.argmax(counts)])]


def same_mask_on_both_axes():
    D = np.arange(9.0).reshape(3, 3)
    m = np.array([True, False, True])
    return D[m][:, m]


def triangle_symmetrise():
    L = np.zeros((3, 3))
    L[0, 1], L[0, 2], L[1, 2] = 1.0, 2.0, 3.0
    idx = np.tril_indices(3, -1)
    L[idx] = L.T[idx]
    return L


def iinfo_ladder():
    value = 200
    types = [t for t in [np.int8, np.int16, np.int32] if value <= np.iinfo(t).max]
    return [len(types), int(np.iinfo(types[0]).max)]


def entropy_of_lengths():
    l = np.array([1.0, 1.0, 2.0])
    p = l / np.sum(l)
    return float(-np.sum(p * np.log(p)))


def replace_inf_by_value():
    d = np.array([[0.0, np.inf], [1.0, 3.0]])
    d2 = np.copy(d)
    d2[np.isinf(d2[:, 1]), 1] = 10.0
    return [d.tolist() == [[0.0, float("inf")], [1.0, 3.0]], d2.tolist()]


def sqrt_of_clamped_difference():
    return [float(np.sqrt(np.maximum(0.0, -1e-17))), float(np.sqrt(max(0.0, 4.0)))]


def theta_grid():
    M = 4
    thetas = np.linspace(-np.pi / 2, np.pi / 2, M + 1)[:-1]
    return [len(thetas), float(thetas[0]), float(thetas[-1])]


def sorted_projections_l1():
    a = np.array([3.0, 1.0, 2.0])
    b = np.array([1.0, 1.5, 5.0])
    return float(np.sum(np.abs(np.sort(a) - np.sort(b))))


# ----------------------------------------------------------------------------- numpy in-place forms
def ufunc_with_out_argument():
    a = np.array([1.0, 5.0, 3.0])
    b = np.array([0.5, 1.0, 1.0])
    np.subtract(a, b, out=a)
    return a


def copyto_with_mask():
    a = np.array([1.0, np.inf, 3.0])
    np.copyto(a, 9.0, where=np.isinf(a))
    return a


def copyto_reaches_aliases():
    a = np.zeros(3)
    b = a
    np.copyto(b, np.array([1.0, 2.0, 3.0]))
    return a


def out_argument_on_a_column_view():
    a = np.array([[1.0, 3.0], [2.0, 7.0]])
    np.subtract(a[:, 1], a[:, 0], out=a[:, 1])
    return a


# ---------------------------------------------------------------- decorators defined in the package are applied
import functools as _ft


def _scaled_by(factor):
    def deco(func):
        @_ft.wraps(func)
        def wrapper(x, offset=0.0):
            return factor * func(x, offset=offset)
        return wrapper
    return deco


def _forgets_offset(func):
    @_ft.wraps(func)
    def wrapper(x, offset=0.0):
        return func(x)
    return wrapper


@_scaled_by(2.0)
def _shifted_sum(x, offset=0.0):
    return sum(x) + offset


@_forgets_offset
def _shifted_sum_lost(x, offset=0.0):
    return sum(x) + offset


def decorator_factory_is_applied():
    return _shifted_sum([1.0, 2.0, 3.0], offset=0.5)


def decorator_that_drops_an_argument():
    return _shifted_sum_lost([1.0, 2.0, 3.0], offset=0.5)


def tuple_is_not_a_list():
    picked = [(1.0, "a"), (2.0, "b")]
    nums, labs = zip(*picked)
    if not isinstance(labs, list):
        labs = [labs] * len(nums)
    return len(labs), isinstance(nums, tuple), isinstance([1.0], list), isinstance((1.0,), list)


def enumerate_from_one():
    out = []
    for k, x in enumerate([5, 6, 7], 1):
        out.append(k * x)
    return out, [k for k, _ in enumerate("ab", start=3)]


def starred_list_display():
    a = np.array([[1, 2], [3, 4]])
    b = [[5, 6]]
    both = [*a, *b]
    return len(both), [x[0] + x[1] for x in both]


def dict_filled_on_first_sight():
    d = {}
    for i, j in [(0, 1), (0, 2)]:
        for v in (i, j):
            if v not in d:
                d[v] = v * 10 + 1
    return len(d), d[0], d[2]


def chunks_of_an_iterator():
    import itertools
    items = iter(zip([0, 0, 1], [1, 2, 2]))
    out = []
    chunk = list(itertools.islice(items, 2))
    while chunk:
        out.append(len(chunk))
        chunk = list(itertools.islice(items, 2))
    return out


def nested_comprehension_flattens():
    blocks = ([k * 10 + j for j in range(k + 1)] for k in range(3))
    return [r for block in blocks for r in block]


class _Pt:
    def __init__(self, x, y):
        self.x = x
        self.y = y
        self.norm1 = abs(x) + abs(y)

    def shifted(self, d):
        out = _Pt.__new__(_Pt)
        out.x = self.x + d
        out.y = self.y
        out.norm1 = abs(out.x) + abs(out.y)
        return out

    def twin(self):
        new = self.__class__.__new__(self.__class__)
        new.x, new.y, new.norm1 = self.x, self.y, self.norm1
        return new


def instance_made_without_init():
    p = _Pt(1, -2).shifted(3)
    q = p.twin()
    return p.x, p.norm1, q.y, q.norm1
