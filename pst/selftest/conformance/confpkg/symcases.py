"""Programs over arrays of symbolic length: the evaluator runs each one ONCE on generic inputs (loops are summarised, not
unrolled) and the derived value is then compared with what Python computes on random arrays of several sizes."""
import numpy as np


def sum_persistence(X, Y, s):
    t = 0.0
    for i in range(X.shape[0]):
        t += X[i, 1] - X[i, 0]
    return t


def pairwise_l1(X, Y, s):
    t = 0.0
    for i in range(X.shape[0]):
        for j in range(Y.shape[0]):
            t += abs(X[i, 0] - Y[j, 0]) + abs(X[i, 1] - Y[j, 1])
    return t


def count_above(X, Y, s):
    k = 0
    for i in range(X.shape[0]):
        if X[i, 1] > s:
            k += 1
    return k


def running_max(X, Y, s):
    best = X[0, 0]
    for i in range(1, X.shape[0]):
        if X[i, 0] > best:
            best = X[i, 0]
    return best


def masked_column_sum(X, Y, s):
    Z = X[X[:, 1] > X[:, 0], :]
    return np.sum(Z[:, 1])


def masked_count(X, Y, s):
    Z = X[X[:, 1] > s, :]
    return Z.shape[0]


def scaled(X, Y, s):
    return X * s


def skewed_copy(X, Y, s):
    c = np.copy(X)
    c[:, 1] -= c[:, 0]
    return c


def skew_leaves_argument(X, Y, s):
    c = np.copy(X)
    c[:, 1] -= c[:, 0]
    return X


def outer_minimum(X, Y, s):
    return np.minimum(X[:, None, 0], Y[None, :, 0])


def linf_cross(X, Y, s):
    return np.maximum(np.abs(X[:, None, 0] - Y[None, :, 0]), np.abs(X[:, None, 1] - Y[None, :, 1]))


def augmented_matrix(X, Y, s):
    M, N = X.shape[0], Y.shape[0]
    D = np.zeros((M + N, M + N))
    D[0:M, 0:N] = np.abs(X[:, None, 0] - Y[None, :, 0])
    U = np.inf * np.ones((M, M))
    np.fill_diagonal(U, 0.5 * (X[:, 1] - X[:, 0]))
    D[0:M, N:] = U
    L = np.inf * np.ones((N, N))
    np.fill_diagonal(L, 0.5 * (Y[:, 1] - Y[:, 0]))
    D[M:, 0:N] = L
    return D


def appended_lengths(X, Y, s):
    out = []
    for row in X:
        out.append(row[1] - row[0])
    return np.array(out)


def comprehension_lengths(X, Y, s):
    return np.array([d - b for b, d in X])


def weighted_by_position(X, Y, s):
    return sum(i * x[0] for i, x in enumerate(X))


def consecutive_differences(X, Y, s):
    t = 0.0
    for a, b in zip(X[:, 0], X[1:, 0]):
        t += b - a
    return t


def strict_upper_pairs(X, Y, s):
    n = X.shape[0]
    t = 0.0
    for i in range(n):
        for j in range(i + 1, n):
            t += X[i, 0] * X[j, 0]
    return t


def mean_and_spread(X, Y, s):
    m = np.mean(X[:, 0])
    return np.sum((X[:, 0] - m) ** 2)


def where_sum(X, Y, s):
    return np.where(X[:, 0] > 0, X[:, 1], 0.0).sum()


def entry_at_argmin(X, Y, s):
    return X[np.argmin(X[:, 0]), 1]


def sorted_column_gap(X, Y, s):
    return np.sum(np.abs(np.sort(X[:, 0]) - np.sort(X[:, 1])))


def max_minus_min(X, Y, s):
    return np.max(X[:, 1]) - np.min(X[:, 0])


def normalised_entropy_terms(X, Y, s):
    l = np.abs(X[:, 1] - X[:, 0])
    p = l / np.sum(l)
    return -np.sum(p * np.log(p))


def first_row_above(X, Y, s):
    for i in range(X.shape[0]):
        if X[i, 0] > s:
            return i
    return -1


def last_value_kept(X, Y, s):
    last = 0.0
    for i in range(X.shape[0]):
        last = X[i, 1]
    return last


def two_accumulators(X, Y, s):
    a = b = 0.0
    for i in range(X.shape[0]):
        a += X[i, 0]
        b += a
    return b


def accumulate_into_array(X, Y, s):
    img = np.zeros(2)
    for i in range(X.shape[0]):
        img += np.array([X[i, 0], X[i, 1]])
    return img


def _add_row(img, row):
    img += row


def accumulate_through_helper(X, Y, s):
    img = np.zeros(2)
    for i in range(X.shape[0]):
        _add_row(img, X[i, :])
    return img


def kernel_double_sum(X, Y, s):
    k = 0.0
    for i in range(X.shape[0]):
        p = X[i, 0:2]
        for j in range(Y.shape[0]):
            q = Y[j, 0:2]
            qc = Y[j, 1::-1]
            k += np.exp(-np.sum((p - q) ** 2) / 8.0) - np.exp(-np.sum((p - qc) ** 2) / 8.0)
    return k


def positional_fill(X, Y, s):
    out = np.zeros(X.shape[0])
    for k in range(X.shape[0]):
        out[k] = X[k, 0] * s
    return out


def positional_increment(X, Y, s):
    out = np.ones(X.shape[0])
    for k in range(X.shape[0]):
        out[k] += X[k, 1]
    return out


def concatenated_projections(X, Y, s):
    v = np.concatenate([X[:, 0], Y[:, 1]])
    return np.sum(v)


def stacked_rows(X, Y, s):
    return np.vstack([X, Y]).shape[0]


def row_norms(X, Y, s):
    return np.sqrt(np.sum(X ** 2, axis=1))


def column_extremes(X, Y, s):
    return [np.min(X, axis=0)[0], np.max(X, axis=0)[1]]


def tail_sum(X, Y, s):
    return np.sum(X[1:, 0])


def head_sum(X, Y, s):
    return np.sum(X[:-1, 0])


def tail_array(X, Y, s):
    return X[1:, 0]


def adjacent_gaps_by_slices(X, Y, s):
    return X[1:, 0] - X[:-1, 0]


def tail_loop(X, Y, s):
    t = 0.0
    for v in X[1:, 0]:
        t += v
    return t


def list_tail_pairs(X, Y, s):
    l = [x[0] for x in X]
    t = 0.0
    for a, b in zip(l, l[1:]):
        t += (b - a) * a
    return t


# ----------------------------------------------------------------------------- more summaries
def conditional_accumulate(X, Y, s):
    t = 0.0
    for i in range(X.shape[0]):
        if X[i, 1] > X[i, 0]:
            t += X[i, 1] - X[i, 0]
        else:
            t -= 1.0
    return t


def skip_with_continue(X, Y, s):
    t = 0.0
    for i in range(X.shape[0]):
        if X[i, 0] < 0:
            continue
        t += X[i, 0]
    return t


def counter_while(X, Y, s):
    i = 0
    t = 0.0
    while i < X.shape[0]:
        t += X[i, 0] * X[i, 1]
        i += 1
    return t


def product_of_sums(X, Y, s):
    a = 0.0
    for i in range(X.shape[0]):
        a += X[i, 0]
    b = 0.0
    for j in range(Y.shape[0]):
        b += Y[j, 1]
    return a * b


def inner_depends_on_outer_value(X, Y, s):
    t = 0.0
    for i in range(X.shape[0]):
        w = X[i, 1] - X[i, 0]
        for j in range(Y.shape[0]):
            t += w * Y[j, 0]
    return t


def two_masks(X, Y, s):
    Z = X[(X[:, 0] > 0) & (X[:, 1] > X[:, 0]), :]
    return np.sum(Z[:, 0])


def mask_then_mask(X, Y, s):
    Z = X[X[:, 0] > 0, :]
    W = Z[Z[:, 1] > s, :]
    return np.sum(W[:, 1])


def masked_assignment_sum(X, Y, s):
    c = np.copy(X)
    c[c[:, 1] < 0, 1] = 0.0
    return np.sum(c[:, 1])


def clip_and_sum(X, Y, s):
    return np.sum(np.minimum(np.maximum(X[:, 0], 0.0), 1.0))


def diagonal_of_outer(X, Y, s):
    G = np.outer(X[:, 0], X[:, 1])
    return np.sum(np.diag(G))


def row_sums_then_max(X, Y, s):
    return np.max(np.sum(np.abs(X), axis=1))


def column_of_matrix_product(X, Y, s):
    R = np.array([[0.5, -0.5], [0.5, 0.5]])
    Z = X.dot(R)
    return np.sum(Z[:, 1])


def distance_matrix_entry_sum(X, Y, s):
    D = np.sqrt((X[:, None, 0] - Y[None, :, 0]) ** 2 + (X[:, None, 1] - Y[None, :, 1]) ** 2)
    return np.sum(D)


def min_over_pairs(X, Y, s):
    D = np.abs(X[:, None, 0] - Y[None, :, 0])
    return np.min(D)


def bucket_lists(X, Y, s):
    W = [[] for _ in range(3)]
    for i in range(X.shape[0]):
        W[0].append(X[i, 0])
        W[2].append(X[i, 1])
    return [sum(W[0]), len(W[1]), sum(W[2])]


def helper_called_in_loop(X, Y, s):
    def tent(b, d, t):
        return max(0.0, min(t - b, d - t))
    t = 0.0
    for i in range(X.shape[0]):
        t += tent(X[i, 0], X[i, 1], s)
    return t


def list_of_rows_sorted_by_key_sum(X, Y, s):
    rows = sorted([[x[0], x[1]] for x in X], key=lambda r: r[0])
    return sum(r[1] for r in rows)


def enumerate_two_arrays(X, Y, s):
    t = 0.0
    for i, row in enumerate(X):
        t += (i + 1) * row[1]
    return t


def shape_arithmetic(X, Y, s):
    M, N = X.shape[0], Y.shape[0]
    return [M + N, min(M, N) <= max(M, N), (M + N) * (M + N)]


def conditional_expression_in_sum(X, Y, s):
    return sum((x[1] if x[1] > x[0] else x[0]) for x in X)


def early_continue_two_conditions(X, Y, s):
    t = 0.0
    for i in range(X.shape[0]):
        if X[i, 0] > s:
            continue
        if X[i, 1] < 0:
            continue
        t += 1.0
    return t


def broadcasting_row_minus_vector(X, Y, s):
    c = X - np.array([s, 2 * s])
    return np.sum(c[:, 1])


def cross_and_diagonal_blocks_sum(X, Y, s):
    M, N = X.shape[0], Y.shape[0]
    D = np.zeros((M + N, M + N))
    D[0:M, 0:N] = X[:, None, 1] + Y[None, :, 0]
    D[M:M + N, N:N + M] = 1.0
    return np.sum(D)


def loop_target_after_the_loop(X, Y, s):
    # the loop's own variable keeps the last index after the loop
    k = 0
    for k in range(len(X)):
        pass
    return float(k) + s
