"""Conformance of the evaluator's SUMMARIES (loops over symbolic lengths, masks, reductions, block matrices) with CPython:
every program of confpkg/symcases.py is evaluated once on generic inputs X (n×2), Y (m×2), s (a scalar symbol); the derived
value is evaluated at random points of several sizes and compared with the program run for real on the same arrays.

    /venv/bin/python -m pst.selftest.conformance.symrun [-v]
"""
from __future__ import annotations

import importlib.util
import math
import os
import random
import sys

from ...core import sym, symeval
from ...core.absint import Config, Interp
from ...core.loader import AnalysisError, Project
from ...core.values import Arr, Blocks, DiagMat, Sc, Seq
from ...rules.distances import dgm_input
from .run import HERE, NotConcrete, normal, same


def _closed(e, bound=()):
    """the expression is a closed form: no opaque value (a placeholder of a loop that did not close, an unread test, a bag),
    no 'one of these' choice, no index variable left over from a loop"""
    for x in sym.walk(e):
        if x[0] == "opq":
            raise NotConcrete(f"abstract value ⟨{x[1]}⟩")
        if x[0] == "choice":
            raise NotConcrete("abstract value (one of several)")
    left = {i for i in sym.free_ivars(e) if i not in bound and not str(i).startswith("@")}
    if left:
        raise NotConcrete(f"index variable(s) {sorted(left)[:2]} left over from a loop (a generic element, not a value)")


def value_at(v, pt, bound=()):
    if isinstance(v, Sc):
        if v.e is None:
            raise NotConcrete("scalar without expression")
        _closed(v.e, bound)
        r = symeval.ev(v.e, pt)
        return r if isinstance(r, bool) else float(r)
    if isinstance(v, Seq):
        return [value_at(x, pt) for x in v.items]
    if isinstance(v, Blocks):
        n0 = int(round(symeval.ev(v.shape[0], pt)))
        n1 = int(round(symeval.ev(v.shape[1], pt)))
        return [[float(symeval.eval_block_entry(v, r, c, pt)) for c in range(n1)] for r in range(n0)]
    if isinstance(v, Arr):
        _closed(v.elem, tuple(iv for _, iv in v.axes))

        def rec(axes, e):
            if not axes:
                r = symeval.ev(e, pt)
                return r if isinstance(r, bool) else float(r)
            (sp, iv), rest = axes[0], axes[1:]
            out = []
            saved = pt.ivs.get(iv)
            for k in symeval.space_rows(sp.key, pt):
                pt.ivs[iv] = k
                out.append(rec(rest, e))
            if saved is None:
                pt.ivs.pop(iv, None)
            else:
                pt.ivs[iv] = saved
            return out
        return rec(list(v.axes), v.elem)
    raise NotConcrete(type(v).__name__)


def run(verbose=False, trials=10):
    import numpy as np
    spec = importlib.util.spec_from_file_location("confpkg_symcases", os.path.join(HERE, "confpkg", "symcases.py"))
    real = importlib.util.module_from_spec(spec)
    spec.loader.exec_module(real)
    project = Project(HERE, pkg="confpkg")
    names = [q.rsplit(".", 1)[1] for q, fi in sorted(project.functions.items(), key=lambda kv: kv[1].node.lineno)
             if q.startswith("confpkg.symcases.") and q.count(".") == 2 and not q.rsplit(".", 1)[1].startswith("_")]
    out = {"agree": [], "inexact": [], "DISAGREE": []}
    for name in names:
        I = Interp(project, Config(nonempty={("rows", "X"), ("rows", "Y")}, finite_inputs={"X", "Y"}))
        why = None
        try:
            v = I.run(f"confpkg.symcases.{name}", {"X": dgm_input("X"), "Y": dgm_input("Y"), "s": Sc(sym.Sym("s"))})
        except (AnalysisError, RecursionError) as ex:
            why, v = f"analysis error: {ex}"[:120], None
        if why is None and (I.unmodelled or I.lossy):
            why = "evaluator: " + (str(I.unmodelled[0]["tag"]) if I.unmodelled else str(I.lossy[0]["why"])[:100])
        if why is None:
            rng = random.Random(17)
            for t in range(trials):
                nx, ny = rng.randint(1, 4), rng.randint(1, 4)
                pt = symeval.Point(rng, nrows=4, sizes={("rows", "X"): nx, ("rows", "Y"): ny})
                pt.eval_ranges = True
                X = np.array([[pt.inp("X", (i, 0)), pt.inp("X", (i, 1))] for i in range(nx)])
                Y = np.array([[pt.inp("Y", (i, 0)), pt.inp("Y", (i, 1))] for i in range(ny)])
                s_ = pt.symv("s")
                try:
                    want = normal(getattr(real, name)(X.copy(), Y.copy(), s_))
                except Exception as ex:   # the program itself fails on this input (log of 0 ...): not a comparison point
                    continue
                try:
                    got = value_at(v, pt)
                except (NotConcrete, symeval.NotEvaluable) as ex:
                    why = f"not evaluable: {ex}"[:120]
                    break
                if not same(normal(got), want):
                    out["DISAGREE"].append((name, got, want, dict(nx=nx, ny=ny)))
                    print(f"DISAGREE  {name} (sizes {nx},{ny}): evaluator {str(got)[:140]} — python {str(want)[:140]}")
                    why = "DISAGREE"
                    break
        if why == "DISAGREE":
            continue
        if why is not None:
            out["inexact"].append((name, why))
            if verbose:
                print(f"inexact   {name}: {why}")
        else:
            out["agree"].append(name)
            if verbose:
                print(f"agree     {name}")
    return out


if __name__ == "__main__":
    res = run(verbose="-v" in sys.argv)
    print(f"summaries: {len(res['agree'])} agree, {len(res['inexact'])} inexact (no claim), {len(res['DISAGREE'])} DISAGREE")
    if "-v" not in sys.argv:
        for nme, why in res["inexact"]:
            print(f"  inexact {nme}: {why}"[:170])
    sys.exit(1 if res["DISAGREE"] else 0)
