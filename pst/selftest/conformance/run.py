"""Conformance of the symbolic evaluator with CPython + numpy on micro-programs (confpkg/cases.py).

    /venv/bin/python -m pst.selftest.conformance.run [-v]

For every case: the function is executed for real (this is the evaluator's own test corpus, not persim) and through
`Interp`; the evaluator's result is turned into plain numbers when it is fully concrete.  Verdicts per case:

    agree     the evaluator called its run exact and the value equals Python's
    inexact   the evaluator said so itself (something unmodelled / knowingly lost / a non-concrete value): no claim
    DISAGREE  the evaluator called its run exact and the value differs — an evaluator defect: rules that evaluate code
              could discharge or refute on a value Python does not compute

Exit 1 on any DISAGREE.  The known-inexact list is printed so that growth of the modelled fragment is visible.
"""
from __future__ import annotations

import importlib.util
import math
import os
import random
import sys

from ...core import sym, symeval
from ...core.absint import Config, Interp
from ...core.loader import AnalysisError, Project
from ...core.values import Alt, Arr, Bag, Blocks, DictV, NoneV, ObjV, Opt, Sc, Seq, StrV, Unknown, Val

HERE = os.path.dirname(os.path.abspath(__file__))


class NotConcrete(Exception):
    pass


# deviations that follow from the evaluator's two stated modelling assumptions (every check lists them in its evidence):
# real arithmetic (float rounding is not modelled: 2.1/0.7 is 3, not 3.0000000000000004) and untyped arrays (an integer
# array that receives a float keeps the float; the dtype rules DT-INHERIT / narrowing decide that hazard separately)
ASSUMED = {
    "ceil_of_float_quotient": "real arithmetic (the truncation hazard is decided structurally by GE-SIB)",
    "integer_array_store_truncates": "untyped arrays (decided by the dtype-inheritance rule)",
    "integer_array_inplace_floor_divide": "untyped arrays",
}


def _num(e):
    pt = symeval.Point(random.Random(0))
    free = [x for x in sym.walk(e) if x[0] in ("sym", "in", "iv", "size", "opq", "choice", "at", "sel") and x[0] != "sel"]
    if any(x[0] in ("sym", "in", "iv", "size", "opq", "choice", "at") for x in free):
        raise NotConcrete(sym.show(e)[:60])
    try:
        v = symeval.ev(e, pt)
    except symeval.NotEvaluable as ex:
        raise NotConcrete(str(ex))
    if isinstance(v, bool):
        return v
    return float(v)


def to_python(v: Val):
    if isinstance(v, Opt):
        raise NotConcrete("optional")
    if isinstance(v, NoneV):
        return None
    if isinstance(v, StrV):
        if v.s in ("<formatted>", "<f-string>"):
            raise NotConcrete("rendered string")
        return v.s
    if isinstance(v, Sc):
        if v.e is None:
            raise NotConcrete("scalar without expression")
        if v.e[0] == "bool":
            return bool(v.e[1])
        if v.e[0] == "str":
            return v.e[1]
        return _num(v.e)
    if isinstance(v, Seq):
        return [to_python(x) for x in v.items]
    if isinstance(v, Arr):
        if any(sp.concrete is None for sp, _ in v.axes):
            raise NotConcrete("array of symbolic length")

        def rec(axes, e):
            if not axes:
                return _num(e)
            (sp, iv), rest = axes[0], axes[1:]
            return [rec(rest, sym.subst_ivar(e, iv, k)) for k in range(sp.concrete)]
        return rec(list(v.axes), v.elem)
    raise NotConcrete(type(v).__name__)


def normal(x):
    """Python / numpy values as nested lists of floats / bools / None / str"""
    try:
        import numpy as np
    except ImportError:  # pragma: no cover
        np = None
    if np is not None and isinstance(x, np.ndarray):
        return normal(x.tolist())
    if np is not None and isinstance(x, np.generic):
        return normal(x.item())
    if isinstance(x, bool) or x is None or isinstance(x, str):
        return x
    if isinstance(x, (int, float)):
        return float(x)
    if isinstance(x, (list, tuple)):
        return [normal(y) for y in x]
    if isinstance(x, dict):
        return [normal(k) for k in x]
    raise TypeError(type(x).__name__)


def same(a, b) -> bool:
    if isinstance(a, list) and isinstance(b, list):
        return len(a) == len(b) and all(same(x, y) for x, y in zip(a, b))
    if isinstance(a, bool) or isinstance(b, bool):
        # the evaluator has one kind of number: True/1.0 and False/0.0 are the same value there
        return float(a) == float(b) if isinstance(a, (bool, float)) and isinstance(b, (bool, float)) else a == b
    if isinstance(a, float) and isinstance(b, float):
        if math.isnan(a) or math.isnan(b):
            return math.isnan(a) and math.isnan(b)
        if math.isinf(a) or math.isinf(b):
            return a == b
        return abs(a - b) <= 1e-9 * max(1.0, abs(a), abs(b))
    return a == b


def run(verbose=False):
    spec = importlib.util.spec_from_file_location("confpkg_cases", os.path.join(HERE, "confpkg", "cases.py"))
    real = importlib.util.module_from_spec(spec)
    spec.loader.exec_module(real)
    project = Project(HERE, pkg="confpkg")
    names = [q.rsplit(".", 1)[1] for q, fi in sorted(project.functions.items(), key=lambda kv: kv[1].node.lineno)
             if q.startswith("confpkg.cases.") and q.count(".") == 2 and not q.rsplit(".", 1)[1].startswith("_")]
    out = {"agree": [], "inexact": [], "DISAGREE": []}
    for name in names:
        want = normal(getattr(real, name)())
        I = Interp(project, Config(flags={"live_lists": True}))
        why = None
        try:
            v = I.run(f"confpkg.cases.{name}", {})
            got = to_python(v)
        except NotConcrete as ex:
            why, got = f"not concrete: {ex}", None
        except AnalysisError as ex:
            why, got = f"analysis error: {ex}"[:120], None
        except RecursionError:
            why, got = "recursion", None
        um = [u for u in I.unmodelled]
        if why is None and (um or I.lossy):
            why = "evaluator: " + (str(um[0]["tag"]) if um else str(I.lossy[0]["why"])[:100])
        if why is not None:
            # an inexact run is fine — unless the evaluator gave a concrete value that is right anyway
            out["inexact"].append((name, why))
            if verbose:
                print(f"inexact   {name}: {why}")
            continue
        if same(got, want):
            out["agree"].append(name)
            if verbose:
                print(f"agree     {name}")
        elif name in ASSUMED:
            out.setdefault("assumed", []).append((name, ASSUMED[name]))
            if verbose:
                print(f"assumed   {name}: {ASSUMED[name]}")
        else:
            out["DISAGREE"].append((name, got, want))
            print(f"DISAGREE  {name}: evaluator {got!r} — python {want!r}")
    return out


if __name__ == "__main__":
    res = run(verbose="-v" in sys.argv)
    print(f"conformance: {len(res['agree'])} agree, {len(res['inexact'])} inexact (no claim), {len(res.get('assumed', []))} differ by a stated "
          f"modelling assumption, {len(res['DISAGREE'])} DISAGREE")
    if "-v" not in sys.argv:
        for nme, why in res["inexact"]:
            print(f"  inexact {nme}: {why}"[:160])
    sys.exit(1 if res["DISAGREE"] else 0)
