"""CLI: /venv/bin/python -m pst.check <ID> [--tier quick|thorough] [--explain PATH]

exit 0 = every obligation discharged (or covered by a listed known finding)
exit 1 = definite refutation not listed: line `VIOLATION property=<id> replay=<path>`
exit 2 = ANALYSIS-ERROR (anchor vanished, unmodelled construct, internal error) — never a VIOLATION
"""
from __future__ import annotations

import argparse
import importlib
import json
import os
import sys
import traceback

from .core.loader import AnalysisError, Project
from .core.report import EVIDENCE_DIR, Report


class _Timeout(BaseException):
    pass


def _limits(seconds: int):
    """a safety net around the evaluator's own budget: wall-clock alarm and an address-space cap for this process (the
    self-test sub-processes of the thorough tier are separate processes with their own timeouts)"""
    import resource
    import signal

    def _alarm(signum, frame):
        raise _Timeout(f"no result after {seconds} s")
    try:
        signal.signal(signal.SIGALRM, _alarm)
        signal.alarm(seconds)
    except (ValueError, AttributeError):
        pass
    try:
        soft, hard = resource.getrlimit(resource.RLIMIT_AS)
        cap = 8 * 1024 ** 3
        if soft == resource.RLIM_INFINITY or soft > cap:
            resource.setrlimit(resource.RLIMIT_AS, (cap, hard))
    except (ValueError, OSError):
        pass


def main(argv=None) -> int:
    ap = argparse.ArgumentParser()
    ap.add_argument("pid")
    ap.add_argument("--tier", default=os.environ.get("VERIF_TIER", "quick"), choices=["quick", "thorough"])
    ap.add_argument("--explain", default=None)
    ap.add_argument("--repo", default=None)
    ap.add_argument("--dry", action="store_true", help="do not write evidence / violation files (sensitivity runs)")
    args = ap.parse_args(argv)
    pid = args.pid.upper()
    if args.explain:
        with open(args.explain) as fh:
            rec = json.load(fh)
        print(json.dumps(rec, indent=1))
        print("re-deciding on the current tree:")
    try:
        seed = int(os.environ.get("VERIF_SEED", "0") or 0)
    except ValueError:
        seed = 0
    rep = Report(pid, args.tier, seed)
    rep.dry = args.dry
    _limits(1500 if args.tier == "thorough" else 240)
    try:
        try:
            mod = importlib.import_module(f"pst.rules.{pid.lower()}")
        except ModuleNotFoundError:
            print(f"ANALYSIS-ERROR property={pid} no rule module")
            return 2
        project = Project(args.repo)
        mod.run(project, rep, args.tier)
        # typestate of one-shot iterators in the code the rules looked at (rules/oneshot.py)
        from .rules import oneshot
        rep.extra["oneshot_functions"] = oneshot.check(project, rep)
        # scratch buffers refilled in part and read whole (rules/scratch_rule.py)
        from .rules import scratch_rule
        rep.extra["scratch_functions"] = scratch_rule.check(project, rep)
        # guard flags set around a call and reset outside a `finally` (rules/flag_rule.py)
        from .rules import flag_rule
        rep.extra["flag_findings"] = flag_rule.check(project, rep)
        # module-level memo caches written by that code (rules/memo_rule.py): keyed by everything they depend on?
        if pid != "C19":   # C19 decides them itself, next to the rest of module state (PU-CACHE / PU-STATE)
            from .rules import memo_rule
            rep.extra["memo_caches"] = memo_rule.check(project, rep)
        # the evaluator itself against CPython on its corpus of micro-programs (selftest/conformance): a run the evaluator calls
        # exact must give Python's value; a disagreement means verdicts that rest on evaluation cannot be trusted
        from .selftest.conformance.run import run as _conformance
        cf = _conformance()
        rep.extra["evaluator_conformance"] = {"agree": len(cf["agree"]), "inexact_no_claim": len(cf["inexact"]),
                                              "differ_by_stated_assumption": [n_ for n_, _ in cf.get("assumed", [])],
                                              "disagree": [n_ for n_, _, _ in cf["DISAGREE"]]}
        for n_, got_, want_ in cf["DISAGREE"]:
            rep.errors.append(f"EVALUATOR-CONFORMANCE case {n_}: the evaluator computes {got_!r}, Python {want_!r}"[:300])
        # ... and its SUMMARIES (loops over symbolic lengths, masks, slices, reductions, block matrices): each program of
        # confpkg/symcases.py evaluated once on generic inputs, the derived closed form compared with Python on random arrays
        from .selftest.conformance.symrun import run as _summaries
        sf = _summaries(trials=6)
        rep.extra["evaluator_summaries"] = {"agree": len(sf["agree"]), "abstract_or_inexact_no_claim": len(sf["inexact"]),
                                            "disagree": [x[0] for x in sf["DISAGREE"]]}
        for x in sf["DISAGREE"]:
            rep.errors.append(f"EVALUATOR-CONFORMANCE summary {x[0]} (sizes {x[3]}): the derived value gives {str(x[1])[:80]}, "
                              f"Python {str(x[2])[:80]}")
        if args.tier == "thorough" and not args.dry:
            from .selftest.run import neutral_run, seeded_runs, sensitivity
            sr = seeded_runs(pid, project.repo)
            rep.extra["seeded_changes"] = sr
            for r in sr:
                if r["got"] == "patch-does-not-apply":
                    rep.note(f"seeded change {r['seed']} no longer applies (source changed)")
                elif r["got"] != "refute" and r.get("primary") and r.get("expect") == "missed":
                    rep.note(f"seeded change {r['seed']} is recorded as MISSED by this check (checker gave {r['got']}); see its meta.json")
                elif r["got"] != "refute" and r.get("primary"):
                    rep.errors.append(f"SELFTEST seeded change {r['seed']} is not refuted (checker gave {r['got']})")
            nr = neutral_run(pid, project.repo)
            rep.extra["neutral_variant"] = nr
            if nr["exit"] != 0:
                rep.errors.append(f"SELFTEST neutral variant ({nr['variant']}) is not silent: exit {nr['exit']} {nr['first']}")
            nr2 = neutral_run(pid, project.repo, restyle=True)
            rep.extra["neutral_variant_restyled"] = nr2
            if nr2["exit"] != 0:
                rep.errors.append(f"SELFTEST neutral variant ({nr2['variant']}) is not silent: exit {nr2['exit']} {nr2['first']}")
            from .selftest.run import refactor_runs
            rr = refactor_runs(pid, project.repo)
            rep.extra["refactorings"] = rr
            for r in rr:
                if r["got"] == "false-alarm":
                    rep.errors.append(f"SELFTEST behaviour-preserving refactoring {r['refactor']} raises an alarm: {r['first']}")
                elif r["got"] == "patch-does-not-apply":
                    rep.note(f"refactoring {r['refactor']} no longer applies (source changed)")
            from .selftest.run import hidden_runs
            hr = hidden_runs(pid, project.repo)
            rep.extra["hidden_slips"] = hr
            for r in hr:
                if not r["ok"]:
                    rep.errors.append(f"SELFTEST hidden-slip corpus {r['hidden']} ({r['which']}.diff): checker gave {r['got']}")
            res = sensitivity(pid, project.repo)
            rep.extra["sensitivity"] = res
            rep.extra["sensitivity_summary"] = {
                "breaking_edits": sum(1 for r in res if r["expect"] == "refute"),
                "refuted": sum(1 for r in res if r["expect"] == "refute" and r["got"] == "refute"),
                "neutral_edits": sum(1 for r in res if r["expect"] == "silent"),
                "silent": sum(1 for r in res if r["expect"] == "silent" and r["got"] == "silent")}
            for r in res:
                if r["got"] != r["expect"]:
                    if r["got"] == "anchor-missing":
                        rep.note(f"sensitivity edit #{r['k']} no longer applies to {r['file']} (source changed)")
                    else:
                        rep.errors.append(f"SELFTEST {r['file']}: edit `{r['new']}` expected {r['expect']}, checker gave {r['got']}")
        return rep.finish()
    except AnalysisError as e:
        rep.errors.append(str(e))
        try:
            return rep.finish()
        except Exception:
            print(f"ANALYSIS-ERROR property={pid} {e}")
            return 2
    except (MemoryError, _Timeout) as e:   # a run that does not end in bounded time / memory decides nothing
        print(f"ANALYSIS-ERROR property={pid} resource limit: {type(e).__name__} {e}".rstrip())
        print(f"ANALYSIS-ERROR property={pid} the analysis did not finish within its time / memory budget: no verdict")
        return 2
    except Exception as e:  # internal error: never looks like a violation
        traceback.print_exc()
        print(f"ANALYSIS-ERROR property={pid} internal error: {type(e).__name__}: {e}")
        try:
            rep.errors.append(f"internal error {type(e).__name__}: {e}")
            rep.finish()
        except Exception:
            pass
        return 2


if __name__ == "__main__":
    sys.exit(main())
