"""pst — persim static verification. stdlib-only static analyses over /repo/persim."""
