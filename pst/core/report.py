"""Obligation bookkeeping, verdict algebra, evidence files, known findings, exit codes."""
from __future__ import annotations

import ast
import json
import os
import time
from typing import Any, Dict, List, Optional

from .loader import AnalysisError, FunctionInfo, norm_text

VERIF = os.path.dirname(os.path.dirname(os.path.dirname(os.path.abspath(__file__))))
EVIDENCE_DIR = os.path.join(VERIF, "evidence")
FINDINGS = os.path.join(VERIF, "pst", "findings", "known_findings.json")


def _where(fi, node) -> str:
    if fi is None:
        return "?"
    if isinstance(fi, str):
        return fi
    return fi.loc(node)


class Report:
    def __init__(self, pid: str, tier: str = "quick", seed: int = 0):
        self.pid = pid
        self.tier = tier
        self.seed = seed
        self.t0 = time.time()
        self.obligations: List[Dict[str, Any]] = []
        self.refutations: List[Dict[str, Any]] = []
        self.errors: List[str] = []
        self.instances: Dict[str, int] = {}
        self.floors: Dict[str, int] = {}
        self.trusted_base: List[str] = []
        self.assumptions: List[str] = []
        self.explanations: List[str] = []
        self.functions_analysed: set = set()
        self.call_sites = 0
        self.notes: List[str] = []
        self.extra: Dict[str, Any] = {}
        self._seen_ref = set()

    # -------------------------------------------------------------- recording
    def explain(self, text: str):
        self.explanations.append(text)

    def assume(self, text: str):
        if text not in self.assumptions:
            self.assumptions.append(text)

    def trust(self, name: str):
        if name not in self.trusted_base:
            self.trusted_base.append(name)

    def analysed(self, fi):
        self.functions_analysed.add(fi if isinstance(fi, str) else fi.qualname)

    def floor(self, rule: str, n: int):
        self.floors[rule] = n
        self.instances.setdefault(rule, 0)

    def discharged(self, rule: str, fi, node, what: str, derived: Any = None, nontrivial: bool = True):
        self.instances[rule] = self.instances.get(rule, 0) + 1
        self.obligations.append({
            "rule": rule, "verdict": "DISCHARGED", "where": _where(fi, node),
            "function": fi.qualname if isinstance(fi, FunctionInfo) else (fi or ""),
            "obligation": what, "derived": derived if derived is None else str(derived),
            "nontrivial": nontrivial,
        })

    def refuted(self, rule: str, fi, node, reason: str, construct: Optional[str] = None, failing_input: str = None):
        """A definite refutation: the construct breaks the law for some input in the quantifier."""
        ctext = construct if construct is not None else (norm_text(node) if isinstance(node, ast.AST) else str(node))
        fn = fi.qualname if isinstance(fi, FunctionInfo) else (fi or "")
        key = (rule, fn, ctext)
        self.instances[rule] = self.instances.get(rule, 0) + 1
        if key in self._seen_ref:
            return
        self._seen_ref.add(key)
        rec = {
            "rule": rule, "verdict": "REFUTED", "where": _where(fi, node), "function": fn,
            "construct": ctext, "reason": reason,
        }
        if failing_input:
            rec["failing_input"] = failing_input
        self.obligations.append(dict(rec, obligation=reason, nontrivial=True))
        self.refutations.append(rec)

    def unmodelled(self, rule: str, fi, node, reason: str):
        """Cannot follow the code here: exit 2, never a violation."""
        if rule in getattr(self, "soft_rules", ()):
            # a shape reader gave up on a construct whose behaviour a semantic rule of the same check decided: recorded, not
            # an analysis failure
            self.notes.append(f"{rule} (shape not read, decided semantically): {reason}"[:300])
            return
        self.errors.append(f"{rule} {_where(fi, node)} "
                           f"{fi.qualname if isinstance(fi, FunctionInfo) else (fi or '')}: {reason}")

    def note(self, text: str):
        self.notes.append(text)

    # -------------------------------------------------------------- finishing
    def _load_findings(self):
        try:
            with open(FINDINGS) as fh:
                data = json.load(fh)
        except FileNotFoundError:
            return []
        return data.get("findings", [])

    def finish(self) -> int:
        # instance floors: a rule matching fewer sites than confirmed by hand is analysis-broken
        for rule, n in self.floors.items():
            if self.instances.get(rule, 0) < n:
                self.errors.append(f"{rule}: {self.instances.get(rule, 0)} instances found, "
                                   f"floor confirmed by hand is {n} (anchor vanished or rule no longer matches)")
        findings = [f for f in self._load_findings() if f.get("property") == self.pid]
        known = [f for f in findings if f.get("status") == "known"]
        matched, new = [], []
        for r in self.refutations:
            hit = None
            for f in known:
                if f.get("rule") == r["rule"] and f.get("function") == r["function"] \
                        and f.get("construct") == r["construct"]:
                    hit = f
                    break
            if hit is not None:
                matched.append((r, hit))
            else:
                new.append(r)
        dry = getattr(self, "dry", False)
        vdir = os.path.join(EVIDENCE_DIR, "violations")
        if not dry:
            os.makedirs(vdir, exist_ok=True)
        # remove stale violation files of this property
        for f in (os.listdir(vdir) if not dry else []):
            if f.startswith(self.pid + "-"):
                try:
                    os.remove(os.path.join(vdir, f))
                except OSError:
                    pass
        lines = []
        for r, f in matched:
            lines.append(f"KNOWN-FINDING: property={self.pid} {f.get('what', r['reason'])} "
                         f"[{r['rule']} {r['where']} {r['function']}]")
        vpaths = []
        for k, r in enumerate(new):
            p = os.path.join(vdir, f"{self.pid}-{k}.json")
            if not dry:
                with open(p, "w") as fh:
                    json.dump(dict(r, property=self.pid, tier=self.tier), fh, indent=1)
            vpaths.append(p)
            lines.append(f"VIOLATION property={self.pid} replay={p}")
            lines.append(f"  {r['where']} {r['function']} rule={r['rule']}: {r['reason']}")
            lines.append(f"  construct: {r['construct']}")
        wall = time.time() - self.t0
        n_obl = len(self.obligations)
        n_dis = sum(1 for o in self.obligations if o["verdict"] == "DISCHARGED")
        distinct_nt = len({(o["rule"], o["where"], o["obligation"]) for o in self.obligations if o.get("nontrivial")})
        samples = []
        seen_rules = {}
        for o in self.obligations:
            c = seen_rules.get(o["rule"], 0)
            if c < 2:
                seen_rules[o["rule"]] = c + 1
                samples.append({k: v for k, v in o.items() if k != "nontrivial" and v is not None})
        samples = samples[:40]
        evidence = {
            "property_id": self.pid,
            "tier": self.tier,
            "seed": self.seed,
            "level": "other",
            "coverage": {
                "explanation": " ".join(self.explanations) or "static analysis of /repo/persim sources",
                "evaluations": max(n_obl, 1) if n_obl else 0,
                "distinct_nontrivial": distinct_nt,
                "rule": "one evaluation = one obligation (rule instance at a construct found by role in the "
                        "current sources); non-trivial = its discharge needed a derivation (abstract value, "
                        "path or def-use argument), not a presence test; distinct by (rule, site, obligation text)",
                "obligations": n_obl,
                "discharged": n_dis,
                "refuted": len(self.refutations),
                "samples": samples,
                "trusted_base": self.trusted_base,
                "checker_cmd": f"/venv/bin/python -m pst.check {self.pid} --tier {self.tier}",
                "functions_analysed": sorted(self.functions_analysed),
                "rule_instances": {r: {"found": self.instances.get(r, 0), "floor": self.floors.get(r, 0)}
                                   for r in sorted(set(self.instances) | set(self.floors))},
                "call_sites": self.call_sites,
                "known_findings_matched": [f.get("id", f.get("what")) for _, f in matched],
                "analysis_errors": self.errors,
                "notes": self.notes,
                "exhaustive": False,
            },
            "assumptions": self.assumptions,
            "wall_s": round(wall, 3),
            "violations": len(new),
        }
        evidence["coverage"].update(self.extra)
        if not dry:
            os.makedirs(EVIDENCE_DIR, exist_ok=True)
            with open(os.path.join(EVIDENCE_DIR, f"{self.pid}.json"), "w") as fh:
                json.dump(evidence, fh, indent=1, default=str)
        for ln in lines:
            print(ln)
        if self.errors:
            for e in self.errors:
                print(f"ANALYSIS-ERROR property={self.pid} {e}")
            # a definite, unlisted refutation is still reported as such
            return 1 if new else 2
        print(f"{self.pid} [{self.tier}] obligations={n_obl} discharged={n_dis} refuted={len(self.refutations)} "
              f"known={len(matched)} new={len(new)} functions={len(self.functions_analysed)} wall={wall:.2f}s")
        return 1 if new else 0



class ExactOnly:
    """A view of a report for rules that compare what one evaluator run derived with a specification: on a run that was not
    exact (something unmodelled, something knowingly lost) a difference is no finding, so `refuted` becomes `unmodelled`.
    Everything else passes through."""

    def __init__(self, rep, interp):
        self._rep, self._I = rep, interp

    def __getattr__(self, name):
        return getattr(self._rep, name)

    def refuted(self, rule, fi, node, what, **kw):
        I = self._I
        if I.unmodelled or I.lossy:
            why = I.lossy[0]["why"] if I.lossy else "unmodelled value: " + str(I.unmodelled[0]["tag"])
            return self._rep.unmodelled(rule, fi, node, f"{what[:160]} — but the run was not exact ({str(why)[:80]}): no verdict")
        return self._rep.refuted(rule, fi, node, what, **kw)
