"""Facets derived structurally from normal-form expressions: homogeneity degree (DEG),
diagonal-translation weight (SHIFT), sign (SIGN), free positional row use (ROWDEP).

Each function is a proof rule table: if it returns a non-TOP value the corresponding law holds for
every input (exact arithmetic), because every node kind's entry is that node's own law.
"""
from __future__ import annotations

import math
from fractions import Fraction
from typing import Callable, Dict, List, Optional, Tuple

from . import sym
from .sym import Expr

# ----------------------------------------------------------------------------- DEG

POLY = "POLY"


class Top:
    def __init__(self, reason: str, culprit: Optional[Expr] = None):
        self.reason = reason
        self.culprit = culprit

    def __repr__(self):
        return f"TOP({self.reason}: {sym.show(self.culprit) if self.culprit is not None else ''})"


def is_top(x) -> bool:
    return isinstance(x, Top)


class DegDecl:
    """Declared degrees: inputs (tensor names), scalar symbols; exponent symbol for norms."""

    def __init__(self, inputs: Dict[str, float] = None, syms: Dict[str, float] = None, default_input=1,
                 default_sym=0, exponent_sym: Optional[str] = None, opaque: Dict[str, Callable] = None):
        self.inputs = inputs or {}
        self.syms = syms or {}
        self.default_input = default_input
        self.default_sym = default_sym
        self.exponent_sym = exponent_sym
        self.opaque = opaque or {}


def _dj(a, b, where: Expr):
    if is_top(a):
        return a
    if is_top(b):
        return b
    if a == POLY:
        return b
    if b == POLY:
        return a
    if _deq(a, b):
        return a
    return Top(f"quantities of degree {_dshow(a)} and {_dshow(b)} are added/compared/joined", where)


def _deq(a, b):
    return abs(a[0] - b[0]) < 1e-9 and abs(a[1] - b[1]) < 1e-9


def _dshow(d):
    if d == POLY:
        return "any"
    if is_top(d):
        return repr(d)
    a, b = d
    if abs(b) < 1e-12:
        return f"{a:g}"
    return f"{a:g}+{b:g}p" if abs(a) > 1e-12 else f"{b:g}p"


def D(a, b=0.0):
    return (float(a), float(b))


D0 = D(0)


def _space_masks(key):
    """conditions that selected the rows of a (possibly nested) sub-space"""
    out = []
    while isinstance(key, tuple) and key and key[0] in ("sub", "slice"):
        if key[0] == "sub" and isinstance(key[2], Expr):
            out.append(key[2])
        key = key[1]
    return out


def _masks_degree(key, decl):
    for m in _space_masks(key):
        d = degree(m, decl)
        if is_top(d):
            return Top("rows are selected by a condition that is not scale-free: " + d.reason, d.culprit if d.culprit is not None else m)
    return None


def _masks_weight(key, decl):
    for m in _space_masks(key):
        w = weight(m, decl)
        if is_top(w):
            return Top("rows are selected by a condition that changes under translation: " + w.reason,
                       w.culprit if w.culprit is not None else m)
    return None


def degree(e: Expr, decl: DegDecl):
    """degree of homogeneity as (a, b) meaning a + b*p; POLY for 0/inf/nan literals; Top if not homogeneous"""
    t = e[0]
    if t == "num":
        v = e[1]
        if v == 0 or math.isinf(v) or math.isnan(v):
            return POLY
        return D0
    if t == "size":
        return _masks_degree(e[1], decl) or D0
    if t in ("bool", "str", "iv"):
        return D0
    if t == "in":
        v = decl.inputs.get(e[1], decl.default_input)
        return D(v(e[2]) if callable(v) else v)
    if t == "sym":
        return D(decl.syms.get(e[1], decl.default_sym))
    if t == "lin":
        d = POLY if e[2] == 0 else D0
        for x, _ in e[1]:
            d = _dj(d, degree(x, decl), e)
            if is_top(d):
                return d
        return d
    if t == "mul":
        a = b = 0.0
        for x in e[1]:
            d = degree(x, decl)
            if is_top(d):
                return d
            if d == POLY:
                return POLY
            a += d[0]
            b += d[1]
        return (a, b)
    if t == "div":
        d1, d2 = degree(e[1], decl), degree(e[2], decl)
        if is_top(d1):
            return d1
        if is_top(d2):
            return d2
        if d1 == POLY:
            return POLY
        if d2 == POLY:
            return Top("division by a 0/inf literal", e)
        return (d1[0] - d2[0], d1[1] - d2[1])
    if t == "pow":
        db = degree(e[1], decl)
        if is_top(db):
            return db
        de = degree(e[2], decl)
        if is_top(de):
            return de
        if de != POLY and not _deq(de, D0):
            return Top("exponent carries a unit", e)
        if db == POLY:
            return POLY
        form = exponent_form(e[2], decl)
        if form is None:
            if _deq(db, D0):
                return D0
            return Top("power of a dimensioned quantity with an exponent that is not a number or an affine form "
                       "of the norm exponent", e)
        kind = form[0]
        if kind == "num":
            return (db[0] * form[1], db[1] * form[1])
        if kind == "affine":  # a + b p
            if abs(db[1]) > 1e-12:
                return Top("exponent symbol squared in a degree", e)
            return (db[0] * form[1], db[0] * form[2])
        if kind == "inv":  # c / p
            if abs(db[0]) > 1e-12:
                return Top(f"root 1/p of a quantity of degree {_dshow(db)} (needs a pure multiple of p)", e)
            return (db[1] * form[1], 0.0)
        return Top("unrecognised exponent", e)
    if t == "fn":
        name = e[1]
        ds = [degree(x, decl) for x in e[2]]
        for d in ds:
            if is_top(d):
                return d
        if name in ("abs", "float32", "neg", "sort", "cumsum", "real"):
            return ds[0]
        if name in ("max", "min", "where", "clip", "hypot", "l1_sorted", "l1_positional"):
            d = POLY
            for x in ds:
                d = _dj(d, x, e)
                if is_top(d):
                    return d
            return d
        if name == "sqrt":
            d = ds[0]
            return d if d == POLY else (d[0] / 2, d[1] / 2)
        if name in ("exp", "log", "log2", "log10", "sin", "cos", "tan", "arcsin", "arccos", "arctan", "erfc", "erf",
                    "norm_cdf", "floor", "ceil", "int", "round", "sign", "isfinite", "isinf", "rint"):
            d = ds[0]
            if d == POLY or _deq(d, D0):
                return D0
            if name in ("sign", "isfinite", "isinf"):
                return D0
            return Top(f"{name}() of a quantity of degree {_dshow(d)} (must be dimensionless)", e)
        if name in ("len", "argmax", "argmin", "argsort"):
            return D0
        return Top(f"function {name} has no degree rule", e)
    if t == "sum":
        return _masks_degree(e[2], decl) or degree(e[3], decl)
    if t == "red":
        bad = _masks_degree(e[3], decl)
        if bad is not None:
            return bad
        d = degree(e[4], decl)
        if e[1] in ("all", "any"):
            return d if is_top(d) else D0
        return d
    if t == "sel":
        d = POLY
        for x in e[2]:
            d = _dj(d, degree(x, decl), e)
            if is_top(d):
                return d
        return d
    if t == "ite":
        dc = degree(e[1], decl)
        if is_top(dc):
            return dc
        return _dj(degree(e[2], decl), degree(e[3], decl), e)
    if t == "choice":
        d = POLY
        for x in e[1]:
            d = _dj(d, degree(x, decl), e)
            if is_top(d):
                return d
        return d
    if t == "cmp":
        d1, d2 = degree(e[2], decl), degree(e[3], decl)
        j = _dj(d1, d2, e)
        if is_top(j):
            if not is_top(d1) and not is_top(d2):
                return Top(f"comparison of a degree-{_dshow(d1)} quantity with a degree-{_dshow(d2)} quantity is not "
                           f"scale-free", e)
            return j
        return D0
    if t in ("not",):
        d = degree(e[1], decl)
        return d if is_top(d) else D0
    if t in ("and", "or"):
        for x in e[1]:
            d = degree(x, decl)
            if is_top(d):
                return d
        return D0
    if t == "at":
        for x in e[3]:
            if isinstance(x, Expr):
                d = degree(x, decl)
                if is_top(d):
                    return d
        return degree(e[2], decl)
    if t == "opq":
        rule = decl.opaque.get(e[1]) or OPAQUE_DEG.get(e[1])
        if rule is None:
            return Top(f"unmodelled value ⟨{e[1]}⟩", e)
        return rule(e, decl)
    return Top(f"no degree rule for node {t}", e)


def exponent_form(x: Expr, decl: DegDecl):
    if x[0] == "num":
        return ("num", x[1])
    p = decl.exponent_sym
    if p is None:
        return None
    ps = sym.Sym(p)
    if x == ps:
        return ("affine", 0.0, 1.0)
    if x[0] == "lin":
        terms, c = sym.lin_parts(x)
        if set(terms) == {ps}:
            return ("affine", c, terms[ps])
        inv = sym.Expr(("div", sym.ONE, ps))
        if set(terms) == {inv} and c == 0:
            return ("inv", terms[inv])
        invp = sym.Expr(("pow", ps, sym.Num(-1)))
        if set(terms) == {invp} and c == 0:
            return ("inv", terms[invp])
    if x[0] == "div" and x[1][0] == "num" and x[2] == ps:
        return ("inv", x[1][1])
    if x[0] == "pow" and x[1] == ps and x[2] == sym.Num(-1):
        return ("inv", 1.0)
    return None


def _opq_deps_homogeneous(e: Expr, decl: DegDecl):
    """index-valued primitives (assignment solvers, argmin, matchings): scale-free iff all data deps are
    homogeneous of one common degree"""
    d = POLY
    for x in e[2]:
        if isinstance(x, Expr):
            if not sym.has_coord(x):
                continue  # positions / sizes / configuration: scale-free by construction
            d = _dj(d, degree(x, decl), e)
            if is_top(d):
                return d
    return D0


def _opq_config(e, decl):
    for x in e[2]:
        if isinstance(x, Expr) and sym.has_coord(x):
            return Top(f"opaque configuration value ⟨{e[1]}⟩ depends on coordinates", e)
    return D0


OPAQUE_DEG: Dict[str, Callable] = {
    "lsa_rows": _opq_deps_homogeneous, "lsa_cols": _opq_deps_homogeneous,
    "hk_matching": _opq_deps_homogeneous, "hk_len": _opq_deps_homogeneous, "hk_partner": _opq_deps_homogeneous, "hk_owner": _opq_deps_homogeneous,
    "index": _opq_deps_homogeneous, "argsort": _opq_deps_homogeneous, "argmin": _opq_deps_homogeneous,
    "argmax": _opq_deps_homogeneous, "bisect": _opq_deps_homogeneous, "count": _opq_deps_homogeneous,
    "config": _opq_config, "loopvar": _opq_config, "len": _opq_deps_homogeneous,
    "carry": lambda e, decl: degree(e[2][0], decl),
}


# ----------------------------------------------------------------------------- SHIFT

ANYW = "ANY"


class ShiftDecl:
    def __init__(self, inputs: Dict[str, Callable] = None, default=None):
        # inputs: name -> function(idx tuple) -> weight (float)
        self.inputs = inputs or {}
        self.default = default or (lambda idx: 1.0)


def _wj(a, b, where):
    if is_top(a):
        return a
    if is_top(b):
        return b
    if a == ANYW:
        return b
    if b == ANYW:
        return a
    if sym.equal(a, b, 1e-6):
        return a
    return Top(f"values of translation weight {sym.show(a)} and {sym.show(b)} are joined/compared", where)


def weight(e: Expr, decl: ShiftDecl):
    """w such that translating every diagram by t along the diagonal moves the value by w*t (w a
    coordinate-free expression); ANY for inf/nan literals; Top when the value is not an affine function of t
    with a data-independent slope"""
    t = e[0]
    if t == "num":
        v = e[1]
        if math.isinf(v) or math.isnan(v):
            return ANYW
        return sym.ZERO
    if t == "size":
        return _masks_weight(e[1], decl) or sym.ZERO
    if t in ("bool", "str", "iv", "sym"):
        return sym.ZERO
    if t == "in":
        f = decl.inputs.get(e[1], decl.default)
        return sym.Num(f(e[2]))
    if t == "lin":
        w = sym.ZERO
        anyw = False
        for x, k in e[1]:
            wx = weight(x, decl)
            if is_top(wx):
                return wx
            if wx == ANYW:
                anyw = True
                continue
            w = sym.add(w, sym.scale(wx, k))
        return ANYW if (anyw and w == sym.ZERO) else w
    if t == "mul":
        ws = [(x, weight(x, decl)) for x in e[1]]
        for _, w in ws:
            if is_top(w):
                return w
        if any(w == ANYW for _, w in ws):
            return ANYW
        moving = [(x, w) for x, w in ws if w != sym.ZERO]
        if not moving:
            return sym.ZERO
        if len(moving) > 1:
            return Top("product of two translation-dependent quantities", e)
        x0, w0 = moving[0]
        out = w0
        for x, w in ws:
            if x is x0:
                continue
            if sym.has_coord(x):
                return Top("translation-dependent quantity multiplied by a data-dependent factor", e)
            out = sym.mul(out, x)
        return out
    if t == "div":
        wn, wd = weight(e[1], decl), weight(e[2], decl)
        if is_top(wn):
            return wn
        if is_top(wd):
            return wd
        if wd != sym.ZERO and wd != ANYW:
            return Top("division by a translation-dependent quantity", e)
        if wn == sym.ZERO or wn == ANYW:
            return wn
        if sym.has_coord(e[2]):
            return Top("translation-dependent quantity divided by a data-dependent quantity", e)
        return sym.div(wn, e[2])
    if t == "pow":
        wb, we = weight(e[1], decl), weight(e[2], decl)
        if is_top(wb):
            return wb
        if is_top(we):
            return we
        if wb in (sym.ZERO, ANYW) and we in (sym.ZERO, ANYW):
            return sym.ZERO
        return Top("power of a translation-dependent quantity (its sign and size change under translation)", e)
    if t == "fn":
        name = e[1]
        ws = [weight(x, decl) for x in e[2]]
        for w in ws:
            if is_top(w):
                return w
        if name in ("max", "min", "where", "clip"):
            w = ANYW
            for x in ws:
                w = _wj(w, x, e)
                if is_top(w):
                    return w
            return w
        if name in ("float32", "sort", "real"):
            return ws[0]
        if name in ("isfinite", "isinf", "isnan") and not any(is_top(w) for w in ws):
            return sym.ZERO  # x + w*t is finite exactly when x is (t finite)
        if name in ("l1_sorted", "l1_positional"):
            # Σ|sorted(a) − sorted(b)|: every element of both vectors must move by the same amount
            w = _wj(ws[0], ws[1], e)
            return w if is_top(w) else sym.ZERO
        if all(w in (sym.ZERO, ANYW) for w in ws):
            return sym.ZERO
        return Top(f"{name}() of a translation-dependent quantity (weight {sym.show(ws[0])})", e)
    if t == "sum":
        bad = _masks_weight(e[2], decl)
        if bad is not None:
            return bad
        w = weight(e[3], decl)
        if is_top(w) or w in (sym.ZERO, ANYW):
            return w if is_top(w) else sym.ZERO
        if sym.free_ivars(w):
            return Top("sum over rows of a quantity whose translation weight varies with the row", e)
        return sym.mul(sym.Size(e[2]), w)  # moves by n*w*t
    if t == "red":
        bad = _masks_weight(e[3], decl)
        if bad is not None:
            return bad
        w = weight(e[4], decl)
        if e[1] in ("all", "any"):
            return w if is_top(w) else sym.ZERO
        return w
    if t in ("sel", "choice"):
        alts = e[2] if t == "sel" else e[1]
        w = ANYW
        for x in alts:
            w = _wj(w, weight(x, decl), e)
            if is_top(w):
                return w
        return w
    if t == "ite":
        wc = weight(e[1], decl)
        if is_top(wc):
            return wc
        return _wj(weight(e[2], decl), weight(e[3], decl), e)
    if t == "cmp":
        w1, w2 = weight(e[2], decl), weight(e[3], decl)
        j = _wj(w1, w2, e)
        if is_top(j):
            if not is_top(w1) and not is_top(w2):
                return Top(f"comparison of values with translation weights {sym.show(w1)} and {sym.show(w2)} changes "
                           f"outcome under translation", e)
            return j
        return sym.ZERO
    if t == "not":
        w = weight(e[1], decl)
        return w if is_top(w) else sym.ZERO
    if t in ("and", "or"):
        for x in e[1]:
            w = weight(x, decl)
            if is_top(w):
                return w
        return sym.ZERO
    if t == "at":
        for x in e[3]:
            if isinstance(x, Expr):
                w = weight(x, decl)
                if is_top(w):
                    return w
        return weight(e[2], decl)
    if t == "opq":
        rule = OPAQUE_SHIFT.get(e[1])
        if rule is None:
            return Top(f"unmodelled value ⟨{e[1]}⟩", e)
        return rule(e, decl)
    return Top(f"no shift rule for node {t}", e)


def _opq_deps_invariant(e: Expr, decl: ShiftDecl):
    """index-valued primitives are translation-invariant iff all their data deps are (weight 0)"""
    for x in e[2]:
        if isinstance(x, Expr):
            w = weight(x, decl)
            if is_top(w):
                return w
            if w not in (sym.ZERO, ANYW):
                return Top(f"index-valued primitive ⟨{e[1]}⟩ fed a translation-dependent input", e)
    return sym.ZERO


OPAQUE_SHIFT: Dict[str, Callable] = {k: _opq_deps_invariant for k in
                                     ("lsa_rows", "lsa_cols", "hk_matching", "hk_len", "hk_partner", "hk_owner", "index", "argsort",
                                      "argmin", "argmax", "bisect", "count", "config", "loopvar", "len")}
OPAQUE_SHIFT["carry"] = lambda e, decl: weight(e[2][0], decl)


# ----------------------------------------------------------------------------- SIGN

POS, NONNEG, ZERO_S, NONPOS, NEG, TOPS = "pos", "nonneg", "zero", "nonpos", "neg", "top"


def _flip(s):
    return {POS: NEG, NEG: POS, NONNEG: NONPOS, NONPOS: NONNEG, ZERO_S: ZERO_S, TOPS: TOPS}[s]


def _mul_sign(a, b):
    if a == ZERO_S or b == ZERO_S:
        return ZERO_S
    if a == TOPS or b == TOPS:
        return TOPS
    strict = a in (POS, NEG) and b in (POS, NEG)
    pos = (a in (POS, NONNEG)) == (b in (POS, NONNEG))
    if strict:
        return POS if pos else NEG
    return NONNEG if pos else NONPOS


def _add_sign(a, b):
    if a == ZERO_S:
        return b
    if b == ZERO_S:
        return a
    if a == TOPS or b == TOPS:
        return TOPS
    if a in (POS, NONNEG) and b in (POS, NONNEG):
        return POS if POS in (a, b) else NONNEG
    if a in (NEG, NONPOS) and b in (NEG, NONPOS):
        return NEG if NEG in (a, b) else NONPOS
    return TOPS


def _join_sign(a, b):
    if a == b:
        return a
    if a == TOPS or b == TOPS:
        return TOPS
    if {a, b} <= {POS, NONNEG, ZERO_S}:
        return NONNEG
    if {a, b} <= {NEG, NONPOS, ZERO_S}:
        return NONPOS
    return TOPS


def _fact_sign(x: Expr, facts: List[Expr]) -> str:
    """sign of x implied by one path fact (comparison), matching x against k*(lhs-rhs)"""
    for f in facts:
        fs = [f]
        if f[0] == "and":
            fs = list(f[1])
        for g in fs:
            if g[0] != "cmp":
                continue
            op, a, b = g[1], g[2], g[3]
            diff = sym.sub(a, b)
            for k_sign, cand in ((1, diff), (-1, sym.neg(diff))):
                r = _ratio(x, cand)
                if r is not None and r > 0:
                    s = {"<": NEG, "<=": NONPOS, ">": POS, ">=": NONNEG, "==": ZERO_S, "!=": TOPS}[op]
                    return s if k_sign == 1 else _flip(s)
    return TOPS


def _ratio(x: Expr, y: Expr) -> Optional[float]:
    """k such that x == k*y, if any"""
    if x == y:
        return 1.0
    lx, cx = sym.lin_parts(x)
    ly, cy = sym.lin_parts(y)
    if set(lx) != set(ly) or not lx:
        return None
    k = None
    for t in lx:
        r = lx[t] / ly[t]
        if k is None:
            k = r
        elif abs(k - r) > 1e-12 * max(1, abs(k)):
            return None
    if abs(cx - k * cy) > 1e-12 * max(1, abs(cx)):
        return None
    return k


def sign(e: Expr, facts: List[Expr] = (), nonneg_syms=(), pos_syms=()) -> str:
    t = e[0]
    if t == "num":
        v = e[1]
        if math.isnan(v):
            return TOPS
        return POS if v > 0 else (NEG if v < 0 else ZERO_S)
    if t == "size":
        return NONNEG
    if t == "sym":
        if e[1] in pos_syms:
            return POS
        if e[1] in nonneg_syms:
            return NONNEG
        return _fact_sign(e, list(facts))
    if t == "lin":
        s = sign(sym.Num(e[2]), facts)
        for x, k in e[1]:
            sx = sign(x, facts, nonneg_syms, pos_syms)
            s = _add_sign(s, sx if k > 0 else _flip(sx))
        if s != TOPS:
            return s
        return _fact_sign(e, list(facts))
    if t == "mul":
        s = POS
        for x in e[1]:
            s = _mul_sign(s, sign(x, facts, nonneg_syms, pos_syms))
        return s
    if t == "div":
        a, b = sign(e[1], facts, nonneg_syms, pos_syms), sign(e[2], facts, nonneg_syms, pos_syms)
        if b in (ZERO_S, TOPS, NONNEG, NONPOS):
            if b in (NONNEG, NONPOS) and a != TOPS:
                return _mul_sign(a, b)
            return TOPS
        return _mul_sign(a, b)
    if t == "pow":
        sb = sign(e[1], facts, nonneg_syms, pos_syms)
        if e[2][0] == "num" and float(e[2][1]).is_integer():
            n = int(e[2][1])
            if n % 2 == 0:
                return POS if sb in (POS, NEG) else NONNEG
            return sb
        if sb in (POS, NONNEG, ZERO_S):
            return sb if sb != ZERO_S else NONNEG
        return TOPS
    if t == "fn":
        name = e[1]
        if name in ("abs", "sqrt"):
            s = sign(e[2][0], facts, nonneg_syms, pos_syms)
            return POS if s in (POS, NEG) and name == "abs" else (POS if s == POS else NONNEG)
        if name == "exp":
            return POS
        if name in ("erfc", "norm_cdf"):
            return NONNEG
        if name == "max":
            ss = [sign(x, facts, nonneg_syms, pos_syms) for x in e[2]]
            if any(s == POS for s in ss):
                return POS
            if any(s in (NONNEG, ZERO_S) for s in ss):
                return NONNEG
            out = ss[0]
            for s in ss[1:]:
                out = _join_sign(out, s)
            return out
        if name == "min":
            ss = [sign(x, facts, nonneg_syms, pos_syms) for x in e[2]]
            if any(s == NEG for s in ss):
                return NEG
            if any(s in (NONPOS, ZERO_S) for s in ss):
                return NONPOS
            out = ss[0]
            for s in ss[1:]:
                out = _join_sign(out, s)
            return out
        if name in ("float32", "floor", "ceil", "int", "round"):
            s = sign(e[2][0], facts, nonneg_syms, pos_syms)
            return {POS: NONNEG if name in ("floor", "int", "round", "float32") else POS}.get(s, s) \
                if s in (POS, NONNEG, ZERO_S) else TOPS
        return TOPS
    if t == "sum":
        s = sign(e[3], facts, nonneg_syms, pos_syms)
        return {POS: NONNEG, NEG: NONPOS}.get(s, s)
    if t == "red" and e[1] in ("max", "min"):
        return sign(e[4], facts, nonneg_syms, pos_syms)
    if t in ("sel", "choice"):
        alts = e[2] if t == "sel" else e[1]
        out = None
        for x in alts:
            s = sign(x, facts, nonneg_syms, pos_syms)
            out = s if out is None else _join_sign(out, s)
        return out
    if t == "ite":
        return _join_sign(sign(e[2], list(facts) + [e[1]], nonneg_syms, pos_syms),
                          sign(e[3], list(facts) + [sym.Not(e[1])], nonneg_syms, pos_syms))
    if t == "in":
        return _fact_sign(e, list(facts))
    return _fact_sign(e, list(facts)) if t not in ("bool", "str") else TOPS


# ----------------------------------------------------------------------------- ROWDEP

def positional_row_uses(e: Expr, spaces_of_inputs: Dict[str, int] = None) -> List[Expr]:
    """Input atoms whose row index (first index) is a concrete integer or a free (unbound) index variable:
    the value then depends on the position of a row, not on the multiset of rows."""
    bound = set()
    out = []

    def rec(x: Expr, bound: frozenset):
        t = x[0]
        if t == "in":
            i0 = x[2][0] if x[2] else None
            if isinstance(i0, int):
                out.append(x)
            elif isinstance(i0, tuple) and (i0[0] not in bound or i0[1] != 0):
                out.append(x)
            return
        if t == "sum":
            rec(x[3], bound | {x[1]})
            return
        if t == "red":
            rec(x[4], bound | {x[2]})
            return
        for c in sym.children(x):
            rec(c, bound)

    rec(e, frozenset())
    return out
