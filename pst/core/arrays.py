"""Array operations on abstract values: broadcasting element-wise ops, indexing, reductions, conversions."""
from __future__ import annotations

from typing import Callable, List, Optional, Tuple

from . import sym
from .sym import Expr
from .values import (Alt, Arr, Bag, Blocks, Concat, DiagMat, NoneV, Sc, Seq, Space, Unknown, Val, fix, fresh,
                     generic_elem, rng, subspace)


class ShapeError(Exception):
    pass


# stable pseudo index variables '@k' for data-dependent index expressions: the table lives in sym (free_ivars and subst_ivar look
# through the names)
INDEX_NAMES = sym.INDEX_NAMES
INDEX_EXPRS = sym.INDEX_EXPRS
intern_index = sym.intern_index


def to_arr(v: Val) -> Optional[Val]:
    """Coerce python sequences of numbers / arrays to Arr where possible (np.array semantics)."""
    if isinstance(v, (Arr, Sc, Blocks, DiagMat)):
        return v
    if isinstance(v, Seq):
        items = [to_arr(x) for x in v.items]
        if any(i is None for i in items):
            return None
        n = len(items)
        if n == 0:
            return Arr([(fix(0), fresh())], sym.Opq("empty", ()))
        iv = fresh()
        if all(isinstance(i, Sc) for i in items):
            return Arr([(fix(n), iv)], sym.Sel(iv, tuple(i.e for i in items)))
        if all(isinstance(i, Arr) for i in items):
            first = items[0]
            # unify axes of the items
            elems = []
            for it in items:
                if it.ndim != first.ndim:
                    return None
                e = it.elem
                for (sp0, iv0), (sp1, iv1) in zip(first.axes, it.axes):
                    if not sp0.same_size(sp1):
                        return None
                    e = sym.subst_ivar(e, iv1, (iv0, 0))
                elems.append(e)
            return Arr([(fix(n), iv)] + list(first.axes), sym.Sel(iv, tuple(elems)))
        return None
    if isinstance(v, Concat):
        return v
    return None


def _align(a: Arr, b: Arr) -> Tuple[list, Expr, Expr]:
    """Broadcast two arrays: returns (axes, elem_a, elem_b) with unified index variables."""
    na, nb = a.ndim, b.ndim
    n = max(na, nb)
    axes = []
    ea, eb = a.elem, b.elem
    # an index variable of b that names a *different* axis position of a (the same input array used on two axes,
    # e.g. X[:, None, :] - X[None, :, :]) must not be captured: rename it first
    pos_a = {iv: na - j for j, (_sp, iv) in enumerate(a.axes)}
    b_axes = list(b.axes)
    for j, (sp, iv) in enumerate(b_axes):
        k = nb - j
        if iv in pos_a and pos_a[iv] != k:
            niv = fresh()
            eb = sym.subst_ivar(eb, iv, (niv, 0))
            b_axes[j] = (sp, niv)
    for k in range(1, n + 1):
        xa = a.axes[na - k] if k <= na else None
        xb = b_axes[nb - k] if k <= nb else None
        if xa is None:
            axes.append(xb)
        elif xb is None:
            axes.append(xa)
        else:
            (sa, ia), (sb, ib) = xa, xb
            if sa.concrete == 1 and sb.concrete != 1:
                ea = sym.subst_ivar(ea, ia, 0)
                axes.append(xb)
            elif sb.concrete == 1 and sa.concrete != 1:
                eb = sym.subst_ivar(eb, ib, 0)
                axes.append(xa)
            else:
                if not sa.same_size(sb):
                    raise ShapeError(f"operands could not be broadcast: axis sizes {sym.show(sa.size)} vs "
                                     f"{sym.show(sb.size)}")
                if ia != ib:
                    eb = sym.subst_ivar(eb, ib, (ia, 0))
                axes.append(xa)
    axes.reverse()
    return axes, ea, eb


def _sel_lift2(f: Callable[[Expr, Expr], Expr], a: Expr, b: Expr) -> Expr:
    """Apply f under Sel nodes so that selections stay outermost."""
    if a[0] == "sel":
        iv = a[1]
        return sym.Sel(iv, tuple(_sel_lift2(f, x, sym.subst_ivar(b, iv, k)) for k, x in enumerate(a[2])))
    if b[0] == "sel":
        iv = b[1]
        return sym.Sel(iv, tuple(_sel_lift2(f, sym.subst_ivar(a, iv, k), x) for k, x in enumerate(b[2])))
    return f(a, b)


def _sel_lift1(f: Callable[[Expr], Expr], a: Expr) -> Expr:
    if a[0] == "sel":
        return sym.Sel(a[1], tuple(_sel_lift1(f, x) for x in a[2]))
    return f(a)


def _uncapture(e: Expr, arr: Arr) -> Expr:
    """a scalar that mentions 'some row' of an array through a free index variable (a generic element: a threshold drawn
    from the matrix, say) must not have that variable bound by the axes of an array it is combined with"""
    if e is None:
        return e
    fv = sym.free_ivars(e)
    for _sp, iv in arr.axes:
        if iv in fv:
            e = sym.subst_ivar(e, iv, (fresh(), 0))
    return e


def binop(f: Callable[[Expr, Expr], Expr], a: Val, b: Val) -> Val:
    if isinstance(a, Alt):
        return Alt([binop(f, x, b) for x in a.vals])
    if isinstance(b, Alt):
        return Alt([binop(f, a, x) for x in b.vals])
    a2 = to_arr(a) if not isinstance(a, (Sc, Arr)) else a
    b2 = to_arr(b) if not isinstance(b, (Sc, Arr)) else b
    if isinstance(a2, (Blocks, DiagMat)) or isinstance(b2, (Blocks, DiagMat)):
        # element-wise use of an assembled matrix: every entry keeps its (row, column) so that later row / column reads of the
        # result still know which cell they look at
        a2 = _positional(a2) if isinstance(a2, Blocks) else densify(a2) if isinstance(a2, DiagMat) else a2
        b2 = _positional(b2) if isinstance(b2, Blocks) else densify(b2) if isinstance(b2, DiagMat) else b2
    if isinstance(a2, Sc) and isinstance(b2, Sc):
        return Sc(_sel_lift2(f, a2.e, b2.e))
    if isinstance(a2, Arr) and isinstance(b2, Sc):
        return _flat_like(Arr(a2.axes, _sel_lift2(f, a2.elem, _uncapture(b2.e, a2)), "nd"), a2)
    if isinstance(a2, Sc) and isinstance(b2, Arr):
        return _flat_like(Arr(b2.axes, _sel_lift2(f, _uncapture(a2.e, b2), b2.elem), "nd"), b2)
    if isinstance(a2, Arr) and isinstance(b2, Arr):
        if a2 is b2 or a2.uid == b2.uid:
            pass
        b3 = b2
        # same ivar names in both operands refer to the same axis only when sizes agree; _align handles it
        axes, ea, eb = _align(a2, b3)
        return _flat_like(Arr(axes, _sel_lift2(f, ea, eb), "nd"), a2, b3)
    if isinstance(a, Unknown) or isinstance(b, Unknown) or a2 is None or b2 is None:
        return Unknown("binop", (generic_elem(a), generic_elem(b)))
    return Unknown("binop", (generic_elem(a), generic_elem(b)))


def unop(f: Callable[[Expr], Expr], a: Val) -> Val:
    if isinstance(a, Alt):
        return Alt([unop(f, x) for x in a.vals])
    from .values import VStack as _VS
    if isinstance(a, _VS):
        parts = [unop(f, p) for p in a.ordered]
        if all(isinstance(p, Arr) for p in parts):
            return _VS(parts)
    a2 = to_arr(a) if not isinstance(a, (Sc, Arr)) else a
    if isinstance(a2, (Blocks, DiagMat)):
        a2 = densify(a2)
    if isinstance(a2, Sc):
        return Sc(_sel_lift1(f, a2.e))
    if isinstance(a2, Arr):
        return _flat_like(Arr(a2.axes, _sel_lift1(f, a2.elem), "nd"), a2)
    if isinstance(a, Bag):
        if f is sym.neg and a.is_sorted:
            return Bag(f(a.elem), a.size, True, a.src, None, {"asc": "desc", "desc": "asc"}.get(a.direction))
        return Bag(f(a.elem), a.size, False, a.src)
    return Unknown("unop", (generic_elem(a),))


def _flat_like(out: Arr, *srcs) -> Arr:
    """an element-wise result of flattened multi-axis arrays is flattened the same way"""
    flags = [getattr(x, "flat", None) for x in srcs if isinstance(x, Arr)]
    flags = [f for f in flags if f is not None]
    if flags and all(f == flags[0] for f in flags) and all(
            len(x.axes) == len(out.axes) for x in srcs if isinstance(x, Arr) and getattr(x, "flat", None)):
        out.flat = flags[0]
    return out


def _positional(v: Blocks) -> Arr:
    r, c = fresh(), fresh()
    return Arr([(rng(v.shape[0]), r), (rng(v.shape[1]), c)], sym.At(v.uid, v.elem_choice(), (sym.IV(r), sym.IV(c))), "nd", v.uid)


def densify(v: Val) -> Val:
    """Blocks / DiagMat as a plain 2-d Arr whose elements are a Choice (positions forgotten)."""
    if isinstance(v, Blocks):
        return Arr([(rng(v.shape[0]), fresh()), (rng(v.shape[1]), fresh())], v.elem_choice(), "nd", v.uid)
    if isinstance(v, DiagMat):
        return Arr([(rng(v.n), fresh()), (rng(v.n), fresh())], sym.Choice([v.on, v.off]), "nd", v.uid)
    return v


def expand_concrete(e: Expr, iv: str, n: int) -> List[Expr]:
    return [sym.subst_ivar(e, iv, k) for k in range(n)]


def reduce_all(v: Val, op: str) -> Val:
    """np.sum / np.max / np.min / all / any over every axis."""
    if isinstance(v, Alt):
        return Alt([reduce_all(x, op) for x in v.vals])
    v2 = to_arr(v) if not isinstance(v, (Sc, Arr)) else v
    if isinstance(v2, (Blocks, DiagMat)):
        v2 = densify(v2)
    if isinstance(v2, Sc):
        return v2
    if isinstance(v2, Arr):
        e = v2.elem
        for sp, iv in reversed(v2.axes):
            e = reduce_axis_expr(e, sp, iv, op)
        return Sc(e)
    if isinstance(v, Bag):
        iv = fresh()
        return Sc(sym.Opq("bag-" + op, (v.elem,), None)) if op != "sum" else Sc(sym.Opq("bag-sum", (v.elem,), None))
    if isinstance(v, Concat):
        parts = [reduce_all(p, op) for p in v.parts]
        if all(isinstance(p, Sc) for p in parts):
            if op == "sum":
                out = sym.ZERO
                for p in parts:
                    out = sym.add(out, p.e)
                return Sc(out)
            if op in ("max", "min"):
                return Sc(sym.fn(op, *[p.e for p in parts]))
            if op in ("all", "any"):
                return Sc((sym.And if op == "all" else sym.Or)(*[p.e for p in parts]))
    return Unknown("reduce-" + op, (generic_elem(v),))


def reduce_axis_expr(e: Expr, sp: Space, iv: str, op: str) -> Expr:
    if sp.concrete is not None and sp.concrete <= 16:
        parts = expand_concrete(e, iv, sp.concrete)
        if op == "sum":
            out = sym.ZERO
            for p in parts:
                out = sym.add(out, p)
            return out
        if op in ("max", "min"):
            return sym.fn(op, *parts) if parts else sym.Opq("empty", ())
        if op == "all":
            return sym.And(*parts)
        if op == "any":
            return sym.Or(*parts)
    if op == "sum":
        return sym.Sum(iv, sp, e)
    return sym.Red(op, iv, sp, e)


def reduce_axis(v: Val, axis: int, op: str) -> Val:
    from .values import VStack as _VS
    if isinstance(v, _VS) and v.ordered and axis not in (0, -v.ordered[0].ndim):
        parts = [reduce_axis(p, axis, op) for p in v.ordered]
        if all(isinstance(p, Arr) for p in parts):
            return _VS(parts)
    v2 = to_arr(v) if not isinstance(v, Arr) else v
    if isinstance(v2, (Blocks, DiagMat)):
        v2 = densify(v2)
    if not isinstance(v2, Arr):
        return Unknown("reduce-axis", (generic_elem(v),))
    if axis < 0:
        axis += v2.ndim
    sp, iv = v2.axes[axis]
    e = reduce_axis_expr(v2.elem, sp, iv, op)
    axes = [a for k, a in enumerate(v2.axes) if k != axis]
    if not axes:
        return Sc(e)
    return Arr(axes, e, "nd")


# ----------------------------------------------------------------------------- indexing

class IndexSpec:
    pass


def _table_read(value: Expr, pos: Expr, table) -> Expr:
    if pos[0] in ("iv", "num"):
        return value
    if getattr(table, "uid", None) is None:
        try:
            table.uid = fresh("T")
        except Exception:
            pass
    return sym.At(getattr(table, "uid", None) or "table", value, (pos,))


def _negated_size(e) -> bool:
    terms, const = sym.lin_parts(e)
    return bool(terms) and const <= 0 and all(k < 0 and t[0] == "size" for t, k in terms.items())


def concrete_positions(it) -> Optional[list]:
    """the integers held by a ('fancy', v) index item when v is a 1-d array / list of known integers"""
    if it[0] != "fancy":
        return None
    a = it[1] if isinstance(it[1], Arr) else to_arr(it[1])
    if not (isinstance(a, Arr) and a.ndim == 1 and a.axes[0][0].concrete is not None):
        return None
    sp, iv = a.axes[0]
    out = []
    for k in range(sp.concrete):
        e = sym.subst_ivar(a.elem, iv, k)
        if e[0] != "num" or not float(e[1]).is_integer():
            return None
        out.append(int(e[1]))
    return out


def index(v: Val, idx: list, interp=None) -> Val:
    """idx: list of index items: ('full',) | ('slice', lo, hi, step) with Expr|None bounds | ('int', k) |
    ('expr', Expr) scalar symbolic | ('new',) | ('mask', Arr) | ('fancy', Val) | ('ellipsis',)"""
    if isinstance(v, Arr) and len(idx) == 1 and idx[0][0] == "fancy" and v.axes[0][0].concrete is not None:
        # A[positions] with known integer positions on an axis of known length: the entries at those positions, in order
        ps = concrete_positions(idx[0])
        if ps is not None and all(-v.axes[0][0].concrete <= p < v.axes[0][0].concrete for p in ps):
            rows_ = [index(v, [("int", p)], interp) for p in ps]
            if all(isinstance(r, Sc) and r.e is not None for r in rows_):
                tv = fresh()
                return Arr([(fix(len(ps)), tv)], sym.Sel(tv, tuple(r.e for r in rows_)) if rows_ else sym.Opq("empty", ()), "nd")
    if isinstance(v, Arr) and len(idx) == v.ndim >= 2 and all(it[0] == "fancy" for it in idx):
        # A[rows, cols] with index arrays of known integers: entry t is A[rows[t], cols[t]]
        poss = [concrete_positions(it) for it in idx]
        if all(p is not None for p in poss) and len({len(p) for p in poss}) == 1 and poss[0]:
            cells = []
            for t in range(len(poss[0])):
                c = index(v, [("int", p[t]) for p in poss], interp)
                if not isinstance(c, Sc) or c.e is None:
                    cells = None
                    break
                cells.append(c.e)
            if cells is not None:
                tv = fresh()
                return Arr([(fix(len(cells)), tv)], sym.Sel(tv, tuple(cells)), "nd")
    if isinstance(v, Alt):
        return Alt([index(x, idx, interp) for x in v.vals])
    if isinstance(v, Seq):
        it = idx[0]
        if it[0] == "int" and len(idx) == 1:
            k = it[1]
            if -len(v.items) <= k < len(v.items):
                return v.items[k]
            return Unknown("index-out-of-range")
        if it[0] == "slice" and len(idx) == 1 and all(b is None or b[0] == "num" for b in it[1:4]):
            lo = None if it[1] is None else int(it[1][1])
            hi = None if it[2] is None else int(it[2][1])
            st = None if it[3] is None else int(it[3][1])
            return Seq(v.items[slice(lo, hi, st)], v.kind)
        if it[0] == "full" and len(idx) == 1:
            return Seq(v.items, v.kind)
        a = to_arr(v)
        if a is None:
            if it[0] == "expr" and len(idx) == 1:
                return Alt(list(v.items)) if v.items else Unknown("index-empty")
            return Unknown("index-seq", (generic_elem(v),))
        v = a
    if isinstance(v, Blocks):
        return index_blocks(v, idx)
    if isinstance(v, DiagMat):
        v = densify(v)
    from .values import VStack
    if isinstance(v, VStack):
        r = index_vstack(v, idx, interp)
        if r is not None:
            return r
    if isinstance(v, Bag):
        it = idx[0]
        if it[0] in ("int", "expr") and len(idx) == 1:
            return Sc(v.elem)
        if it[0] == "full" and len(idx) == 1:
            return Bag(v.elem, v.size, v.is_sorted, v.src, v.parts, v.direction)
        if it[0] == "slice" and len(idx) == 1:
            lo, hi, st = it[1], it[2], it[3]
            whole = lo is None and hi is None
            if st is None or st == sym.ONE:
                d = v.direction
            elif st == sym.Num(-1):
                d = {"asc": "desc", "desc": "asc"}.get(v.direction)
            else:
                d = None
                whole = False
            return Bag(v.elem, v.size if whole else None, v.is_sorted, v.src, v.parts, d)
        if it[0] == "mask" and len(idx) == 1:
            return Bag(v.elem, None, v.is_sorted, v.src, v.parts, v.direction)
        return Unknown("index-bag", (v.elem,))
    if isinstance(v, Concat):
        it = idx[0]
        if it[0] in ("int", "expr") and len(idx) == 1:
            return Sc(generic_elem(v))
        return Unknown("index-concat", (generic_elem(v),))
    if isinstance(v, Unknown):
        return Unknown("index-of-" + v.tag, (v.e,))
    if not isinstance(v, Arr):
        return Unknown("index-" + type(v).__name__)
    # expand ellipsis / missing trailing full slices
    items = list(idx)
    n_real = sum(1 for it in items if it[0] not in ("new", "ellipsis"))
    if any(it[0] == "ellipsis" for it in items):
        k = [it[0] for it in items].index("ellipsis")
        items[k:k + 1] = [("full",)] * (v.ndim - n_real)
    else:
        items += [("full",)] * (v.ndim - n_real)
    e = v.elem
    axes = []
    ax_i = 0
    masks = []
    for it in items:
        kind = it[0]
        if kind == "new":
            axes.append((fix(1), fresh()))
            continue
        if ax_i >= v.ndim:
            raise ShapeError("too many indices for array")
        sp, iv = v.axes[ax_i]
        ax_i += 1
        if kind == "full":
            axes.append((sp, iv))
        elif kind == "int":
            k = it[1]
            if sp.concrete is not None:
                if not (-sp.concrete <= k < sp.concrete):
                    raise ShapeError(f"index {k} out of bounds for axis of size {sp.concrete}")
                if k < 0:
                    k += sp.concrete
                e = sym.subst_ivar(e, iv, k)
            else:
                if k < 0:
                    # position counted from the end: positional use of the last rows
                    e = sym.subst_ivar(e, iv, ("$last", k))
                else:
                    e = sym.subst_ivar(e, iv, k)
        elif kind == "expr":
            x = it[1]
            if x[0] != "iv":
                # position variable plus a whole number (xs[i + 1]): the neighbour at a fixed offset
                terms_, const_ = sym.lin_parts(x)
                if len(terms_) == 1 and float(const_).is_integer():
                    (t_, k_), = terms_.items()
                    if t_[0] == "iv" and k_ == 1:
                        x = sym.IV(t_[1], t_[2] + int(const_))
            if x[0] == "iv":
                e = sym.subst_ivar(e, iv, (x[1], x[2]))
            elif x[0] == "num" and float(x[1]).is_integer():
                return index(v, [("int", int(x[1])) if j == items.index(it) else jt for j, jt in enumerate(items)], interp)
            elif sym.subst_ivar_expr(e, iv, x) is not None and not any(y[0] in ("in", "at") for y in sym.walk(e)):
                # a position-valued table (a grid, an arange): the entry at a computed position is the table's formula there
                # (kept together with the position, so that a later look-up of this value in a value->position table can
                # be inverted)
                e = _table_read(sym.subst_ivar_expr(e, iv, x), x, v)
            else:
                # data-dependent scalar index: the row selected is named after the index expression, so two
                # reads at the same index refer to the same row
                nv = intern_index(x)
                e = sym.subst_ivar(e, iv, (nv, 0))
        elif kind == "slice":
            lo, hi, st = it[1], it[2], it[3]
            if sp.concrete is not None and all(b is None or (b[0] == "num" and float(b[1]).is_integer())
                                               for b in (lo, hi, st)):
                rngk = list(range(sp.concrete))[slice(None if lo is None else int(lo[1]),
                                                      None if hi is None else int(hi[1]),
                                                      None if st is None else int(st[1]))]
                nv = fresh()
                e = sym.Sel(nv, tuple(sym.subst_ivar(e, iv, k) for k in rngk)) if rngk else sym.Opq("empty", ())
                axes.append((fix(len(rngk)), nv))
            else:
                if st is not None and st != sym.ONE:
                    return Unknown("strided-slice", (e,))
                lo_e = lo if lo is not None else sym.ZERO
                hi_e = hi if hi is not None else sp.size
                # negative constant bounds count from the end
                if lo_e[0] == "num" and lo_e[1] < 0:
                    lo_e = sym.add(sp.size, lo_e)
                if hi_e[0] == "num" and hi_e[1] < 0:
                    hi_e = sym.add(sp.size, hi_e)
                # -N with N a (positive) size also counts from the end
                if _negated_size(lo_e):
                    lo_e = sym.add(sp.size, lo_e)
                if _negated_size(hi_e):
                    hi_e = sym.add(sp.size, hi_e)
                size = sym.sub(hi_e, lo_e)
                nv = fresh()
                if lo_e[0] == "num" and float(lo_e[1]).is_integer():
                    e = sym.subst_ivar(e, iv, (nv, int(lo_e[1])))
                else:
                    # symbolic start: generic element of a sub-range (position forgotten)
                    e = sym.subst_ivar(e, iv, (nv, 0))
                    if sym.equal(lo_e, sym.ZERO):
                        pass
                nsp = rng(size) if not sym.equal(size, sp.size) else sp
                if not sym.equal(size, sp.size):
                    if lo_e[0] == "num" and float(lo_e[1]).is_integer() and lo_e[1] != 0:
                        # a constant start other than 0: the element carries the offset (position k of the slice is entry
                        # k + start) and the positions are counted from 0 — a plain range of the slice's length.  (A slice
                        # space keeps the PARENT's numbering; it is for starts that are 0 or symbolic, whose element is
                        # not shifted.)
                        nsp = rng(size)
                    else:
                        nsp = Space(("slice", sp.key, lo_e, hi_e), size, None, sp)
                    if size[0] == "num" and float(size[1]).is_integer() and 0 <= size[1] <= 16:
                        nsp = fix(int(size[1]))
                axes.append((nsp, nv))
        elif kind == "mask":
            m = it[1]
            # boolean mask along this axis (the mask may span several axes: only 1-d masks supported)
            if isinstance(m, Sc) and m.e == sym.TRUE:
                axes.append((sp, iv))
                continue
            if isinstance(m, Arr) and m.ndim == 1:
                msp, miv = m.axes[0]
                if not msp.same_size(sp):
                    raise ShapeError(f"boolean index of size {sym.show(msp.size)} on axis of size {sym.show(sp.size)}")
                cond = sym.subst_ivar(m.elem, miv, (iv, 0))
                if cond == sym.TRUE:
                    axes.append((sp, iv))
                else:
                    nsp = subspace(sp, cond)
                    axes.append((nsp, iv))
                    masks.append(cond)
            else:
                return Unknown("mask-index", (e,))
        elif kind == "fancy":
            fa = it[1] if isinstance(it[1], Arr) else to_arr(it[1])
            if isinstance(fa, Arr) and sum(1 for j in items if j[0] == "fancy") == 1:
                fa = fa.renamed()
                e2 = sym.subst_ivar_expr(e, iv, fa.elem)
                if e2 is not None:
                    # table[positions]: one entry per position, the table's formula evaluated there
                    e = _table_read(e2, fa.elem, v) if not any(y[0] in ("in", "at") for y in sym.walk(e)) and v.ndim == 1 else e2
                    axes.extend(fa.axes)
                    continue
            return Unknown("fancy-index", (e,))
        else:
            return Unknown("index-kind-" + kind)
    if not axes:
        return Sc(e)
    return Arr(axes, e, v.kind if v.kind == "list" and len(items) == 1 and items[0][0] == "slice" else "nd")


def index_vstack(v, idx: list, interp=None) -> Optional[Val]:
    """rows of a stack keep their place: a row slice that coincides with one part is that part; a row slice that does not
    line up with the parts (for independent part lengths) mixes rows of different parts — reported as a `straddle` event
    and represented by an opaque element"""
    from .values import VStack
    first, rest = idx[0], idx[1:]
    if first[0] == "mask" and isinstance(first[1], VStack) and len(first[1].ordered) == len(v.ordered) \
            and all(m.ndim == 1 for m in first[1].ordered):
        # a row mask computed part by part selects rows part by part
        parts = [index(p, [("mask", m)] + rest, interp) for p, m in zip(v.ordered, first[1].ordered)]
        if all(isinstance(x, Arr) for x in parts):
            return VStack(parts)
        return None
    if first[0] == "full":
        parts = [index(p, [("full",)] + rest, interp) for p in v.ordered] if rest else list(v.ordered)
        if all(isinstance(x, Arr) for x in parts):
            return VStack(parts)
        return None
    if first[0] == "slice" and first[3] is None:
        lo = first[1] if first[1] is not None else sym.ZERO
        offs = [sym.ZERO]
        for p in v.ordered:
            offs.append(sym.add(offs[-1], p.axes[0][0].size))
        hi = first[2] if first[2] is not None else offs[-1]
        for k, p in enumerate(v.ordered):
            if sym.equal(lo, offs[k]) and sym.equal(hi, offs[k + 1]):
                return index(p, [("full",)] + rest, interp) if rest else p
        # several consecutive parts
        for a in range(len(v.ordered)):
            for b in range(a + 2, len(v.ordered) + 1):
                if sym.equal(lo, offs[a]) and sym.equal(hi, offs[b]):
                    sub = VStack(v.ordered[a:b])
                    return index_vstack(sub, [("full",)] + rest, interp) if rest else sub
        if interp is not None:
            interp.event("straddle", None, lo=lo, hi=hi, offsets=offs, parts=v.ordered)
        size = sym.sub(hi, lo)
        iv = fresh()
        sub = index(v.ordered[0], [("full",)] + rest, interp) if rest else v.ordered[0]
        tail = list(sub.axes[1:]) if isinstance(sub, Arr) else []
        e = sym.Opq("straddle", (lo, hi) + tuple(p.elem for p in v.ordered), fresh("s"))
        return Arr([(rng(size), iv)] + tail, e, "nd")
    return None


def index_blocks(b: Blocks, idx: list) -> Val:
    if len(idx) == 2 and all(it[0] in ("expr", "int") for it in idx):
        ix = tuple(it[1] if it[0] == "expr" else sym.Num(it[1]) for it in idx)
        return Sc(sym.At(b.uid, b.elem_choice(), ix))
    if len(idx) == 2 and all(it[0] == "fancy" for it in idx):
        arrs = [to_arr(it[1]) if not isinstance(it[1], Arr) else it[1] for it in idx]
        if all(isinstance(a, Arr) and a.ndim == 1 for a in arrs):
            # D[rows, cols]: position t of the result reads D[rows[t], cols[t]] — both index arrays on one position variable
            (sp0, iv0), (sp1, iv1) = arrs[0].axes[0], arrs[1].axes[0]
            if not sp0.same_size(sp1) and sp0.concrete != 1 and sp1.concrete != 1:
                raise ShapeError(f"index arrays of sizes {sym.show(sp0.size)} and {sym.show(sp1.size)} cannot be paired")
            nv = fresh()
            ix = (sym.subst_ivar(arrs[0].elem, iv0, (nv, 0)), sym.subst_ivar(arrs[1].elem, iv1, (nv, 0)))
            return Arr([(sp0 if sp0.concrete != 1 else sp1, nv)], sym.At(b.uid, b.elem_choice(), ix), "nd")
        ix = tuple(generic_elem(it[1]) for it in idx)
        sp = None
        for it in idx:
            if isinstance(it[1], Arr) and it[1].ndim == 1:
                sp = it[1].axes[0]
        if sp is None:
            sp = (rng(sym.Opq("len", ix)), fresh())
        return Arr([sp], sym.At(b.uid, b.elem_choice(), ix), "nd")
    if len(idx) == 2 and all(it[0] in ("slice", "full") for it in idx) and all(it[0] == "full" or it[3] is None for it in idx):
        # a rectangular read that coincides with one stored block (and no later store overlaps it) is that block
        bounds = []
        for k, it in enumerate(idx):
            full = b.shape[k]
            if it[0] == "full":
                bounds += [sym.ZERO, full]
            else:
                bounds += [it[1] if it[1] is not None else sym.ZERO, it[2] if it[2] is not None else full]
        hits = [s for s in b.stores if all(sym.equal(s[k], v) for k, v in zip(("r0", "r1", "c0", "c1"), bounds))]
        if len(hits) == 1 and hits[0] is [s for s in b.stores if s in hits][-1]:
            later = b.stores[b.stores.index(hits[0]) + 1:]
            disjoint = all(sym.equal(s["r0"], bounds[1]) or sym.equal(s["r1"], bounds[0]) or sym.equal(s["c0"], bounds[3])
                           or sym.equal(s["c1"], bounds[2]) for s in later)
            v = hits[0]["val"]
            if disjoint and isinstance(v, (Arr, DiagMat)):
                return v
    # any other region: the entries keep their (row, column) in the assembled matrix
    return index(_positional(b), idx)


def flatten(v: Val) -> Val:
    if isinstance(v, Bag):
        return v
    if isinstance(v, (Blocks, DiagMat)):
        return Bag(generic_elem(v), None, False, getattr(v, "uid", None), [v])
    if isinstance(v, Arr):
        if v.ndim == 1:
            return v
        size = sym.ONE
        for sp, _ in v.axes:
            size = sym.mul(size, sp.size)
        return Bag(v.elem, size, False, v.uid, [v])
    a = to_arr(v)
    if isinstance(a, Arr):
        return flatten(a)
    return Unknown("flatten", (generic_elem(v),))
