"""AST inliner — lets structural rules see through private helper functions.

"Extract helper" is the most common behaviour-preserving edit; a structural rule anchored in one function would lose its
construct when part of the body moves into `_helper(...)`.  `Inliner.inlined(fi)` returns a deep copy of the function's
definition in which calls to *private* helpers of the repository (module-level `_name`, `self._name` methods, functions
nested in the caller) are replaced by the helper's body:

  * statement-level inlining where the call is evaluated exactly once by the statement (value of an assignment / return /
    expression statement, test of an `if`, iterable of a `for`, ...): parameters are bound (by substitution when the
    argument is a plain name or constant and the helper never rebinds the parameter, by a fresh local otherwise), the
    helper's locals are renamed apart, `return`s become assignments to a fresh result variable with early returns turned
    into if/else chains;
  * expression-level substitution for helpers whose body is a single `return <expr>` anywhere else (inside
    comprehensions, lambdas, conditional sub-expressions).

Helpers that cannot be inlined faithfully (generators, recursion, returns inside loops/try/with, star-arguments,
module-level names that mean something else in the caller's module) are left as calls.  Inlined nodes keep the
helper's line numbers and carry `_relpath` so that reports point at the real source line.
"""
from __future__ import annotations

import ast
import copy
import itertools
from typing import Dict, List, Optional, Tuple

from .loader import FunctionInfo, Project

MAX_DEPTH = 4
MAX_STMTS = 400


class NotInlinable(Exception):
    pass


def _own_nodes(node):
    """Walk a function body without entering nested function / class definitions."""
    stack = list(ast.iter_child_nodes(node))
    while stack:
        n = stack.pop()
        yield n
        if isinstance(n, (ast.FunctionDef, ast.AsyncFunctionDef, ast.ClassDef, ast.Lambda)):
            continue
        stack.extend(ast.iter_child_nodes(n))


def stored_names(fnode) -> set:
    out = set()
    for n in ast.walk(fnode):
        if isinstance(n, ast.Name) and isinstance(n.ctx, (ast.Store, ast.Del)):
            out.add(n.id)
        elif isinstance(n, (ast.FunctionDef, ast.AsyncFunctionDef, ast.ClassDef)) and n is not fnode:
            out.add(n.name)
        elif isinstance(n, ast.ExceptHandler) and n.name:
            out.add(n.name)
        elif isinstance(n, (ast.Import, ast.ImportFrom)):
            for a in n.names:
                out.add((a.asname or a.name).split(".")[0])
    return out


def _param_names(fnode) -> List[str]:
    a = fnode.args
    return [x.arg for x in a.posonlyargs + a.args + a.kwonlyargs]


def _is_simple_arg(e: ast.AST) -> bool:
    if isinstance(e, ast.Constant):
        return True
    if isinstance(e, ast.Name):
        return True
    if isinstance(e, ast.UnaryOp) and isinstance(e.op, ast.USub) and isinstance(e.operand, ast.Constant):
        return True
    return False


def _is_pure_chain(e: ast.AST) -> bool:
    """Name, constant, attribute chain or constant subscript of those (no calls)."""
    while isinstance(e, (ast.Attribute, ast.Subscript)):
        if isinstance(e, ast.Subscript) and not isinstance(e.slice, ast.Constant):
            return False
        e = e.value
    return isinstance(e, (ast.Name, ast.Constant))


class _Rename(ast.NodeTransformer):
    def __init__(self, ren: Dict[str, str], subst: Dict[str, ast.AST]):
        self.ren = ren
        self.subst = subst

    def visit_Name(self, n: ast.Name):
        if n.id in self.subst and isinstance(n.ctx, ast.Load):
            return copy.deepcopy(self.subst[n.id])
        if n.id in self.ren:
            return ast.copy_location(ast.Name(self.ren[n.id], n.ctx), n)
        return n

    def _shadowed(self, names):
        names = set(names)
        return _Rename({k: v for k, v in self.ren.items() if k not in names},
                       {k: v for k, v in self.subst.items() if k not in names})

    def visit_Lambda(self, n):
        a = n.args
        ps = [x.arg for x in a.posonlyargs + a.args + a.kwonlyargs] + \
             ([a.vararg.arg] if a.vararg else []) + ([a.kwarg.arg] if a.kwarg else [])
        for d in list(a.defaults) + [d for d in a.kw_defaults if d is not None]:
            self.visit(d)
        n.body = self._shadowed(ps).visit(n.body)
        return n

    def visit_FunctionDef(self, n):
        if n.name in self.ren:
            n.name = self.ren[n.name]
        a = n.args
        ps = [x.arg for x in a.posonlyargs + a.args + a.kwonlyargs] + \
             ([a.vararg.arg] if a.vararg else []) + ([a.kwarg.arg] if a.kwarg else [])
        inner = self._shadowed(ps)
        n.body = [inner.visit(x) for x in n.body]
        return n

    def visit_ExceptHandler(self, n):
        if n.name and n.name in self.ren:
            n.name = self.ren[n.name]
        self.generic_visit(n)
        return n


def _contains_return(stmts) -> bool:
    for st in stmts:
        if isinstance(st, ast.Return):
            return True
        if isinstance(st, (ast.FunctionDef, ast.AsyncFunctionDef, ast.ClassDef)):
            continue
        for n in _own_nodes(st):
            if isinstance(n, ast.Return):
                return True
    return False


def _always_leaves(stmts) -> bool:
    """Every path through stmts ends in return or raise."""
    for st in stmts:
        if isinstance(st, (ast.Return, ast.Raise)):
            return True
        if isinstance(st, ast.If) and st.orelse and _always_leaves(st.body) and _always_leaves(st.orelse):
            return True
    return False


def _convert_returns(stmts: List[ast.stmt], res: str, budget: List[int]) -> List[ast.stmt]:
    """Rewrite a helper body so that `return v` becomes `res = v` and control falls out at the end."""
    out: List[ast.stmt] = []
    for idx, st in enumerate(stmts):
        budget[0] -= 1
        if budget[0] < 0:
            raise NotInlinable("helper too large after return conversion")
        if isinstance(st, ast.Return):
            v = st.value if st.value is not None else ast.Constant(None)
            out.append(ast.copy_location(ast.Assign([ast.Name(res, ast.Store())], v), st))
            return out
        if isinstance(st, (ast.FunctionDef, ast.AsyncFunctionDef, ast.ClassDef)) or not _contains_return([st]):
            out.append(st)
            continue
        if isinstance(st, ast.If):
            rest = stmts[idx + 1:]
            body_tail = [] if _always_leaves(st.body) else copy.deepcopy(rest)
            else_tail = [] if (st.orelse and _always_leaves(st.orelse)) else copy.deepcopy(rest)
            nb = _convert_returns(list(st.body) + body_tail, res, budget)
            no = _convert_returns(list(st.orelse) + else_tail, res, budget)
            new = ast.copy_location(ast.If(st.test, nb or [ast.Pass()], no), st)
            out.append(new)
            return out
        raise NotInlinable(f"return inside {type(st).__name__}")
    return out


def _constant_like(e: ast.AST) -> bool:
    if isinstance(e, ast.Constant):
        return True
    if isinstance(e, ast.UnaryOp) and isinstance(e.op, (ast.USub, ast.UAdd)):
        return _constant_like(e.operand)
    if isinstance(e, ast.Attribute) and isinstance(e.value, ast.Name) and e.value.id in ("np", "numpy", "math") \
            and e.attr in ("inf", "nan", "pi", "e", "newaxis"):
        return True
    return False


def _forward_tuple_temp(stmts):
    """`if c: T = (a, b) else: T = (c, d)` followed by `x, y = T` (T used nowhere else)  ->  the unpacking moved into the arms
    (the shape an inlined helper with several `return a, b` leaves behind)"""
    out = list(stmts)
    k = 0
    while k + 1 < len(out):
        a, b = out[k], out[k + 1]
        if isinstance(a, ast.If) and isinstance(b, ast.Assign) and len(b.targets) == 1 and isinstance(b.targets[0], (ast.Tuple, ast.List)) \
                and isinstance(b.value, ast.Name):
            T = b.value.id

            def last_assign(body):
                return body[-1] if body and isinstance(body[-1], ast.Assign) and len(body[-1].targets) == 1 \
                    and isinstance(body[-1].targets[0], ast.Name) and body[-1].targets[0].id == T \
                    and isinstance(body[-1].value, (ast.Tuple, ast.List)) and len(body[-1].value.elts) == len(b.targets[0].elts) else None
            arms = []
            cur = a
            ok = True
            while True:
                arms.append(cur.body)
                if len(cur.orelse) == 1 and isinstance(cur.orelse[0], ast.If):
                    cur = cur.orelse[0]
                    continue
                if not cur.orelse:
                    ok = False
                else:
                    arms.append(cur.orelse)
                break
            uses = sum(1 for st in out for x in ast.walk(st) if isinstance(x, ast.Name) and x.id == T and isinstance(x.ctx, ast.Load))
            if ok and uses == 1 and all(last_assign(arm) is not None for arm in arms):
                import copy as _copy
                for arm in arms:
                    la = arm[-1]
                    new = ast.Assign([_copy.deepcopy(b.targets[0])], la.value)
                    ast.copy_location(new, la)
                    ast.fix_missing_locations(new)
                    arm[-1] = new
                del out[k + 1]
                continue
        k += 1
    return out


def _split_parallel(stmts):
    """`a, b = x, y` -> `a = x; b = y` when no target is read on the right-hand side (then the order does not matter)"""
    out = []
    for st in stmts:
        if isinstance(st, ast.Assign) and len(st.targets) == 1 and isinstance(st.targets[0], (ast.Tuple, ast.List)) \
                and isinstance(st.value, (ast.Tuple, ast.List)) and len(st.value.elts) == len(st.targets[0].elts) \
                and all(isinstance(t, ast.Name) for t in st.targets[0].elts) \
                and not any(isinstance(e, ast.Starred) for e in st.value.elts):
            tnames = {t.id for t in st.targets[0].elts}
            # in sequence, element i may read its own target and the targets that come later — not one already re-bound
            order_safe = True
            done = set()
            for t, e in zip(st.targets[0].elts, st.value.elts):
                if {x.id for x in ast.walk(e) if isinstance(x, ast.Name)} & done:
                    order_safe = False
                done.add(t.id)
            if order_safe and len(tnames) == len(st.targets[0].elts):
                for t, e in zip(st.targets[0].elts, st.value.elts):
                    a = ast.Assign([ast.Name(t.id, ast.Store())], e)
                    ast.copy_location(a, st)
                    ast.fix_missing_locations(a)
                    out.append(a)
                continue
        out.append(st)
    return out


class Canon(ast.NodeTransformer):
    """Shape-only canonicalisation of the view, so that rules need not enumerate mirror images:
      * `if not c: A else: B`            ->  `if c: B else: A`
      * `<constant> op x`                ->  `x op' <constant>`   (single comparisons; op' the mirrored operator)
      * `t = e; return t` (t used once)  ->  `return e`
      * `a, b = x, y` (no target read on the right)  ->  `a = x; b = y`
    """
    MIRROR = {ast.Lt: ast.Gt, ast.Gt: ast.Lt, ast.LtE: ast.GtE, ast.GtE: ast.LtE, ast.Eq: ast.Eq, ast.NotEq: ast.NotEq}

    def visit_If(self, n):
        self.generic_visit(n)
        if n.orelse and isinstance(n.test, ast.UnaryOp) and isinstance(n.test.op, ast.Not) \
                and not (len(n.orelse) == 1 and isinstance(n.orelse[0], ast.If)):
            new = ast.copy_location(ast.If(n.test.operand, n.orelse, n.body), n)
            return new
        return n

    def visit_Compare(self, n):
        self.generic_visit(n)
        if len(n.ops) == 1 and type(n.ops[0]) in self.MIRROR and _constant_like(n.left) and not _constant_like(n.comparators[0]):
            return ast.copy_location(ast.Compare(n.comparators[0], [self.MIRROR[type(n.ops[0])]()], [n.left]), n)
        return n

    def _fold_returns(self, body):
        out = []
        for st in body:
            if isinstance(st, ast.Return) and isinstance(st.value, ast.Name) and out and isinstance(out[-1], ast.Assign) \
                    and len(out[-1].targets) == 1 and isinstance(out[-1].targets[0], ast.Name) \
                    and out[-1].targets[0].id == st.value.id and self._uses.get(st.value.id, 0) == 1:
                prev = out.pop()
                out.append(ast.copy_location(ast.Return(prev.value), st))
            else:
                out.append(st)
        return out

    def visit_FunctionDef(self, n):
        uses = {}
        for x in ast.walk(n):
            if isinstance(x, ast.Name) and isinstance(x.ctx, ast.Load):
                uses[x.id] = uses.get(x.id, 0) + 1
        self._uses = uses
        self.generic_visit(n)
        self._uses = uses

        def rec(stmts):
            stmts = _forward_tuple_temp(stmts)
            stmts = self._fold_returns(_split_parallel(stmts))
            for st in stmts:
                for fld in ("body", "orelse", "finalbody"):
                    sub = getattr(st, fld, None)
                    if isinstance(sub, list) and sub and isinstance(sub[0], ast.stmt):
                        setattr(st, fld, rec(sub))
            return stmts
        n.body = rec(n.body)
        return n


class Inliner:
    def __init__(self, project: Project, private_only: bool = True):
        self.p = project
        self.private_only = private_only
        self.cache: Dict[str, ast.AST] = {}
        self.counter = itertools.count(1)
        self.inlined_calls: Dict[str, List[str]] = {}  # caller qualname -> helpers inlined into it
        self.left_calls: Dict[str, List[Tuple[str, str]]] = {}  # caller -> (helper, reason) left as calls

    # ------------------------------------------------------------------ public
    def inlined(self, fi: FunctionInfo) -> ast.AST:
        if fi.qualname not in self.cache:
            node = self._inline_fn(fi, (fi.qualname,))
            node = Canon().visit(node)
            ast.fix_missing_locations(node)
            self.cache[fi.qualname] = node
        return self.cache[fi.qualname]

    def helpers_of(self, fi: FunctionInfo) -> List[str]:
        self.inlined(fi)
        return self.inlined_calls.get(fi.qualname, [])

    # ------------------------------------------------------------------ machinery
    def _inline_fn(self, fi: FunctionInfo, stack: Tuple[str, ...]) -> ast.AST:
        node = copy.deepcopy(fi.node)
        for n in ast.walk(node):
            n._relpath = fi.module.relpath
        if not isinstance(node, (ast.FunctionDef, ast.AsyncFunctionDef)):
            return node
        ctx = dict(fi=fi, stack=stack, root=stack[0])
        node.body = self._block(node.body, ctx)
        ast.fix_missing_locations(node)
        return node

    def _note(self, ctx, q, reason=None):
        if reason is None:
            self.inlined_calls.setdefault(ctx["root"], []).append(q)
        else:
            self.left_calls.setdefault(ctx["root"], []).append((q, reason))

    def _resolve(self, call: ast.Call, ctx) -> Optional[Tuple[FunctionInfo, Optional[ast.AST]]]:
        """(callee, receiver expression or None)"""
        fi: FunctionInfo = ctx["fi"]
        f = call.func
        locs = ctx.get("locals")
        if locs is None:
            locs = ctx["locals"] = stored_names(fi.node) | set(fi.params)
        if isinstance(f, ast.Name):
            # function nested in the caller (or in an enclosing function)
            cur = fi
            while cur is not None:
                q = f"{cur.qualname}.<locals>.{f.id}"
                if q in self.p.functions:
                    return self.p.functions[q], None
                cur = cur.parent
            if f.id in locs:
                return None
            t = self.p.resolve(fi.module, f, locs)
            if t in self.p.functions and self.p.functions[t].cls is None:
                return self.p.functions[t], None
            return None
        if isinstance(f, ast.Attribute):
            owner = fi
            while owner is not None and owner.cls is None:
                owner = owner.parent
            if isinstance(f.value, ast.Name) and owner is not None and owner.params and f.value.id == owner.params[0] \
                    and owner.kind in ("method", "property", "setter") and f.value.id not in (stored_names(fi.node)):
                m = owner.cls.lookup(f.attr, self.p)
                if m is None:
                    return None
                # overridden somewhere below? then the target is not unique
                for c in self.p.classes.values():
                    if c is not m.cls and m.cls in c.mro(self.p) and f.attr in c.methods:
                        return None
                if m.kind == "staticmethod":
                    return m, None
                if m.kind != "method":
                    return None
                return m, f.value
            t = self.p.resolve(fi.module, f, locs)
            if t in self.p.functions:
                m = self.p.functions[t]
                if m.cls is None or m.kind == "staticmethod":
                    return m, None
        return None

    def _eligible(self, callee: FunctionInfo, ctx) -> Optional[str]:
        """None if eligible, else the reason."""
        if callee.qualname in ctx["stack"]:
            return "recursive"
        if len(ctx["stack"]) > MAX_DEPTH:
            return "depth"
        nm = callee.name
        nested = callee.parent is not None
        if self.private_only and not nested and not (nm.startswith("_") and not (nm.startswith("__") and nm.endswith("__"))):
            return "public"
        nd = callee.node
        if not isinstance(nd, ast.FunctionDef):
            return "not a def"
        if nd.args.vararg or nd.args.kwarg:
            return "star parameters"
        decos = [ast.unparse(d) for d in nd.decorator_list]
        if any(d not in ("staticmethod",) for d in decos):
            return "decorated"
        for n in _own_nodes(nd):
            if isinstance(n, (ast.Yield, ast.YieldFrom, ast.Await, ast.Global, ast.Nonlocal)):
                return "generator/global"
        if callee.abstract:
            return "abstract"
        return None

    def _free_names_agree(self, callee: FunctionInfo, caller: FunctionInfo) -> bool:
        if callee.module is caller.module:
            return True
        locs = stored_names(callee.node) | set(callee.params)
        for n in ast.walk(callee.node):
            if isinstance(n, ast.Name) and isinstance(n.ctx, ast.Load) and n.id not in locs:
                if self.p.resolve_name(callee.module, n.id) != self.p.resolve_name(caller.module, n.id):
                    return False
        return True

    def _bind(self, callee: FunctionInfo, call: ast.Call, receiver) -> Dict[str, ast.AST]:
        nd = callee.node
        a = nd.args
        if any(isinstance(x, ast.Starred) for x in call.args) or any(k.arg is None for k in call.keywords):
            raise NotInlinable("star arguments")
        pos = [x.arg for x in a.posonlyargs + a.args]
        actual = list(call.args)
        if receiver is not None:
            actual = [receiver] + actual
        if len(actual) > len(pos):
            raise NotInlinable("too many positional arguments")
        b: Dict[str, ast.AST] = {}
        for nme, v in zip(pos, actual):
            b[nme] = v
        allp = pos + [x.arg for x in a.kwonlyargs]
        for k in call.keywords:
            if k.arg not in allp or k.arg in b:
                raise NotInlinable("bad keyword")
            b[k.arg] = k.value
        # defaults
        defaults = dict(zip(pos[len(pos) - len(a.defaults):], a.defaults))
        for x, d in zip(a.kwonlyargs, a.kw_defaults):
            if d is not None:
                defaults[x.arg] = d
        for nme in allp:
            if nme not in b:
                if nme not in defaults:
                    raise NotInlinable(f"missing argument {nme}")
                d = defaults[nme]
                if not _is_pure_chain(d) and not (isinstance(d, (ast.UnaryOp, ast.Tuple, ast.List)) and all(
                        isinstance(x, (ast.Constant, ast.UnaryOp, ast.Tuple, ast.List, ast.Load, ast.USub)) for x in ast.walk(d))):
                    raise NotInlinable("non-constant default")
                b[nme] = copy.deepcopy(d)
        return b

    def _expand(self, call: ast.Call, ctx, expr_only: bool):
        """Return (prelude statements, replacement expression) or None."""
        r = self._resolve(call, ctx)
        if r is None:
            return None
        callee, receiver = r
        why = self._eligible(callee, ctx)
        if why is not None:
            if why != "public":
                self._note(ctx, callee.qualname, why)
            return None
        if not self._free_names_agree(callee, ctx["fi"]):
            self._note(ctx, callee.qualname, "module-level names differ between modules")
            return None
        try:
            binding = self._bind(callee, call, receiver)
            inl = self._inline_fn(callee, ctx["stack"] + (callee.qualname,))
            # bookkeeping of nested helpers goes to the root caller
            body = [st for st in inl.body]
            if body and isinstance(body[0], ast.Expr) and isinstance(body[0].value, ast.Constant) \
                    and isinstance(body[0].value.value, str):
                body = body[1:]
            k = next(self.counter)
            stored = stored_names(inl) - {callee.name}
            params = _param_names(inl)
            single = len(body) == 1 and isinstance(body[0], ast.Return) and body[0].value is not None
            uses = {p_: 0 for p_ in params}
            for n in ast.walk(inl):
                if isinstance(n, ast.Name) and n.id in uses and isinstance(n.ctx, ast.Load):
                    uses[n.id] += 1
            subst: Dict[str, ast.AST] = {}
            ren: Dict[str, str] = {}
            prelude: List[ast.stmt] = []
            for p_ in params:
                arg = binding[p_]
                rebinds = p_ in stored
                if not rebinds and (_is_simple_arg(arg) or (single and (uses[p_] <= 1 or _is_pure_chain(arg)))
                                    or (_is_pure_chain(arg) and uses[p_] <= 1)):
                    subst[p_] = arg
                else:
                    if expr_only:
                        raise NotInlinable("argument needs a temporary")
                    ren[p_] = f"_i{k}_{p_}"
                    asg = ast.Assign([ast.Name(ren[p_], ast.Store())], arg)
                    ast.copy_location(asg, call)
                    prelude.append(asg)
            for nme in stored:
                if nme not in ren and nme not in subst:
                    ren[nme] = f"_i{k}_{nme}"
                elif nme in subst:
                    # a substituted parameter is never stored (checked above)
                    pass
            # capture check: names free in the arguments must not be rebound by the helper's own binders (they are
            # renamed apart above, so only comprehension/lambda binders inside a single expression matter)
            if single:
                inner_binders = set()
                for n in ast.walk(body[0]):
                    if isinstance(n, ast.comprehension):
                        inner_binders |= {x.id for x in ast.walk(n.target) if isinstance(x, ast.Name)}
                    elif isinstance(n, ast.Lambda):
                        inner_binders |= set(_param_names(n))
                for arg in subst.values():
                    if any(isinstance(x, ast.Name) and x.id in inner_binders for x in ast.walk(arg)):
                        raise NotInlinable("name capture")
            rn = _Rename(ren, subst)
            if single:
                e = rn.visit(copy.deepcopy(body[0].value))
                self._note(ctx, callee.qualname)
                return prelude, e
            if expr_only:
                raise NotInlinable("not a single expression")
            res = f"_i{k}_result"
            new_body = [rn.visit(copy.deepcopy(st)) for st in body]
            conv = _convert_returns(new_body, res, [MAX_STMTS])
            if not _always_leaves(body):
                # implicit `return None` at the end of the helper
                init = ast.copy_location(ast.Assign([ast.Name(res, ast.Store())], ast.Constant(None)), call)
                conv = [init] + conv
            self._note(ctx, callee.qualname)
            return prelude + conv, ast.copy_location(ast.Name(res, ast.Load()), call)
        except NotInlinable as e:
            self._note(ctx, callee.qualname, str(e))
            return None

    def _inline_generator_loop(self, st: ast.For, ctx) -> Optional[List[ast.stmt]]:
        """`for T in _gen(args): BODY` with a private generator helper whose yields are plain `yield E` statements:
        the helper's loop nest with every `yield E` replaced by `T = E; BODY`."""
        r = self._resolve(st.iter, ctx)
        if r is None:
            return None
        callee, receiver = r
        nd = callee.node
        if not isinstance(nd, ast.FunctionDef) or callee.qualname in ctx["stack"] or len(ctx["stack"]) > MAX_DEPTH:
            return None
        nm = callee.name
        if self.private_only and callee.parent is None and not (nm.startswith("_") and not nm.endswith("__")):
            return None
        yields = [n for n in _own_nodes(nd) if isinstance(n, (ast.Yield, ast.YieldFrom))]
        if not yields or any(isinstance(y, ast.YieldFrom) for y in yields):
            return None
        if nd.args.vararg or nd.args.kwarg or nd.decorator_list:
            return None
        for n in _own_nodes(nd):
            if isinstance(n, (ast.Return, ast.Global, ast.Nonlocal, ast.Await, ast.Try, ast.With)):
                self._note(ctx, callee.qualname, "generator with return/try/with")
                return None
        # every yield must be a statement of its own
        stmt_yields = [n for n in _own_nodes(nd) if isinstance(n, ast.Expr) and isinstance(n.value, ast.Yield)]
        if len(stmt_yields) != len(yields):
            self._note(ctx, callee.qualname, "yield used as an expression")
            return None
        # the loop body must not leave the loop in a way that would mean something else inside the helper's loops
        for n in st.body:
            for x in [n] + list(_own_nodes(n)):
                if isinstance(x, (ast.Break, ast.Return)):
                    self._note(ctx, callee.qualname, "break/return in the body of a loop over a generator")
                    return None
        has_continue = any(isinstance(x, ast.Continue) for n in st.body for x in [n] + list(_own_nodes(n))
                           if not isinstance(x, (ast.For, ast.While)))
        if not self._free_names_agree(callee, ctx["fi"]):
            return None
        try:
            binding = self._bind(callee, st.iter, receiver)
        except NotInlinable as e:
            self._note(ctx, callee.qualname, str(e))
            return None
        k = next(self.counter)
        body = list(copy.deepcopy(nd).body)
        for x in body:
            for n in ast.walk(x):
                n._relpath = callee.module.relpath
        if body and isinstance(body[0], ast.Expr) and isinstance(body[0].value, ast.Constant) and isinstance(body[0].value.value, str):
            body = body[1:]
        stored = stored_names(nd) - {callee.name}
        params = _param_names(nd)
        ren = {n_: f"_g{k}_{n_}" for n_ in stored}
        subst: Dict[str, ast.AST] = {}
        prelude: List[ast.stmt] = []
        for p_ in params:
            arg = binding[p_]
            if p_ not in stored and _is_pure_chain(arg):
                subst[p_] = arg
            else:
                ren[p_] = f"_g{k}_{p_}"
                prelude.append(ast.copy_location(ast.Assign([ast.Name(ren[p_], ast.Store())], arg), st))
        rn = _Rename(ren, subst)
        body = [rn.visit(x) for x in body]
        me = self
        ok = [True]

        class Y(ast.NodeTransformer):
            def visit_FunctionDef(self, n):
                return n

            visit_Lambda = visit_ClassDef = visit_FunctionDef

            def generic_stmts(self, stmts):
                out2 = []
                for idx, s_ in enumerate(stmts):
                    if isinstance(s_, ast.Expr) and isinstance(s_.value, ast.Yield):
                        if has_continue and idx != len(stmts) - 1:
                            ok[0] = False
                        val = s_.value.value if s_.value.value is not None else ast.Constant(None)
                        asg = ast.copy_location(ast.Assign([copy.deepcopy(st.target)], val), s_)
                        for t_ in ast.walk(asg.targets[0]):
                            if isinstance(t_, (ast.Name, ast.Tuple, ast.List, ast.Starred, ast.Subscript, ast.Attribute)):
                                t_.ctx = ast.Store() if not isinstance(t_, (ast.Subscript, ast.Attribute)) or t_ is asg.targets[0] else t_.ctx
                        out2.append(asg)
                        out2.extend(copy.deepcopy(st.body))
                    else:
                        out2.append(self.visit(s_))
                return out2

            def generic_visit(self, node):
                for fld in ("body", "orelse", "finalbody"):
                    sub = getattr(node, fld, None)
                    if isinstance(sub, list) and sub and isinstance(sub[0], ast.stmt):
                        setattr(node, fld, self.generic_stmts(sub))
                return node

        new_body = Y().generic_stmts(body)
        if not ok[0]:
            self._note(ctx, callee.qualname, "continue in the loop body and a yield that is not last")
            return None
        for x in prelude + new_body:
            ast.fix_missing_locations(x)
        self._note(ctx, callee.qualname)
        sub_ctx = dict(ctx)
        return self._block(prelude + new_body, sub_ctx)

    def _needs_loop(self, comp: ast.ListComp, ctx) -> bool:
        if any(g.is_async for g in comp.generators):
            return False
        for n in ast.walk(comp.elt):
            if isinstance(n, ast.Call):
                r = self._resolve(n, ctx)
                if r is None or self._eligible(r[0], ctx) is not None:
                    continue
                try:
                    inl = self._inline_fn(r[0], ctx["stack"] + (r[0].qualname,))
                except NotInlinable:
                    continue
                body = list(inl.body)
                if body and isinstance(body[0], ast.Expr) and isinstance(body[0].value, ast.Constant):
                    body = body[1:]
                if not (len(body) == 1 and isinstance(body[0], ast.Return)):
                    return True
        return False

    # ---- statements
    def _block(self, stmts: List[ast.stmt], ctx) -> List[ast.stmt]:
        out: List[ast.stmt] = []
        for st in stmts:
            if isinstance(st, (ast.FunctionDef, ast.AsyncFunctionDef, ast.ClassDef)):
                out.append(st)
                continue
            for fld in ("body", "orelse", "finalbody"):
                sub = getattr(st, fld, None)
                if isinstance(sub, list) and sub and isinstance(sub[0], ast.stmt):
                    setattr(st, fld, self._block(sub, ctx))
            if isinstance(st, ast.Try):
                for h in st.handlers:
                    h.body = self._block(h.body, ctx)
            if isinstance(st, ast.For) and not st.orelse and isinstance(st.iter, ast.Call):
                g = self._inline_generator_loop(st, ctx)
                if g is not None:
                    out.extend(g)
                    continue
            prelude: List[ast.stmt] = []
            headers = {
                ast.Assign: ["value"], ast.AugAssign: ["value"], ast.AnnAssign: ["value"], ast.Expr: ["value"],
                ast.Return: ["value"], ast.If: ["test"], ast.For: ["iter"], ast.Raise: ["exc"],
            }.get(type(st), [])
            for fld in headers:
                e = getattr(st, fld, None)
                if e is None:
                    continue
                e2 = self._hoist(e, ctx, prelude)
                setattr(st, fld, e2)
            if isinstance(st, ast.With):
                for it in st.items:
                    it.context_expr = self._hoist(it.context_expr, ctx, prelude)
            # everything else (comprehensions, lambdas, while tests, targets...): expression-level substitution only
            st = _ExprInline(self, ctx).visit(st)
            if prelude and isinstance(st, (ast.Assign, ast.Return)) and isinstance(st.value, ast.Name) \
                    and st.value.id.endswith("_result") and isinstance(prelude[-1], ast.Assign) \
                    and isinstance(prelude[-1].targets[0], ast.Name) and prelude[-1].targets[0].id == st.value.id \
                    and sum(1 for x in prelude for y in ast.walk(x) if isinstance(y, ast.Name) and y.id == st.value.id) == 1:
                st.value = prelude[-1].value
                prelude = prelude[:-1]
            out.extend(prelude)
            if isinstance(st, ast.Expr) and isinstance(st.value, ast.Name) and st.value.id.startswith("_i") \
                    and st.value.id.endswith("_result"):
                continue  # helper called for effect
            out.append(st)
        return out

    def _hoist(self, e: ast.AST, ctx, prelude: List[ast.stmt]) -> ast.AST:
        """Inline calls evaluated exactly once by the enclosing statement (post-order)."""
        me = self

        class H(ast.NodeTransformer):
            def visit_Lambda(self, n):
                return n

            def visit_ListComp(self, n):
                # the first iterable is evaluated once, in the enclosing scope
                n.generators[0].iter = self.visit(n.generators[0].iter)
                if isinstance(n, ast.ListComp) and me._needs_loop(n, ctx):
                    # [helper(x) for x in xs] with a multi-statement helper: build the list with an explicit loop so
                    # that the helper can be inlined at statement level
                    k = next(me.counter)
                    tmp = f"_c{k}_list"
                    init = ast.copy_location(ast.Assign([ast.Name(tmp, ast.Store())], ast.List([], ast.Load())), n)
                    app = ast.Expr(ast.Call(ast.Attribute(ast.Name(tmp, ast.Load()), "append", ast.Load()), [n.elt], []))
                    ast.copy_location(app, n)
                    inner: List[ast.stmt] = [app]
                    for g in reversed(n.generators):
                        for c in reversed(g.ifs):
                            inner = [ast.copy_location(ast.If(c, inner, []), n)]
                        inner = [ast.copy_location(ast.For(g.target, g.iter, inner, []), n)]
                    for x in [init] + inner:
                        ast.fix_missing_locations(x)
                    prelude.extend(me._block([init] + inner, ctx))
                    return ast.copy_location(ast.Name(tmp, ast.Load()), n)
                return n

            def visit_SetComp(self, n):
                n.generators[0].iter = self.visit(n.generators[0].iter)
                return n

            visit_GeneratorExp = visit_DictComp = visit_SetComp

            def visit_IfExp(self, n):
                n.test = self.visit(n.test)
                return n

            def visit_BoolOp(self, n):
                n.values[0] = self.visit(n.values[0])
                return n

            def visit_Call(self, n):
                self.generic_visit(n)
                r = me._expand(n, ctx, expr_only=False)
                if r is None:
                    return n
                pre, rep = r
                prelude.extend(pre)
                return rep

        return H().visit(e)


def _ends_assigned(stmts, res) -> bool:
    if not stmts:
        return False
    last = stmts[-1]
    if isinstance(last, ast.Assign) and isinstance(last.targets[0], ast.Name) and last.targets[0].id == res:
        return True
    if isinstance(last, ast.If) and last.orelse:
        return _ends_assigned(last.body, res) and _ends_assigned(last.orelse, res)
    if isinstance(last, ast.Raise):
        return True
    return False


class _ExprInline(ast.NodeTransformer):
    """Substitute single-expression helpers wherever they are called."""

    def __init__(self, inl: Inliner, ctx):
        self.inl = inl
        self.ctx = ctx

    def visit_FunctionDef(self, n):
        return n

    visit_AsyncFunctionDef = visit_ClassDef = visit_FunctionDef

    def visit_Call(self, n):
        self.generic_visit(n)
        r = self.inl._expand(n, self.ctx, expr_only=True)
        if r is None:
            return n
        pre, rep = r
        if pre:
            return n
        return rep

    # nested statement blocks were already processed by _block
    def generic_visit(self, node):
        for field, old in ast.iter_fields(node):
            if field in ("body", "orelse", "finalbody", "handlers") and isinstance(old, list) and old \
                    and isinstance(old[0], (ast.stmt, ast.ExceptHandler)):
                continue
            if isinstance(old, list):
                new = []
                for v in old:
                    if isinstance(v, ast.AST):
                        v = self.visit(v)
                        if v is None:
                            continue
                    new.append(v)
                old[:] = new
            elif isinstance(old, ast.AST):
                nv = self.visit(old)
                if nv is None:
                    delattr(node, field)
                else:
                    setattr(node, field, nv)
        return node


_INLINERS: Dict[int, Inliner] = {}


def inliner(project: Project) -> Inliner:
    i = _INLINERS.get(id(project))
    if i is None:
        i = _INLINERS[id(project)] = Inliner(project)
    return i


def inlined(project: Project, fi: FunctionInfo) -> ast.AST:
    return inliner(project).inlined(fi)
