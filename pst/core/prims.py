"""Primitive table of the symbolic evaluator: one entry per external callable persim uses.
This table is the trusted base: each entry states the primitive's value law in normal-form terms."""
from __future__ import annotations

import math
from typing import Dict, List

from . import arrays, sym
from .sym import Expr
from .values import (PSet, Alt, Arr, Bag, Blocks, Concat, DiagMat, DictV, FuncV, ModV, NoneV, ObjV, Sc, Seq, Space, StrV,
                     Unknown, Val, fix, fresh, generic_elem, rng, rows, shape_of)

CONSTANTS = {
    "numpy.pi": sym.Num(math.pi), "numpy.inf": sym.INF, "numpy.e": sym.Num(math.e), "math.pi": sym.Num(math.pi),
    "numpy.nan": sym.Num(float("nan")), "math.inf": sym.INF, "numpy.newaxis": None, "numpy.Inf": sym.INF,
}
TYPES = {"numpy.float32", "numpy.float64", "numpy.int8", "numpy.int16", "numpy.int32", "numpy.int64", "numpy.uint",
         "numpy.integer", "numpy.ndarray", "builtins.int", "builtins.float", "builtins.list", "builtins.tuple",
         "builtins.str", "builtins.dict", "typing.Iterable", "builtins.bool"}

TABLE: Dict[str, callable] = {}
METHODS: Dict[str, callable] = {}


def prim(*names):
    def deco(f):
        for n in names:
            TABLE[n] = f
        return f
    return deco


def method(*names):
    def deco(f):
        for n in names:
            METHODS[n] = f
        return f
    return deco


def _kw(kwargs, pos, name, i, default=None):
    if name in kwargs:
        return kwargs[name]
    if i is not None and i < len(pos):
        return pos[i]
    return default


def _num(v) -> float:
    if isinstance(v, Sc) and v.e[0] == "num":
        return v.e[1]
    return None


def _dtype_wrap(interp, v: Val, kwargs) -> Val:
    dt = kwargs.get("dtype")
    if isinstance(dt, FuncV) and dt.target == "numpy.float32":
        return arrays.unop(lambda e: sym.fn("float32", e), v)
    return v


# ----------------------------------------------------------------------------- constructors / conversions

@prim("numpy.array", "numpy.asarray", "numpy.copy", "numpy.ascontiguousarray", "numpy.asanyarray", "numpy.asarray_chkfinite")
def p_array(I, n, pos, kw):
    v = pos[0] if pos else kw.get("object", kw.get("a"))
    if isinstance(v, Alt):
        return Alt([p_array(I, n, [x], kw) for x in v.vals])
    a = arrays.to_arr(v)
    if a is None:
        if isinstance(v, Arr):
            a = v
        elif isinstance(v, Bag):
            return v
        else:
            return I.unknown("np.array-of-" + type(v).__name__, n, (generic_elem(v),))
    if isinstance(a, Arr):
        a = Arr(a.axes, a.elem, "nd")
    if isinstance(a, Concat):
        return Bag(generic_elem(a), None, False, None, a.parts)
    return _dtype_wrap(I, a, kw)


def _shape_arg(I, v: Val) -> List[Expr]:
    if isinstance(v, Sc):
        return [v.e]
    if isinstance(v, Seq):
        out = []
        for x in v.items:
            if not isinstance(x, Sc):
                return None
            out.append(x.e)
        return out
    return None


def _filled(I, n, pos, kw, value: Expr):
    shp = _shape_arg(I, pos[0] if pos else kw.get("shape"))
    if shp is None:
        return I.unknown("shape-argument", n)
    return Arr([(rng(s), fresh()) for s in shp], value, "nd")


@prim("numpy.zeros")
def p_zeros(I, n, pos, kw):
    return _filled(I, n, pos, kw, sym.ZERO)


@prim("numpy.ones")
def p_ones(I, n, pos, kw):
    return _filled(I, n, pos, kw, sym.ONE)


@prim("numpy.full")
def p_full(I, n, pos, kw):
    fv = _kw(kw, pos, "fill_value", 1)
    if not isinstance(fv, Sc):
        return I.unknown("np.full-value", n)
    return _filled(I, n, pos[:1], kw, fv.e)


@prim("numpy.zeros_like", "numpy.ones_like")
def p_like(I, n, pos, kw):
    if "shape" in kw and not isinstance(kw["shape"], NoneV):
        # *_like(a, shape=...): only the dtype is a's; the shape is the one asked for
        return _filled(I, n, [kw["shape"]], {}, sym.ZERO if "zeros" in I.log[-1]["target"] else sym.ONE)
    a = arrays.to_arr(pos[0])
    if isinstance(a, (Blocks, DiagMat)):
        a = arrays.densify(a)
    if isinstance(a, Arr):
        return Arr(a.axes, sym.ZERO if "zeros" in I.log[-1]["target"] else sym.ONE, "nd")
    return I.unknown("like", n)


@prim("numpy.fill_diagonal")
def p_fill_diagonal(I, n, pos, kw):
    import ast
    target, val = pos[0], pos[1]
    tnode = n.args[0] if n.args else next((k.value for k in n.keywords if k.arg == "a"), None)
    name = tnode.id if isinstance(tnode, ast.Name) else None
    if name is None and isinstance(target, Arr):
        I.lose("np.fill_diagonal on something that is not a plain variable", n)
    env = I.frames[-1].env
    I.event("fill_diagonal", n, target=target, value=val)
    if isinstance(target, Arr) and target.ndim == 2 and name:
        (s0, i0), (s1, i1) = target.axes
        if not s0.same_size(s1):
            I.event("shape-error", n, message="fill_diagonal on a non-square array")
        off = target.elem
        iv = fresh()
        if isinstance(val, Sc):
            on = val.e
        else:
            a = arrays.to_arr(val)
            if not isinstance(a, Arr) or a.ndim != 1:
                env[name] = I.unknown("fill_diagonal-value", n)
                return NoneV()
            sp, aiv = a.axes[0]
            if not sp.same_size(s0):
                I.event("shape-error", n, message=f"fill_diagonal: {sym.show(sp.size)} values for a diagonal of "
                                                  f"{sym.show(s0.size)}")
            on = sym.subst_ivar(a.elem, aiv, (iv, 0))
        if sym.free_ivars(off) & {i0, i1}:
            env[name] = I.unknown("fill_diagonal-on-nonconstant", n)
            return NoneV()
        if on == off:
            return NoneV()
        env[name] = DiagMat(s0.size, iv, on, off)
        return NoneV()
    if isinstance(target, Blocks) and name and isinstance(val, Sc):
        # diagonal of an assembled matrix overwritten by a scalar: only value 0 on a zero base is modelled
        if val.e == sym.ZERO and target.base == sym.ZERO and not target.stores:
            return NoneV()
    if name:
        env[name] = I.unknown("fill_diagonal", n)
    return NoneV()


@prim("numpy.linspace")
def p_linspace(I, n, pos, kw):
    start, stop = _kw(kw, pos, "start", 0), _kw(kw, pos, "stop", 1)
    num = _kw(kw, pos, "num", 2, Sc(sym.Num(50)))
    endpoint = kw.get("endpoint", Sc(sym.TRUE))
    retstep = kw.get("retstep", Sc(sym.FALSE))
    if not all(isinstance(x, Sc) for x in (start, stop, num, endpoint)):
        return I.unknown("linspace-args", n)
    ep = endpoint.e == sym.TRUE
    div_ = sym.sub(num.e, sym.ONE) if ep else num.e
    step = sym.div(sym.sub(stop.e, start.e), div_)
    iv = fresh()
    sp = rng(num.e)
    # node k = start + k*step
    elem = sym.add(start.e, sym.mul(sym.IV(iv), step))
    arr = Arr([(sp, iv)], elem, "nd")
    I.event("linspace", n, start=start.e, stop=stop.e, num=num.e, endpoint=ep, step=step, result=arr)
    if isinstance(retstep, Sc) and retstep.e == sym.TRUE:
        return Seq([arr, Sc(step)], "tuple")
    return arr


@prim("numpy.arange")
def p_arange(I, n, pos, kw):
    if len(pos) == 1 and isinstance(pos[0], Sc):
        iv = fresh()
        return Arr([(rng(pos[0].e), iv)], sym.IV(iv), "nd")
    if len(pos) in (2, 3) and all(isinstance(x, Sc) for x in pos):
        lo, hi = pos[0].e, pos[1].e
        step = pos[2].e if len(pos) == 3 else sym.ONE
        integral = all(x[0] in ("num", "size", "iv") and (x[0] != "num" or float(x[1]).is_integer()) for x in (lo, hi, step))
        count = sym.fn("ceil", sym.div(sym.sub(hi, lo), step)) if not integral else sym.div(sym.sub(hi, lo), step)
        iv = fresh()
        I.event("arange", n, lo=lo, hi=hi, step=step, integral=integral, count=count)
        return Arr([(rng(count), iv)], sym.add(lo, sym.mul(sym.IV(iv), step)), "nd")
    return I.unknown("arange", n)


@prim("builtins.range")
def p_range(I, n, pos, kw):
    if len(pos) == 1:
        lo, hi = Sc(sym.ZERO), pos[0]
    elif len(pos) == 2:
        lo, hi = pos
    elif len(pos) == 3 and all(isinstance(x, Sc) and x.e is not None for x in pos):
        lo, hi, st = pos
        if st.e == sym.ONE:
            return ObjV(None, dict(lo=lo, hi=hi), tag="range")
        # a strided range (chunked processing): positions lo, lo+step, ... below hi; step must be known positive
        if st.e[0] == "num" and st.e[1] > 0 and float(st.e[1]).is_integer() or (st.e[0] == "sym" and st.e[1].startswith("$chunk")):
            return ObjV(None, dict(lo=lo, hi=hi, step=st), tag="strided-range")
        return I.unknown("range-step", n)
    else:
        return I.unknown("range-step", n)
    if not (isinstance(lo, Sc) and isinstance(hi, Sc)):
        return I.unknown("range-args", n)
    return ObjV(None, dict(lo=lo, hi=hi), tag="range")


@prim("builtins.super")
def p_super(I, n, pos, kw):
    fr = I.frames[-1]
    cls = fr.fi.cls
    params = fr.fi.params
    if cls is None or not params or params[0] not in fr.env:
        return I.unknown("super-outside-method", n)
    return ObjV(None, dict(cls=cls, self=fr.env[params[0]]), tag="super")


@prim("builtins.enumerate")
def p_enumerate(I, n, pos, kw):
    start = kw.get("start", pos[1] if len(pos) > 1 else None)
    if start is not None and not (isinstance(start, Sc) and start.e == sym.ZERO):
        if isinstance(start, Sc) and start.e[0] == "num" and float(start.e[1]).is_integer():
            return ObjV(None, dict(inner=pos[0], start=int(start.e[1])), tag="enumerate")
        return I.unknown("enumerate-start", n)
    return ObjV(None, dict(inner=pos[0]), tag="enumerate")


@prim("joblib.delayed", "joblib.parallel.delayed")
def p_delayed(I, n, pos, kw):
    # delayed(f) — calling the result records (f, args, kwargs) for Parallel to run
    return ObjV(None, dict(func=pos[0]), tag="delayed")


@prim("joblib.Parallel", "joblib.parallel.Parallel")
def p_parallel(I, n, pos, kw):
    # Parallel(n_jobs=...) — calling the result on an iterable of delayed calls runs them and returns the results in
    # the order of the iterable (joblib's documented contract; trusted)
    return ObjV(None, dict(kwargs=dict(kw)), tag="parallel")


@prim("builtins.getattr")
def p_getattr(I, n, pos, kw):
    if len(pos) >= 2 and isinstance(pos[1], StrV):
        if isinstance(pos[0], ObjV) and len(pos) == 3 and pos[1].s not in pos[0].attrs:
            c = I.p.classes.get(pos[0].cls) if pos[0].cls else None
            if c is None or c.lookup(pos[1].s, I.p) is None:
                return pos[2]   # neither an instance attribute set so far nor a member of the class: the default
        return I.attribute(pos[0], pos[1].s, n, {})
    return I.unknown("getattr-dynamic-name", n)


@prim("builtins.setattr")
def p_setattr(I, n, pos, kw):
    if len(pos) == 3 and isinstance(pos[1], StrV):
        I.set_attribute(pos[0], pos[1].s, pos[2], n)
        return NoneV()
    I.lose("setattr with a name that is not a constant string", n)
    return I.unknown("setattr-dynamic-name", n)


@prim("builtins.hasattr")
def p_hasattr(I, n, pos, kw):
    if len(pos) == 2 and isinstance(pos[1], StrV) and isinstance(pos[0], ObjV):
        if pos[1].s in pos[0].attrs:
            return Sc(sym.TRUE)
        c = I.p.classes.get(pos[0].cls) if pos[0].cls else None
        if c is not None and c.lookup(pos[1].s, I.p) is not None:
            return Sc(sym.TRUE)
        return Sc(sym.FALSE)
    if len(pos) == 2 and isinstance(pos[1], StrV) and pos[1].s in ("__iter__", "__len__", "__getitem__"):
        # the container protocols of the values the evaluator knows the Python type of
        if isinstance(pos[0], (Seq, Concat, DictV, StrV)) or (isinstance(pos[0], (Arr, Blocks, DiagMat)) and shape_of(pos[0]) != []):
            return Sc(sym.TRUE)
        if isinstance(pos[0], (Sc, NoneV)) and not (isinstance(pos[0], Sc) and pos[0].e is not None and pos[0].e[0] == "str"):
            return Sc(sym.FALSE)
    return Sc(sym.Opq("config", (), fresh("hasattr")))


@prim("itertools.chain.from_iterable", "itertools.chain")
def p_chain(I, n, pos, kw):
    """the items of the given lists one after the other (lists of known length only)"""
    tgt = I.log[-1]["target"]
    parts = pos[0].items if tgt.endswith("from_iterable") and pos and isinstance(pos[0], Seq) else (pos if not tgt.endswith("from_iterable") else None)
    if parts is None:
        return I.unknown("prim:" + tgt, n)
    out = []
    for x in parts:
        if isinstance(x, Seq):
            out.extend(x.items)
            continue
        items = _concrete_items(I, x, n)
        if items is None and isinstance(x, Arr) and x.axes[0][0].concrete is not None:
            items = [arrays.index(x, [("int", k)]) for k in range(x.axes[0][0].concrete)]
        if items is None:
            return I.unknown("prim:" + tgt, n)
        out.extend(items)
    return Seq(out, "list")


def _concrete_items(I, v, n):
    """the items of a list / tuple / small concrete range, or None"""
    if isinstance(v, Seq):
        return list(v.items)
    if isinstance(v, ObjV) and v.tag == "lazy-map":
        return _realise_map(I, v, n)
    if isinstance(v, ObjV) and v.tag in ("range", "strided-range", "zip", "enumerate"):
        sp, iv, elem = I.iteration(v, n)
        if sp is None:
            return list(elem)
    return None


@prim("itertools.combinations", "itertools.product", "itertools.permutations", "itertools.combinations_with_replacement")
def p_itertools_tuples(I, n, pos, kw):
    """tuples of items of concrete sequences, in itertools' order"""
    import itertools as _it
    tgt = I.log[-1]["target"].rsplit(".", 1)[1]
    if tgt == "product":
        seqs = [_concrete_items(I, v, n) for v in pos]
        rep_ = kw.get("repeat")
        if any(x is None for x in seqs) or not seqs:
            return I.unknown("prim:itertools.product", n)
        if rep_ is not None:
            if not (isinstance(rep_, Sc) and rep_.e[0] == "num"):
                return I.unknown("prim:itertools.product", n)
            seqs = seqs * int(rep_.e[1])
        total = 1
        for x in seqs:
            total *= max(1, len(x))
        if total > 200:
            return I.unknown("prim:itertools.product", n)
        return Seq([Seq(list(t), "tuple") for t in _it.product(*seqs)], "list")
    items = _concrete_items(I, pos[0], n) if pos else None
    r = pos[1] if len(pos) > 1 else kw.get("r")
    if items is None or (r is not None and not (isinstance(r, Sc) and r.e is not None and r.e[0] == "num")):
        return I.unknown("prim:itertools." + tgt, n)
    k = int(r.e[1]) if r is not None else len(items)
    if len(items) > 8:
        return I.unknown("prim:itertools." + tgt, n)
    f = getattr(_it, tgt)
    return Seq([Seq(list(t), "tuple") for t in f(items, k)], "list")


@prim("dataclasses.replace")
def p_dc_replace(I, n, pos, kw):
    """replace(obj, **changes): a new instance built from obj's constructor fields with the changes applied (the generated
    __init__, and with it __post_init__, runs again)"""
    o = pos[0] if pos else None
    if not (isinstance(o, ObjV) and o.cls and getattr(o, "record", None)):
        return I.unknown("prim:dataclasses.replace", n)
    args = {k: o.attrs[k] for k in o.record[1]}
    for k, v in kw.items():
        if k not in args:
            return I.unknown("prim:dataclasses.replace-field", n)
        args[k] = v
    return I.construct(o.cls, [], args, n)


@prim("builtins.object.__setattr__")
def p_object_setattr(I, n, pos, kw):
    if len(pos) == 3 and isinstance(pos[1], StrV):
        I.set_attribute(pos[0], pos[1].s, pos[2], n)
        return NoneV()
    I.lose("object.__setattr__ with a name that is not a constant string", n)
    return I.unknown("setattr-dynamic-name", n)


@method("_replace")
def m_nt_replace(I, n, recv, pos, kw):
    if isinstance(recv, ObjV) and recv.cls and getattr(recv, "record", None):
        args = {k: recv.attrs[k] for k in recv.record[1]}
        for k, v in kw.items():
            if k not in args:
                return I.unknown("_replace-field", n)
            args[k] = v
        return I.construct(recv.cls, [], args, n)
    return I.unknown("method:_replace", n)


@prim("functools.partial")
def p_partial(I, n, pos, kw):
    """partial(f, *args, **kw): a callable that remembers them"""
    if not pos or not isinstance(pos[0], FuncV):
        return I.unknown("prim:functools.partial", n)
    fv = FuncV("partial", (pos[0], list(pos[1:]), dict(kw)))
    return fv


@prim("itertools.accumulate")
def p_accumulate(I, n, pos, kw):
    """running sums of a list of known numbers / scalars (default addition only)"""
    if len(pos) == 1 and not kw and isinstance(pos[0], Seq) and all(isinstance(x, Sc) and x.e is not None for x in pos[0].items):
        out, acc = [], None
        for x in pos[0].items:
            acc = x.e if acc is None else sym.add(acc, x.e)
            out.append(Sc(acc))
        return Seq(out, "list")
    return I.unknown("prim:itertools.accumulate", n)


@prim("itertools.zip_longest")
def p_zip_longest(I, n, pos, kw):
    fill = kw.get("fillvalue", NoneV())
    if pos and all(isinstance(x, Seq) for x in pos):
        m = max(len(x.items) for x in pos)
        return Seq([Seq([x.items[k] if k < len(x.items) else fill for x in pos], "tuple") for k in range(m)], "list")
    return I.unknown("prim:itertools.zip_longest", n)


@prim("builtins.slice")
def p_slice(I, n, pos, kw):
    """slice(stop) / slice(start, stop[, step]) as a value: used as an index it is the slice it spells"""
    def b(v):
        if v is None or isinstance(v, NoneV):
            return None
        return v.e if isinstance(v, Sc) and v.e is not None else False
    if len(pos) == 1:
        parts = [None, b(pos[0]), None]
    elif len(pos) in (2, 3):
        parts = [b(pos[0]), b(pos[1]), b(pos[2]) if len(pos) == 3 else None]
    else:
        return I.unknown("prim:builtins.slice", n)
    if any(x is False for x in parts):
        import os
        if os.environ.get("PST_DBG"):
            print("SLICEDBG", [repr(x)[:100] for x in pos], file=__import__("sys").stderr)
        return I.unknown("prim:builtins.slice", n)
    item = ("full",) if all(x is None for x in parts) else ("slice", parts[0], parts[1], parts[2])
    return ObjV(None, dict(items=[item]), tag="slice")


@prim("builtins.iter")
def p_iter(I, n, pos, kw):
    """iter(x) over a list or the rows of an array: an iterator object that remembers how many items were taken"""
    if len(pos) == 1 and isinstance(pos[0], (Seq, Arr)):
        return ObjV(None, dict(src=pos[0], pos=0), tag="iter")
    if len(pos) == 1 and isinstance(pos[0], ObjV) and pos[0].tag == "iter":
        return pos[0]
    if len(pos) == 1 and isinstance(pos[0], ObjV) and pos[0].tag in ("zip", "enumerate", "range", "lazy-map"):
        # iter(zip(...)) and the like over sequences of known length: the items, read one by one
        I.log.append({"kind": "call", "target": "builtins.list", "node": n})
        try:
            lv = p_list(I, n, [pos[0]], {})
        finally:
            I.log.pop()
        if isinstance(lv, Seq):
            return ObjV(None, dict(src=Seq(list(lv.items), "list"), pos=0), tag="iter")
    return I.unknown("prim:builtins.iter", n)


@prim("itertools.islice")
def p_islice(I, n, pos, kw):
    """islice(it, k): the next k items (fewer when the iterator runs out) — for iterators over a known list, and lists"""
    if len(pos) == 2 and isinstance(pos[1], Sc) and pos[1].e is not None and pos[1].e[0] == "num" and float(pos[1].e[1]).is_integer() \
            and pos[1].e[1] >= 0:
        k = int(pos[1].e[1])
        it = pos[0]
        if isinstance(it, Seq):
            return Seq(list(it.items[:k]), "list")
        if isinstance(it, ObjV) and it.tag == "iter" and isinstance(it.attrs.get("src"), Seq) and not it.attrs.get("wraps") \
                and isinstance(it.attrs.get("pos"), int):
            a = it.attrs["pos"]
            items = list(it.attrs["src"].items[a:a + k])
            it.attrs["pos"] = a + len(items)
            return Seq(items, "list")
    return I.unknown("prim:itertools.islice", n)


@prim("itertools.repeat", "itertools.cycle")
def p_endless(I, n, pos, kw):
    """itertools.repeat(x[, k]) / itertools.cycle(<concrete list>): an iterator that `next` reads item by item; the endless ones
    wrap around"""
    what = I.log[-1]["target"].rsplit(".", 1)[1]
    if what == "repeat":
        times = _kw(kw, pos, "times", 1)
        if times is None or isinstance(times, NoneV):
            return ObjV(None, dict(src=Seq([pos[0]], "list"), pos=0, wraps=True), tag="iter")
        if isinstance(times, Sc) and times.e is not None and times.e[0] == "num" and float(times.e[1]).is_integer() and 0 <= times.e[1] <= 64:
            return ObjV(None, dict(src=Seq([pos[0]] * int(times.e[1]), "list"), pos=0), tag="iter")
        return I.unknown("prim:itertools.repeat", n)
    src = pos[0]
    if isinstance(src, StrV):
        src = Seq([StrV(ch) for ch in src.s], "list")
    if isinstance(src, Seq) and src.items and not hasattr(src, "appended"):
        return ObjV(None, dict(src=Seq(list(src.items), "list"), pos=0, wraps=True), tag="iter")
    return I.unknown("prim:itertools.cycle", n)


@prim("numpy.errstate", "warnings.catch_warnings", "contextlib.nullcontext", "contextlib.suppress", "numpy.printoptions")
def p_library_context(I, n, pos, kw):
    """library context managers that change no value the evaluator follows (floating-point error state is not modelled:
    exact arithmetic; warnings are effects)"""
    return ObjV(None, {}, tag="context")


@prim("warnings.simplefilter", "warnings.filterwarnings", "numpy.seterr")
def p_library_setting(I, n, pos, kw):
    return NoneV()


@prim("inspect.signature")
def p_signature(I, n, pos, kw):
    """inspect.signature(f) of a function of the package: an object whose bind() names the arguments of a call"""
    f = pos[0] if pos else None
    if isinstance(f, FuncV) and f.kind == "repo" and f.target in I.p.functions:
        return ObjV(None, {"func": f}, tag="signature")
    return I.unknown("prim:inspect.signature", n)


def _signature_bind(I, n, recv, pos, kw, partial=False):
    f = recv.attrs.get("func") if isinstance(recv, ObjV) and recv.tag == "signature" else None
    if f is None:
        return I.unknown("method:bind", n)
    node = I.p.functions[f.target].node
    a = node.args
    names = [x.arg for x in a.posonlyargs + a.args]
    if f.bound_self is not None and names:
        names = names[1:]
    if len(pos) > len(names) and not a.vararg:
        return I.unknown("bind-too-many-positional", n)
    d = {}
    for nm, v in zip(names, pos):
        d[nm] = v
    if a.vararg and len(pos) > len(names):
        d[a.vararg.arg] = Seq(list(pos[len(names):]), "tuple")
    known = set(names) | {x.arg for x in a.kwonlyargs}
    extra = {}
    for k_, v in kw.items():
        if k_ in known:
            d[k_] = v
        else:
            extra[k_] = v
    if extra:
        if not a.kwarg:
            return I.unknown("bind-unexpected-keyword", n)
        d[a.kwarg.arg] = DictV(extra)
    # arguments appear in the order of the signature
    order = names + ([a.vararg.arg] if a.vararg else []) + [x.arg for x in a.kwonlyargs] + ([a.kwarg.arg] if a.kwarg else [])
    return ObjV(None, {"arguments": DictV({k_: d[k_] for k_ in order if k_ in d}), "signature": recv}, tag="bound-arguments")


@method("bind")
def m_bind(I, n, recv, pos, kw):
    return _signature_bind(I, n, recv, pos, kw)


@method("bind_partial")
def m_bind_partial(I, n, recv, pos, kw):
    return _signature_bind(I, n, recv, pos, kw, partial=True)


@method("apply_defaults")
def m_apply_defaults(I, n, recv, pos, kw):
    if not (isinstance(recv, ObjV) and recv.tag == "bound-arguments"):
        return I.unknown("method:apply_defaults", n)
    f = recv.attrs["signature"].attrs["func"]
    fi = I.p.functions[f.target]
    a = fi.node.args
    ps = [x.arg for x in a.posonlyargs + a.args]
    dflt = dict(zip(ps[len(ps) - len(a.defaults):], a.defaults))
    dflt.update({x.arg: d for x, d in zip(a.kwonlyargs, a.kw_defaults) if d is not None})
    args = recv.attrs["arguments"]
    for nm in ps + [x.arg for x in a.kwonlyargs]:
        if nm not in args.d and nm in dflt:
            args.d[nm] = I._eval_in_module(fi.module, dflt[nm])
    return NoneV()


@prim("builtins.next")
def p_next(I, n, pos, kw):
    # next(<generator over a concrete list with decided conditions>[, default]): the comprehension is evaluated eagerly
    v = pos[0]
    if isinstance(v, ObjV) and v.tag == "iter" and v.attrs["pos"] is not None:
        src, k = v.attrs["src"], v.attrs["pos"]
        if isinstance(src, Seq):
            if v.attrs.get("wraps") and src.items:
                v.attrs["pos"] = k + 1
                return src.items[k % len(src.items)]
            if k < len(src.items):
                v.attrs["pos"] = k + 1
                return src.items[k]
            if len(pos) > 1:
                return pos[1]
            I.event("raise", n, exc="StopIteration")
            return I.unknown("prim:builtins.next", n)
        if isinstance(src, Arr):
            sp = src.axes[0][0]
            # item k exists when the axis is longer than k: known for k = 0 on a non-empty axis, otherwise not decided
            enough = I.decide(sym.Cmp(">", sp.size, sym.Num(k)))
            if enough is not True:
                I.lose("next() on an iterator that may be exhausted (StopIteration path not followed)", n)
            v.attrs["pos"] = k + 1
            return arrays.index(src, [("int", k)])
    if isinstance(v, Seq):
        if v.items:
            return v.items[0]
        if len(pos) > 1:
            return pos[1]
        I.event("raise", n, exc="StopIteration")
    return I.unknown("prim:builtins.next", n)


@prim("builtins.zip")
def p_zip(I, n, pos, kw):
    return ObjV(None, dict(items=list(pos)), tag="zip")


@prim("builtins.dict")
def p_dict(I, n, pos, kw):
    if not pos:
        return DictV({k: v for k, v in kw.items()})
    v = pos[0]
    if isinstance(v, DictV):
        d2 = DictV(dict(v.d), v.generic)   # dict(d) / dict(d, key=value): a new dictionary
        d2.keymap = getattr(v, "keymap", None)
        d2.d.update(kw)
        return d2
    if isinstance(v, ObjV) and v.tag == "zip" and len(v.attrs["items"]) == 2 and not kw:
        ks, vs = [x if isinstance(x, Arr) else arrays.to_arr(x) for x in v.attrs["items"]]
        if isinstance(ks, Arr) and isinstance(vs, Arr) and ks.ndim == 1 and vs.ndim == 1 and ks.axes[0][0].same_size(vs.axes[0][0]):
            # {keys[t]: values[t]}: a lookup by a key that is keys[x] for a known position x yields values[x]
            iv = fresh()
            dv = DictV({}, generic=Sc(sym.subst_ivar(vs.elem, vs.axes[0][1], (iv, 0))))
            dv.keymap = (sym.subst_ivar(ks.elem, ks.axes[0][1], (iv, 0)), sym.subst_ivar(vs.elem, vs.axes[0][1], (iv, 0)),
                         iv, ks.axes[0][0])
            dv.key_kind = "other"
            I.event("dict-from-zip", n, keys=ks, values=vs)
            return dv
    pairs = _concrete_items(I, v, n)
    if pairs is not None and all(isinstance(x, Seq) and len(x.items) == 2 for x in pairs):
        d = {}
        for x in pairs:
            k_, v_ = x.items
            if isinstance(k_, StrV) and k_.s not in ("<formatted>", "<f-string>"):
                d[k_.s] = v_
            elif isinstance(k_, Sc) and k_.e is not None and k_.e[0] == "num":
                d[k_.e[1]] = v_
            else:
                return I.unknown("prim:builtins.dict", n)
        d.update({k: v for k, v in kw.items()})
        return DictV(d)
    return I.unknown("prim:builtins.dict", n)


@prim("builtins.list", "builtins.tuple")
def p_list(I, n, pos, kw):
    as_list = I.log[-1].get("target", "builtins.list").endswith("list")
    if not pos:
        return Seq([], "list" if as_list else "tuple")
    v = pos[0]
    if isinstance(v, Seq):
        return Seq(list(v.items), "list")
    if isinstance(v, ObjV) and v.tag == "lazy-map":
        items = _realise_map(I, v, n)
        if items is not None:
            return Seq(items, "list" if as_list else "tuple")
    if isinstance(v, ObjV) and v.tag in ("zip", "enumerate", "range", "lazy-map"):
        sp, iv, elem = I.iteration(v, n)
        if sp is None:
            return Seq(elem, "list")
        return I._list_from_items(elem(), sp, iv)
    if isinstance(v, Arr) and v.ndim == 1 and v.axes[0][0].concrete is not None and I.cfg.flags.get("order_model") is not None:
        sp, iv = v.axes[0]
        return Seq([Sc(sym.subst_ivar(v.elem, iv, k)) for k in range(sp.concrete)], "list")
    if isinstance(v, Arr) and v.ndim >= 2 and v.axes[0][0].concrete is not None and I.cfg.flags.get("order_model") is not None:
        # list(<2-d array of known height>): the python list of its rows
        return Seq([arrays.index(v, [("int", k)]) for k in range(v.axes[0][0].concrete)], "list")
    if isinstance(v, Arr):
        return Arr(v.axes, v.elem, "list", v.uid)
    if isinstance(v, (Bag, Concat)):
        return v
    if isinstance(v, ObjV) and (v.cls or v.tag == "iter"):
        # list(obj): what iterating the object gives (its __iter__ / __getitem__), when that is a concrete sequence
        sp, iv, elem = I.iteration(v, n)
        if sp is None:
            return Seq(list(elem), "list" if as_list else "tuple")
        if not (isinstance(sp.size, tuple) and any(x[0] == "opq" for x in sym.walk(sp.size))):
            return I._list_from_items(elem(), sp, iv)
    return I.unknown("list-of-" + type(v).__name__, n, (generic_elem(v),))


@prim("builtins.len")
def p_len(I, n, pos, kw):
    v = pos[0]
    if isinstance(v, Seq):
        return Sc(sym.Num(len(v.items)))
    if isinstance(v, DictV) and v.generic is None:
        return Sc(sym.Num(len(v.d)))
    if isinstance(v, Arr):
        return Sc(v.axes[0][0].size)
    if isinstance(v, Blocks):
        return Sc(v.shape[0])
    if isinstance(v, DiagMat):
        return Sc(v.n)
    if isinstance(v, Bag):
        return Sc(v.size if v.size is not None else sym.Opq("len", (v.elem,), fresh("n")))
    if isinstance(v, Concat):
        out = sym.ZERO
        for p in v.parts:
            r = p_len(I, n, [p], {})
            out = sym.add(out, r.e)
        return Sc(out)
    if isinstance(v, ObjV) and v.cls:
        c = I.p.classes.get(v.cls)
        m = c.lookup("__len__", I.p) if c is not None else None
        if m is not None:
            return I.call_function(m, [v], {}, n)
    if isinstance(v, ObjV) and v.tag == "hk_matching":
        if "len_expr" in v.attrs:
            return Sc(v.attrs["len_expr"])
        return Sc(sym.Opq("hk_len", v.attrs.get("deps", ()), v.attrs.get("uid")))
    if isinstance(v, ObjV) and v.tag == "bucket":
        root = v.attrs["root"]
        return Sc(sym.Opq("bucket-len", (v.attrs["index"],), root.uid or id(root)))
    if isinstance(v, Alt):
        return Sc(sym.Choice([p_len(I, n, [x], {}).e for x in v.vals]))
    return Sc(sym.Opq("len", (generic_elem(v),), fresh("n")))


@prim("builtins.isinstance")
def p_isinstance(I, n, pos, kw):
    v, t = pos
    names = []
    for x in (t.items if isinstance(t, Seq) else [t]):
        if isinstance(x, FuncV):
            names.append(x.target)
    def is_(name):
        if name == "builtins.list":
            return (isinstance(v, Seq) and v.kind != "tuple") or isinstance(v, Concat) or (isinstance(v, Arr) and v.kind == "list")
        if name == "builtins.tuple":
            return isinstance(v, Seq) and v.kind == "tuple"
        if name == "numpy.ndarray":
            return isinstance(v, (Arr, Blocks, DiagMat)) and getattr(v, "kind", "nd") == "nd"
        if name in ("builtins.int", "builtins.float", "numbers.Number", "numbers.Real", "numbers.Complex", "numpy.number",
                    "numpy.floating", "numpy.integer"):
            # a scalar the evaluator follows as a number (whether it is integral is not tracked: int / float / Number only)
            return isinstance(v, Sc) and v.e[0] not in ("bool", "str")
        if name in ("collections.abc.Iterable", "collections.abc.Sequence", "collections.abc.Sized"):
            return isinstance(v, (Seq, Arr, Concat, Bag, Blocks, DiagMat, DictV, StrV))
        if name == "builtins.str":
            return isinstance(v, StrV)
        if name == "builtins.dict":
            return isinstance(v, DictV)
        if name in ("collections.abc.Iterator", "typing.Iterator", "collections.abc.Generator", "typing.Generator",
                    "types.GeneratorType"):
            # containers are iterable, not iterators; the evaluator's iterator objects are
            if isinstance(v, ObjV) and v.tag in ("iter", "lazy-map", "zip", "enumerate"):
                return True
            return False if isinstance(v, (Seq, Arr, Concat, Bag, Blocks, DiagMat, DictV, StrV, Sc, NoneV)) else None
        if name in ("builtins.bytes", "builtins.bytearray", "builtins.set", "builtins.frozenset"):
            return False if isinstance(v, (Seq, Arr, Concat, Blocks, DiagMat, DictV, StrV, Sc, NoneV)) else None
        if name == "typing.Iterable":
            return isinstance(v, (Seq, Arr, Concat, Bag, Blocks, DiagMat, DictV, StrV))
        if name in I.p.classes:
            if isinstance(v, ObjV) and v.cls:
                c = I.p.classes.get(v.cls)
                return any(k.qualname == name for k in c.mro(I.p))
            return False
        return None
    rs = [is_(x) for x in names]
    if isinstance(v, (Unknown, Alt)) or any(r is None for r in rs) or not names:
        return Sc(sym.Opq("config", (), fresh("isinstance")))
    return Sc(sym.Bool(any(rs)))


@prim("builtins.callable")
def p_callable(I, n, pos, kw):
    return Sc(sym.Bool(isinstance(pos[0], FuncV)))


@prim("builtins.print", "warnings.warn")
def p_effect(I, n, pos, kw):
    I.event("warn" if I.log[-1]["target"] == "warnings.warn" else "print", n)
    return NoneV()


# ---------------------------------------------------------------- diagnostics: logging and clocks
# A logger is an effect sink: what it is handed does not come back into the computation.  Whether a level is enabled is
# not known to the analysis, so `isEnabledFor` is an opaque condition and both arms of a test on it are followed.
CONSTANTS.update({"logging.DEBUG": sym.Num(10), "logging.INFO": sym.Num(20), "logging.WARNING": sym.Num(30),
                  "logging.ERROR": sym.Num(40), "logging.CRITICAL": sym.Num(50), "logging.NOTSET": sym.Num(0)})


@prim("logging.getLogger")
def p_get_logger(I, n, pos, kw):
    return ObjV(None, {}, tag="logger")


@prim("logging.NullHandler", "logging.StreamHandler", "logging.Formatter")
def p_log_handler(I, n, pos, kw):
    return ObjV(None, {}, tag="log-handler")


def _logger_method(name):
    def h(I, n, recv, pos, kw):
        if not (isinstance(recv, ObjV) and recv.tag in ("logger", "log-handler")):
            return I.unknown("method:" + name, n)
        if name in ("isEnabledFor", "getEffectiveLevel", "hasHandlers"):
            return Sc(sym.Opq("log-config", (), fresh("lg")))
        if name == "getChild":
            return ObjV(None, {}, tag="logger")
        I.event("log", n, method=name)
        return NoneV()
    return h


for _m in ("debug", "info", "warning", "error", "exception", "critical", "log", "addHandler", "removeHandler", "setLevel",
           "isEnabledFor", "getEffectiveLevel", "hasHandlers", "getChild", "setFormatter"):
    if _m not in METHODS:
        METHODS[_m] = _logger_method(_m)


@prim("time.perf_counter", "time.time", "time.monotonic", "time.process_time", "time.perf_counter_ns")
def p_clock(I, n, pos, kw):
    # a clock reading: a number the data does not determine (C19's PU-RNG decides where one may be taken)
    return Sc(sym.Opq("clock", (), fresh("clk")))


@prim("builtins.int", "builtins.float", "builtins.bool")
def p_number(I, n, pos, kw):
    t = I.log[-1]["target"]
    v = pos[0]
    if not isinstance(v, Sc):
        return I.unknown("number-of-" + type(v).__name__, n)
    if t == "builtins.float":
        return v
    if t == "builtins.bool":
        return Sc(I.truth(v))
    if v.e[0] in ("bool",):
        return Sc(sym.Num(1.0 if v.e[1] else 0.0))
    if v.e[0] in ("cmp", "and", "or", "not"):
        return Sc(sym.ITE(v.e, sym.ONE, sym.ZERO))
    if v.e[0] == "iv" or v.e[0] == "size":
        return v
    if v.e[0] == "fn" and v.e[1] in ("ceil", "floor", "round", "rint"):
        return v
    return Sc(sym.fn("int", v.e))


@prim("builtins.str", "builtins.repr")
def p_str(I, n, pos, kw):
    if pos and isinstance(pos[0], StrV):
        return pos[0]
    if len(pos) == 1 and not kw and isinstance(pos[0], Sc) and pos[0].e is not None:
        return StrV("<formatted>", arg=pos[0].e)
    return StrV("<formatted>")


@prim("builtins.round")
def p_round(I, n, pos, kw):
    if isinstance(pos[0], Sc) and len(pos) == 1:
        return Sc(sym.fn("round", pos[0].e))
    return I.unknown("round", n)


@prim("numpy.round", "numpy.around", "numpy.round_")
def p_np_round(I, n, pos, kw):
    dec = kw.get("decimals", pos[1] if len(pos) > 1 else None)
    if dec is not None and not (isinstance(dec, Sc) and dec.e == sym.ZERO):
        return I.unknown("round-decimals", n)
    return arrays.unop(lambda e: sym.fn("rint", e), pos[0])


@prim("numpy.isclose", "math.isclose")
def p_isclose(I, n, pos, kw):
    """|a − b| <= atol + rtol·|b| (numpy's defaults 1e-8 and 1e-5; math.isclose: rel_tol 1e-9 of the larger, abs_tol 0)"""
    if len(pos) < 2:
        return I.unknown("isclose-arity", n)
    tgt = I.log[-1].get("target", "numpy.isclose") if I.log else "numpy.isclose"

    def num(v, default):
        if v is None:
            return sym.Num(default)
        return v.e if isinstance(v, Sc) and v.e is not None else None
    if tgt.startswith("math."):
        rt, at = num(kw.get("rel_tol"), 1e-9), num(kw.get("abs_tol"), 0.0)
    else:
        rt, at = num(kw.get("rtol", pos[2] if len(pos) > 2 else None), 1e-5), num(kw.get("atol", pos[3] if len(pos) > 3 else None), 1e-8)
    if rt is None or at is None:
        return I.unknown("isclose-tolerance", n)
    if tgt.startswith("math."):
        f = lambda a, b: sym.Cmp("<=", sym.fn("abs", sym.sub(a, b)),
                                 sym.fn("max", sym.mul(rt, sym.fn("max", sym.fn("abs", a), sym.fn("abs", b))), at))
    else:
        f = lambda a, b: sym.Cmp("<=", sym.fn("abs", sym.sub(a, b)), sym.add(at, sym.mul(rt, sym.fn("abs", b))))
    I.event("tolerance", n, a=pos[0], b=pos[1])
    return arrays.binop(f, pos[0], pos[1])


@prim("builtins.abs", "numpy.abs", "numpy.absolute", "numpy.fabs")
def p_abs(I, n, pos, kw):
    return arrays.unop(lambda e: sym.fn("abs", e), pos[0])


def _elementwise(name):
    def h(I, n, pos, kw):
        I.event("transcendental", n, fn=name, arg=pos[0])
        return arrays.unop(lambda e: sym.fn(name, e), pos[0])
    return h


for _n in ("exp", "log", "log2", "log10", "sin", "cos", "tan", "arcsin", "arccos", "arctan", "floor", "ceil", "sign",
           "rint"):
    TABLE["numpy." + _n] = _elementwise(_n)
    TABLE["math." + _n] = _elementwise(_n)
TABLE["scipy.special.erfc"] = _elementwise("erfc")
TABLE["scipy.special.erf"] = _elementwise("erf")
TABLE["numpy.isfinite"] = lambda I, n, pos, kw: arrays.unop(
    lambda e: sym.TRUE if I._finite(e) else sym.fn("isfinite", e), pos[0])
TABLE["numpy.isinf"] = lambda I, n, pos, kw: arrays.unop(
    lambda e: sym.FALSE if I._finite(e) else sym.fn("isinf", e), pos[0])
# a finite number is not NaN; for anything else whether it is NaN is an opaque fact about the input
TABLE["numpy.isnan"] = lambda I, n, pos, kw: arrays.unop(
    lambda e: sym.FALSE if I._finite(e) else sym.Opq("isnan", (e,), None), pos[0])
TABLE["math.isnan"] = TABLE["numpy.isnan"]
TABLE["math.isinf"] = TABLE["numpy.isinf"]
TABLE["math.isfinite"] = TABLE["numpy.isfinite"]


@prim("numpy.sqrt", "math.sqrt")
def p_sqrt(I, n, pos, kw):
    I.event("sqrt", n, arg=pos[0])
    return arrays.unop(lambda e: sym.fn("sqrt", e), pos[0])


@prim("numpy.square")
def p_square(I, n, pos, kw):
    I.event("pow", n, base=pos[0], exponent=Sc(sym.Num(2)))
    return arrays.unop(lambda e: sym.power(e, sym.Num(2)), pos[0])


@prim("numpy.negative")
def p_negative(I, n, pos, kw):
    return arrays.unop(sym.neg, pos[0])


@prim("numpy.reciprocal")
def p_reciprocal(I, n, pos, kw):
    return arrays.unop(lambda e: sym.div(sym.ONE, e), pos[0])


@prim("numpy.hypot")
def p_hypot(I, n, pos, kw):
    return arrays.binop(lambda a, b: sym.fn("sqrt", sym.add(sym.power(a, sym.Num(2)), sym.power(b, sym.Num(2)))), pos[0], pos[1])


@prim("numpy.float64", "numpy.float_", "numpy.double", "numpy.asfarray")
def p_float64(I, n, pos, kw):
    return pos[0] if pos else Sc(sym.ZERO)


@prim("numpy.linalg.norm")
def p_norm(I, n, pos, kw):
    v = pos[0]
    axis = kw.get("axis", pos[2] if len(pos) > 2 else None)
    order = kw.get("ord", pos[1] if len(pos) > 1 else None)
    a = arrays.to_arr(v) if not isinstance(v, Arr) else v
    if not isinstance(a, Arr):
        return I.unknown("linalg.norm", n)
    o = None if order is None or isinstance(order, NoneV) else (_num(order) if isinstance(order, Sc) else "?")
    if isinstance(order, Sc) and order.e == sym.INF:
        o = "inf"
    if o in (None, 2.0):
        sq = arrays.unop(lambda e: sym.power(e, sym.Num(2)), a)
        red = arrays.reduce_all(sq, "sum") if axis is None or isinstance(axis, NoneV) else arrays.reduce_axis(sq, int(_num(axis)), "sum")
        return arrays.unop(lambda e: sym.fn("sqrt", e), red)
    if o == 1.0:
        ab = arrays.unop(lambda e: sym.fn("abs", e), a)
        return arrays.reduce_all(ab, "sum") if axis is None or isinstance(axis, NoneV) else arrays.reduce_axis(ab, int(_num(axis)), "sum")
    if o == "inf":
        ab = arrays.unop(lambda e: sym.fn("abs", e), a)
        return arrays.reduce_all(ab, "max") if axis is None or isinstance(axis, NoneV) else arrays.reduce_axis(ab, int(_num(axis)), "max")
    return I.unknown("linalg.norm-ord", n)


@prim("numpy.mean")
def p_mean(I, n, pos, kw):
    v = pos[0]
    axis = kw.get("axis", pos[1] if len(pos) > 1 else None)
    a = arrays.to_arr(v) if not isinstance(v, Arr) else v
    if not isinstance(a, Arr):
        return I.unknown("mean", n)
    if axis is None or isinstance(axis, NoneV):
        tot = arrays.reduce_all(a, "sum")
        cnt = sym.ONE
        for sp, _ in a.axes:
            cnt = sym.mul(cnt, sp.size)
        return arrays.unop(lambda e: sym.div(e, cnt), tot)
    k = int(_num(axis))
    tot = arrays.reduce_axis(a, k, "sum")
    return arrays.unop(lambda e: sym.div(e, a.axes[k][0].size), tot)


@prim("numpy.eye", "numpy.identity")
def p_eye(I, n, pos, kw):
    if pos and isinstance(pos[0], Sc):
        dt = kw.get("dtype")
        if isinstance(dt, FuncV) and dt.target in ("builtins.bool", "numpy.bool_"):
            return DiagMat(pos[0].e, fresh(), sym.TRUE, sym.FALSE)
        return DiagMat(pos[0].e, fresh(), sym.ONE, sym.ZERO)
    return I.unknown("eye", n)


_INT_RANGES = {"int8": (-2 ** 7, 2 ** 7 - 1), "int16": (-2 ** 15, 2 ** 15 - 1), "int32": (-2 ** 31, 2 ** 31 - 1),
               "int64": (-2 ** 63, 2 ** 63 - 1), "uint8": (0, 2 ** 8 - 1), "uint16": (0, 2 ** 16 - 1), "uint32": (0, 2 ** 32 - 1),
               "uint64": (0, 2 ** 64 - 1), "intc": (-2 ** 31, 2 ** 31 - 1), "int_": (-2 ** 63, 2 ** 63 - 1),
               "longlong": (-2 ** 63, 2 ** 63 - 1), "byte": (-2 ** 7, 2 ** 7 - 1), "short": (-2 ** 15, 2 ** 15 - 1)}


@prim("numpy.iinfo")
def p_iinfo(I, n, pos, kw):
    """np.iinfo(T) for a fixed-width numpy integer type: .min, .max, .bits (values beyond 2**53 are held as floats: tests
    that sit exactly on the 64-bit boundary are not exact)"""
    t = pos[0] if pos else None
    name = t.target.rsplit(".", 1)[-1] if isinstance(t, FuncV) and isinstance(t.target, str) and t.target.startswith("numpy.") else None
    if name not in _INT_RANGES:
        return I.unknown("prim:numpy.iinfo", n)
    lo, hi = _INT_RANGES[name]
    return ObjV(None, {"min": Sc(sym.Num(float(lo))), "max": Sc(sym.Num(float(hi))),
                       "bits": Sc(sym.Num(float((hi - lo + 1).bit_length() - 1))), "dtype": t}, tag="iinfo")


@prim("numpy.tril_indices", "numpy.triu_indices")
def p_tri_indices(I, n, pos, kw):
    """the (rows, cols) of the lower / upper triangle of an n×n array for a known n, in numpy's row-major order"""
    tgt = I.log[-1]["target"]
    nn = pos[0] if pos else kw.get("n")
    k = pos[1] if len(pos) > 1 else kw.get("k", Sc(sym.ZERO))
    m = pos[2] if len(pos) > 2 else kw.get("m")
    if not (isinstance(nn, Sc) and nn.e is not None and nn.e[0] == "num" and float(nn.e[1]).is_integer() and nn.e[1] <= 12
            and isinstance(k, Sc) and k.e is not None and k.e[0] == "num" and float(k.e[1]).is_integer()) \
            or (m is not None and not isinstance(m, NoneV)):
        return I.unknown("prim:" + tgt, n)
    N, K = int(nn.e[1]), int(k.e[1])
    lower = tgt.endswith("tril_indices")
    cells = [(r, c) for r in range(N) for c in range(N) if (c - r <= K if lower else c - r >= K)]
    return Seq([Seq([Sc(sym.Num(r)) for r, _ in cells], "list"), Seq([Sc(sym.Num(c)) for _, c in cells], "list")], "tuple")


@prim("numpy.diag_indices", "numpy.diag_indices_from")
def p_diag_indices(I, n, pos, kw):
    """(arange(k), arange(k)): the index pair that walks the main diagonal"""
    tgt = I.log[-1]["target"]
    k = None
    if tgt.endswith("_from") and pos:
        a = pos[0]
        if isinstance(a, DiagMat):
            k = a.n
        elif isinstance(a, Blocks):
            k = a.shape[0]
        elif isinstance(a, Arr) and a.ndim == 2:
            k = a.axes[0][0].size
    elif pos and isinstance(pos[0], Sc) and pos[0].e is not None:
        k = pos[0].e
    if k is None or len(pos) > 1 or kw:
        return I.unknown("diag_indices", n)
    out = []
    for _ in range(2):
        iv = fresh()
        out.append(Arr([(rng(k), iv)], sym.IV(iv), "nd"))
    return Seq(out, "tuple")


@prim("numpy.block")
def p_block(I, n, pos, kw):
    """np.block([[A, B], [C, D]]) of 2-d blocks: the same block matrix slice stores into zeros((r0+r1, c0+c1)) would build"""
    v = pos[0] if pos else None
    if not (isinstance(v, Seq) and v.items and all(isinstance(r, Seq) and r.items for r in v.items)):
        return I.unknown("block", n)
    rows_ = [list(r.items) for r in v.items]
    if len({len(r) for r in rows_}) != 1:
        return I.unknown("block-ragged", n)

    def shape2(x):
        if isinstance(x, DiagMat):
            return x.n, x.n
        a = arrays.to_arr(x) if not isinstance(x, (Arr, Blocks)) else x
        if isinstance(a, Arr) and a.ndim == 2:
            return a.axes[0][0].size, a.axes[1][0].size
        if isinstance(a, Blocks):
            return a.shape
        return None
    shapes = [[shape2(x) for x in r] for r in rows_]
    if any(sh is None for r in shapes for sh in r):
        return I.unknown("block-elem", n)
    heights = [r[0][0] for r in shapes]
    widths = [sh[1] for sh in shapes[0]]
    for r, h in zip(shapes, heights):
        for sh, w in zip(r, widths):
            if not (sym.equal(sh[0], h) and sym.equal(sh[1], w)):
                I.event("shape-error", n, message=f"np.block: block of shape ({sym.show(sh[0])}, {sym.show(sh[1])}) where "
                                                  f"({sym.show(h)}, {sym.show(w)}) is needed")
                return I.unknown("block-shape", n)
    total_h, total_w = sym.ZERO, sym.ZERO
    for h in heights:
        total_h = sym.add(total_h, h)
    for w in widths:
        total_w = sym.add(total_w, w)
    b = Blocks((total_h, total_w), sym.ZERO, [], None)
    r0 = sym.ZERO
    for r, h in zip(rows_, heights):
        c0 = sym.ZERO
        for x, w in zip(r, widths):
            val = x if isinstance(x, (Arr, DiagMat, Blocks)) else arrays.to_arr(x)
            b.stores.append(dict(r0=r0, r1=sym.add(r0, h), c0=c0, c1=sym.add(c0, w), val=val, node=n, vshape=(h, w)))
            c0 = sym.add(c0, w)
        r0 = sym.add(r0, h)
    I.blocks[b.uid] = b
    return b


@prim("numpy.diag")
def p_diag(I, n, pos, kw):
    v = arrays.to_arr(pos[0]) if not isinstance(pos[0], Arr) else pos[0]
    if isinstance(v, Arr) and v.ndim == 1 and len(pos) == 1:
        sp, iv = v.axes[0]
        return DiagMat(sp.size, iv, v.elem, sym.ZERO)
    return I.unknown("diag", n)


@prim("numpy.empty_like", "numpy.full_like")
def p_empty_like(I, n, pos, kw):
    if "shape" in kw and not isinstance(kw["shape"], NoneV):
        if "full_like" in I.log[-1]["target"]:
            fv = _kw(kw, pos, "fill_value", 1)
            if not isinstance(fv, Sc) or fv.e is None:
                return I.unknown("np.full_like-value", n)
            return _filled(I, n, [kw["shape"]], {}, fv.e)
        return _filled(I, n, [kw["shape"]], {}, sym.Opq("uninitialised", (), None))
    a = arrays.to_arr(pos[0])
    if isinstance(a, (Blocks, DiagMat)):
        a = arrays.densify(a)
    if not isinstance(a, Arr):
        return I.unknown("like", n)
    if "full_like" in I.log[-1]["target"]:
        fv = _kw(kw, pos, "fill_value", 1)
        if not isinstance(fv, Sc) or fv.e is None:
            return I.unknown("np.full_like-value", n)
        return Arr([(sp, fresh()) for sp, _ in a.axes], fv.e, "nd")
    return Arr([(sp, fresh()) for sp, _ in a.axes], sym.Opq("uninitialised", (), None), "nd")


@prim("numpy.empty")
def p_empty(I, n, pos, kw):
    return _filled(I, n, pos, kw, sym.Opq("uninitialised", (), None))


@prim("numpy.column_stack", "numpy.stack")
def p_stack(I, n, pos, kw):
    v = pos[0]
    tgt = I.log[-1]["target"]
    axis = kw.get("axis")
    if isinstance(v, Seq) and v.items and all(isinstance(x, Arr) and x.ndim == 1 for x in v.items):
        first = v.items[0]
        sp, iv = first.axes[0]
        elems = []
        for x in v.items:
            if not x.axes[0][0].same_size(sp):
                return I.unknown("stack-shape", n)
            elems.append(sym.subst_ivar(x.elem, x.axes[0][1], (iv, 0)))
        c = fresh()
        cols_last = tgt.endswith("column_stack") or (isinstance(axis, Sc) and axis.e in (sym.ONE, sym.Num(-1)))
        if cols_last:
            return Arr([(sp, iv), (fix(len(elems)), c)], sym.Sel(c, tuple(elems)), "nd")
        return Arr([(fix(len(elems)), c), (sp, iv)], sym.Sel(c, tuple(elems)), "nd")
    return Bag(_freshen(generic_elem(v)), None, False, None)


@prim("numpy.maximum", "numpy.minimum")
def p_maxmin2(I, n, pos, kw):
    name = "max" if I.log[-1]["target"].endswith("maximum") else "min"
    return arrays.binop(lambda a, b: sym.fn(name, a, b), pos[0], pos[1])


@prim("numpy.add", "numpy.subtract", "numpy.multiply", "numpy.divide", "numpy.true_divide", "numpy.power")
def p_arith(I, n, pos, kw):
    t = I.log[-1]["target"].rsplit(".", 1)[1]
    f = {"add": sym.add, "subtract": sym.sub, "multiply": sym.mul, "divide": sym.div, "true_divide": sym.div,
         "power": sym.power}[t]
    if t == "power":
        I.event("pow", n, base=pos[0], exponent=pos[1])
    if t in ("divide", "true_divide"):
        I.event("div", n, num=pos[0], den=pos[1])
    return arrays.binop(f, pos[0], pos[1])


@prim("numpy.isclose", "math.isclose")
def p_isclose(I, n, pos, kw):
    rtol = kw.get("rtol", pos[2] if len(pos) > 2 else Sc(sym.Num(1e-5)))
    atol = kw.get("atol", pos[3] if len(pos) > 3 else Sc(sym.Num(1e-8)))
    if not (isinstance(rtol, Sc) and isinstance(atol, Sc)):
        return I.unknown("isclose-tolerances", n)
    r, a = rtol.e, atol.e
    res = arrays.binop(lambda x, y: sym.Cmp("<=", sym.fn("abs", sym.sub(x, y)), sym.add(a, sym.mul(r, sym.fn("abs", y)))),
                       pos[0], pos[1])
    I.event("compare", n, op="isclose", lhs=pos[0], rhs=pos[1], result=res)
    return res


@prim("numpy.logical_not")
def p_lnot(I, n, pos, kw):
    return arrays.unop(sym.Not, pos[0])


@prim("numpy.logical_and", "numpy.logical_or")
def p_logical(I, n, pos, kw):
    f = sym.And if I.log[-1]["target"].endswith("and") else sym.Or
    return arrays.binop(lambda a, b: f(a, b), pos[0], pos[1])


@prim("numpy.copyto")
def p_copyto(I, n, pos, kw):
    """np.copyto(dst, src[, where=mask]): dst changes in place — every name bound to that array sees it"""
    if len(pos) < 2 or not isinstance(pos[0], Arr):
        I.lose("np.copyto into something that is not a followed array", n)
        return NoneV()
    dst, src = pos[0], pos[1]
    w = kw.get("where")
    if getattr(dst, "view_of", None) is not None:
        I.lose("np.copyto into a view of another array", n)
    try:
        new = TABLE["numpy.where"](I, n, [w, src, dst], {}) if w is not None and not (isinstance(w, Sc) and w.e == sym.TRUE) \
            else arrays.binop(lambda a, b: a, src, dst)
    except Exception:
        new = None
    if isinstance(new, Arr) and new.ndim == dst.ndim and all(x[0].same_size(y[0]) for x, y in zip(new.axes, dst.axes)):
        dst.axes, dst.elem = new.axes, new.elem
        return NoneV()
    I.lose("np.copyto whose result could not be written back", n)
    dst.elem = I.unknown("copyto", n).e
    return NoneV()


@prim("numpy.where")
def p_where(I, n, pos, kw):
    if len(pos) != 3:
        return I.unknown("where-1-arg", n)
    c, a, b = pos
    if isinstance(c, DiagMat):
        # np.where(np.eye(n, dtype=bool), column[:, None], off): the column's entry i on the diagonal, `off` elsewhere
        def on_diag(v):
            if isinstance(v, Sc):
                return v.e
            v2 = arrays.to_arr(v) if not isinstance(v, Arr) else v
            if isinstance(v2, Arr) and v2.ndim == 2 and v2.axes[1][0].concrete == 1 and v2.axes[0][0].size is not None \
                    and sym.equal(v2.axes[0][0].size, c.n):
                return sym.subst_ivar(sym.subst_ivar(v2.elem, v2.axes[1][1], 0), v2.axes[0][1], (c.iv, 0))
            if isinstance(v2, Arr) and v2.ndim == 1 and sym.equal(v2.axes[0][0].size, c.n):
                # a row vector broadcast along columns: entry j of column j — on the diagonal that is entry i
                return sym.subst_ivar(v2.elem, v2.axes[0][1], (c.iv, 0))
            return None

        def off_diag(v):
            return v.e if isinstance(v, Sc) else None
        truthy = lambda e: (e == sym.ONE or e == sym.TRUE)
        falsy = lambda e: (e == sym.ZERO or e == sym.FALSE)
        if truthy(c.on) and falsy(c.off):
            on_v, off_v = on_diag(a), off_diag(b)
            if on_v is not None and off_v is not None:
                return DiagMat(c.n, c.iv, on_v, off_v)
        if falsy(c.on) and truthy(c.off):
            on_v, off_v = on_diag(b), off_diag(a)
            if on_v is not None and off_v is not None:
                return DiagMat(c.n, c.iv, on_v, off_v)
    # the two branches travel as the two arguments of one opaque node, so that every renaming of index variables done while
    # the three operands are broadcast against each other reaches them too
    ca = arrays.binop(lambda x, y: sym.Opq("$pair", (x, y), None), a, b)
    r = arrays.binop(lambda cc, ab: sym.ITE(cc, ab[2][0], ab[2][1]) if (ab[0] == "opq" and ab[1] == "$pair")
                     else sym.Opq("unmodelled:where", ()), c, ca)
    return r


@prim("numpy.searchsorted")
def p_searchsorted(I, n, pos, kw):
    """position at which each value would be inserted into the sorted 1-d array: the number of entries below it (side='left')
    or not above it (side='right')"""
    a = pos[0] if isinstance(pos[0], Arr) else arrays.to_arr(pos[0])
    v = pos[1]
    side = _kw(kw, pos, "side", 2)
    s_ = side.s if isinstance(side, StrV) else "left"
    if not (isinstance(a, Arr) and a.ndim == 1) or s_ not in ("left", "right") or "sorter" in kw:
        return I.unknown("searchsorted", n)
    a = a.renamed()
    sp, iv = a.axes[0]
    op = "<" if s_ == "left" else "<="
    I.event("searchsorted", n, table=a, values=v, side=s_)

    def count(x):
        return sym.Sum(iv, sp, sym.ITE(sym.Cmp(op, a.elem, x), sym.ONE, sym.ZERO))
    return arrays.unop(count, v)


@prim("numpy.clip")
def p_clip(I, n, pos, kw):
    a, lo, hi = pos[0], _kw(kw, pos, "a_min", 1), _kw(kw, pos, "a_max", 2)
    r = a
    if lo is not None and not isinstance(lo, NoneV):
        r = arrays.binop(lambda x, y: sym.fn("max", x, y), r, lo)
    if hi is not None and not isinstance(hi, NoneV):
        r = arrays.binop(lambda x, y: sym.fn("min", x, y), r, hi)
    return r


# ----------------------------------------------------------------------------- reductions

def _reduction(op):
    def h(I, n, pos, kw):
        t = I.log[-1]["target"]
        v = pos[0]
        if t.startswith("builtins.") and op in ("max", "min") and len(pos) > 1:
            if all(isinstance(x, Sc) for x in pos):
                return Sc(_fold_minmax(I, op, [x.e for x in pos]))
            return I.unknown("builtin-" + op, n)
        if t.startswith("builtins.") and op in ("max", "min") and isinstance(v, Seq) and "key" not in kw:
            # max / min of a concrete sequence: empty -> the default; otherwise the extreme by decided comparisons
            if not v.items:
                if "default" in kw:
                    return kw["default"]
                I.event("raise", n, exc="ValueError")
                return I.unknown("extreme-of-empty-sequence", n)
            if all(isinstance(x, Sc) and x.e is not None for x in v.items):
                best = v.items[0]
                decided = True
                for x in v.items[1:]:
                    d_ = I.decide(sym.Cmp(">" if op == "max" else "<", x.e, best.e))
                    if d_ is None:
                        decided = False
                        break
                    if d_:
                        best = x
                if decided:
                    return best
        if t.startswith("builtins.") and op in ("max", "min") and "key" not in kw and (
                (isinstance(v, Seq) and any(not isinstance(x, Sc) for x in v.items)) or (isinstance(v, Arr) and v.ndim >= 2)):
            # the extreme of a sequence of sequences is lexicographic (the first row that is not beaten), not the extreme entry
            if isinstance(v, Seq) and all(isinstance(x, Seq) and all(isinstance(y, Sc) and y.e is not None for y in x.items)
                                          for x in v.items) and v.items:
                def beats(x, best):
                    for a_, b_ in zip(x.items, best.items):
                        gt = I.decide(sym.Cmp(">" if op == "max" else "<", a_.e, b_.e))
                        eq = I.decide(sym.Cmp("==", a_.e, b_.e))
                        if gt is None or eq is None:
                            return None
                        if gt:
                            return True
                        if not eq:
                            return False
                    return (len(x.items) > len(best.items)) if op == "max" else (len(x.items) < len(best.items))
                best = v.items[0]
                for x in v.items[1:]:
                    b_ = beats(x, best)
                    if b_ is None:
                        best = None
                        break
                    if b_:
                        best = x
                if best is not None:
                    return best
            return I.unknown("extreme-of-sequences", n)
        axis = _kw(kw, pos, "axis", 1) if not t.startswith("builtins.") else None
        I.event("reduce", n, op=op, arg=v, axis=axis)
        if "key" in kw:
            return _keyed_extreme(I, n, op, v, kw["key"])
        if axis is None or isinstance(axis, NoneV):
            return arrays.reduce_all(v, op)
        ax = _num(axis)
        if ax is None:
            return I.unknown("reduce-axis", n)
        return arrays.reduce_axis(v, int(ax), op)
    return h


def _fold_minmax(I, op, es):
    # min(n, 2n) over sizes folds by bounds
    if len(es) == 2:
        d = sym.sub(es[1], es[0])
        lo, hi = I._bounds(d)
        if lo is not None and lo >= 0:
            return es[0] if op == "min" else es[1]
        if hi is not None and hi <= 0:
            return es[1] if op == "min" else es[0]
    return sym.fn(op, *es)


def _keyed_extreme(I, n, op, v, key):
    """max(rows, key=itemgetter(k)) — the row whose k-th entry is extreme"""
    if isinstance(key, ObjV) and key.tag == "itemgetter":
        k = key.attrs["k"]
        a = arrays.to_arr(v) if not isinstance(v, Arr) else v
        if isinstance(a, Arr) and a.ndim == 2 and a.axes[1][0].concrete is not None:
            (sp, iv), (cs, civ) = a.axes
            col = sym.subst_ivar(a.elem, civ, k)
            ext = sym.Red(op, iv, sp, col)
            items = []
            for j in range(cs.concrete):
                if j == k:
                    items.append(Sc(ext))
                else:
                    items.append(Sc(sym.Opq("unmodelled:arg-extreme-row", (sym.subst_ivar(a.elem, civ, j),), fresh("u"))))
            return Seq(items, "tuple")
    if isinstance(key, ObjV) and key.tag == "attrgetter" and isinstance(v, Seq):
        if len(v.items) == 1:
            return v.items[0]
        if len(v.items) == 2 and key.attrs.get("k"):
            # the first of the two whose key is extreme (python keeps the first on ties)
            ks = [I.attribute(x, key.attrs["k"], n, {}) for x in v.items]
            if all(isinstance(k_, Sc) and k_.e is not None for k_ in ks):
                c = sym.Cmp("<=" if op == "min" else ">=", ks[0].e, ks[1].e)
                out = Alt(list(v.items))
                if isinstance(out, Alt) and len(out.vals) == 2:
                    out.conds = [c, sym.Not(c)]
                return out
        return Alt(list(v.items)) if v.items else I.unknown("empty-extreme", n)
    return I.unknown("keyed-" + op, n)


for _op, _names in (("sum", ("numpy.sum", "builtins.sum")), ("max", ("numpy.max", "numpy.amax", "builtins.max")),
                    ("min", ("numpy.min", "numpy.amin", "builtins.min")), ("all", ("numpy.all", "builtins.all")),
                    ("any", ("numpy.any", "builtins.any"))):
    for _nm in _names:
        TABLE[_nm] = _reduction(_op)


@prim("numpy.argmax", "numpy.argmin")
def p_arg(I, n, pos, kw):
    t = I.log[-1]["target"].rsplit(".", 1)[1]
    axis = _kw(kw, pos, "axis", 1)
    v = arrays.to_arr(pos[0]) if not isinstance(pos[0], Arr) else pos[0]
    if isinstance(v, (Blocks, DiagMat)):
        v = arrays.densify(v)
    if isinstance(v, Arr) and (v.ndim == 1 or (axis is not None and not isinstance(axis, NoneV) and _num(axis) is not None)):
        # position (along one axis) of the first extreme entry: a reduction that yields an index
        ax = 0 if v.ndim == 1 else int(_num(axis))
        if ax < 0:
            ax += v.ndim
        if 0 <= ax < v.ndim:
            sp, iv = v.axes[ax]
            I.event("argextreme", n, op=t, arg=v, axis=ax)
            e = sym.Red(t, iv, sp, v.elem)
            rest = [a for k, a in enumerate(v.axes) if k != ax]
            return Arr(rest, e, "nd") if rest else Sc(e)
    return Sc(sym.Opq(t, (generic_elem(pos[0]),), fresh("k")))


@prim("numpy.array_equal", "numpy.array_equiv", "numpy.allclose")
def p_array_equal(I, n, pos, kw):
    a, b = pos[0], pos[1]
    ea, eb = generic_elem(a), generic_elem(b)
    tgt = I.log[-1]["target"]
    I.event("array_equal", n, a=a, b=b, target=tgt)
    return Sc(sym.Opq("array_equal", (ea, eb), fresh("q")))


@prim("numpy.sort", "builtins.sorted")
def p_sort(I, n, pos, kw):
    v = pos[0]
    tgt = I.log[-1]["target"]
    c_ = _candidates(I, v)
    if c_ is not None and "reverse" not in kw:
        return c_
    I.event("sort", n, arg=v, kwargs=kw)
    axis = kw.get("axis", pos[1] if len(pos) > 1 and tgt == "numpy.sort" else None)
    if isinstance(v, Arr) and v.ndim == 2 and axis is not None and isinstance(axis, Sc) and axis.e == sym.ZERO:
        # column-wise sort of a 2-d array: each column becomes its own sorted multiset — rows are no longer points
        I.event("sort-columns", n, arg=v)
        return Arr(v.axes, sym.Opq("colsorted", (v.elem,), None), "nd")
    if isinstance(v, Seq) and I.cfg.flags.get("order_model") is not None:
        # a concrete list whose comparisons are decided by the ordering class: sort it (stable insertion sort; keys are
        # scalars or lists of scalars compared lexicographically)
        keyf = kw.get("key")
        rv = kw.get("reverse")
        if rv is not None and not isinstance(rv, NoneV) and not (isinstance(rv, Sc) and rv.e in (sym.TRUE, sym.FALSE)):
            return I.unknown("sorted-reverse-not-constant", n)
        rev = isinstance(rv, Sc) and rv.e == sym.TRUE
        keys = []
        for x in v.items:
            kx = x if keyf is None or isinstance(keyf, NoneV) else I.apply(keyf, [x], {}, n, {})
            comps = kx.items if isinstance(kx, Seq) else [kx]
            if not all(isinstance(c, Sc) and c.e is not None for c in comps):
                return I.unknown("sorted-key-not-scalar", n)
            keys.append([c.e for c in comps])

        def less(ka, kb):
            for a_, b_ in zip(ka, kb):
                lt = I.decide(sym.Cmp("<", a_, b_))
                if lt is True:
                    return True
                eq = I.decide(sym.Cmp("==", a_, b_))
                if lt is None or eq is None:
                    return None
                if not eq:
                    return False
            return False
        order = []
        for i_ in range(len(v.items)):
            pos_ = len(order)
            for j_, o_ in enumerate(order):
                l_ = less(keys[i_], keys[o_])
                if l_ is None:
                    return I.unknown("sorted-undecided-comparison", n)
                if l_:
                    pos_ = j_
                    break
            order.insert(pos_, i_)
        out = [v.items[i_] for i_ in order]
        if rev:
            # reverse=True keeps equal elements in their original order: sort by the negated comparison instead
            order = []
            for i_ in range(len(v.items)):
                pos_ = len(order)
                for j_, o_ in enumerate(order):
                    l_ = less(keys[o_], keys[i_])
                    if l_ is None:
                        return I.unknown("sorted-undecided-comparison", n)
                    if l_:
                        pos_ = j_
                        break
                order.insert(pos_, i_)
            out = [v.items[i_] for i_ in order]
        return Seq(out, "list")
    if "key" in kw and not isinstance(kw["key"], NoneV):
        return I.unknown("sorted-with-key", n, (generic_elem(v),))
    if isinstance(v, ObjV) and v.tag == "bucket":
        rv = kw.get("reverse")
        if rv is None or isinstance(rv, NoneV) or (isinstance(rv, Sc) and rv.e == sym.FALSE):
            order = "asc"
        elif isinstance(rv, Sc) and rv.e == sym.TRUE:
            order = "desc"
        else:
            return I.unknown("sorted-reverse-not-constant", n)
        from .values import bucket_handle
        return bucket_handle(v.attrs["base"], v.attrs["index"], order)
    rv = kw.get("reverse") if tgt == "builtins.sorted" else None
    if rv is None or isinstance(rv, NoneV) or (isinstance(rv, Sc) and rv.e == sym.FALSE):
        dirn = "asc"
    elif isinstance(rv, Sc) and rv.e == sym.TRUE:
        dirn = "desc"
    else:
        dirn = None
    if isinstance(v, Bag):
        return Bag(v.elem, v.size, True, v.src, v.parts, dirn)
    if isinstance(v, Concat):
        sz = p_len(I, n, [v], {}).e
        return Bag(generic_elem(v), sz, True, None, v.parts, dirn)
    a = arrays.to_arr(v) if not isinstance(v, Arr) else v
    if isinstance(a, Arr) and a.ndim == 1:
        return Bag(a.elem, a.axes[0][0].size, True, a.uid, [a], dirn)
    if isinstance(v, Seq):
        return Bag(generic_elem(v), sym.Num(len(v.items)), True, None, None, dirn)
    return I.unknown("sort", n, (generic_elem(v),))


def _candidates(I, v):
    """in a run that follows the threshold search on a fixed list of candidates: the sorted distinct entries of the cost
    matrix are that list (flags['candidates'] = names of symbols in increasing order)"""
    names = I.cfg.flags.get("candidates")
    if not names:
        return None
    cs = I.__dict__.get("_cand_seq")
    if cs is not None and v is cs:
        return cs
    uid = v.src if isinstance(v, Bag) else getattr(v, "uid", None)
    if uid is not None and uid in I.blocks:
        if cs is None:
            cs = Seq([Sc(sym.Sym(c)) for c in names], "list")
            I.__dict__["_cand_seq"] = cs
        return cs
    return None


@prim("scipy.sparse.issparse", "scipy.sparse.isspmatrix")
def p_issparse(I, n, pos, kw):
    return Sc(sym.Opq("config", (), fresh("issparse")))   # either kind of input may arrive: both arms are followed


@prim("scipy.sparse.csgraph.shortest_path")
def p_shortest_path(I, n, pos, kw):
    """the matrix of shortest-path lengths of a graph on V vertices: a V×V table of opaque entries (possibly infinite)"""
    from .values import rows
    i, j = fresh(), fresh()
    I.event("shortest_path", n, graph=pos[0] if pos else None, kwargs=kw)
    return Arr([(rows("V"), i), (rows("V"), j)], sym.In("dg", ((i, 0), (j, 0))), "nd")


@prim("scipy.sparse.csgraph.connected_components")
def p_connected_components(I, n, pos, kw):
    """(number of components, label of the component of every vertex)"""
    from .values import rows
    i = fresh()
    return Seq([Sc(sym.Sym("n_components")), Arr([(rows("V"), i)], sym.In("label", ((i, 0),)), "nd")], "tuple")


@prim("numpy.bincount")
def p_bincount(I, n, pos, kw):
    """how often each value 0, 1, … occurs in a 1-d array of labels: an opaque table indexed by the value"""
    a = pos[0] if isinstance(pos[0], Arr) else arrays.to_arr(pos[0])
    if isinstance(a, Arr) and a.ndim == 1 and not kw and len(pos) == 1:
        k = fresh()
        src = sorted(sym.inputs_of(a.elem))
        return Arr([(rng(sym.Opq("n-values", tuple(sym.Sym(x) for x in src), None)), k)],
                   sym.Opq("count-of-value", tuple(sym.Sym(x) for x in src) + (sym.IV(k),), None), "nd")
    return I.unknown("prim:numpy.bincount", n)


@prim("numpy.compress")
def p_compress(I, n, pos, kw):
    """np.compress(mask, a, axis=k): the entries of a along axis k at which the mask holds"""
    cond = pos[0] if pos else kw.get("condition")
    a = pos[1] if len(pos) > 1 else kw.get("a")
    ax = _kw(kw, pos, "axis", 2)
    a = a if isinstance(a, Arr) else (arrays.to_arr(a) if a is not None else None)
    k = _num(ax) if ax is not None and not isinstance(ax, NoneV) else None
    if not isinstance(a, Arr) or k is None or not isinstance(cond, Arr):
        return I.unknown("prim:numpy.compress", n)
    k = int(k) % a.ndim
    idx = [("full",)] * k + [("mask", cond)] + [("full",)] * (a.ndim - k - 1)
    return arrays.index(a, idx, I)


@prim("numpy.unique")
def p_unique(I, n, pos, kw):
    v = pos[0]
    I.event("unique", n, arg=v)
    rc = kw.get("return_counts")
    if isinstance(rc, Sc) and rc.e == sym.TRUE and not any(k_ in kw for k_ in ("return_index", "return_inverse", "axis")):
        a = v if isinstance(v, Arr) else arrays.to_arr(v)
        if isinstance(a, Arr) and a.ndim == 1:
            # (distinct values in increasing order, how often each occurs): two opaque tables over the distinct values
            src = tuple(sym.Sym(x) for x in sorted(sym.inputs_of(a.elem)))
            sp = rng(sym.Opq("n-values", src, None))
            k1, k2 = fresh(), fresh()
            return Seq([Arr([(sp, k1)], sym.Opq("distinct-value", src + (sym.IV(k1),), None), "nd"),
                        Arr([(sp, k2)], sym.Opq("count-of-distinct-value", src + (sym.IV(k2),), None), "nd")], "tuple")
    c_ = _candidates(I, v)
    if c_ is not None:
        return c_
    if isinstance(v, Bag):
        return Bag(v.elem, None, True, v.src, v.parts)
    f = arrays.flatten(v)
    if isinstance(f, Bag):
        return Bag(f.elem, None, True, f.src)
    if isinstance(f, Arr):
        return Bag(f.elem, None, True, f.uid)
    return I.unknown("unique", n)


def _freshen(e: Expr) -> Expr:
    """rename free index variables so a bag's generic element is not captured by later indexing of its sources"""
    for iv in sorted(sym.free_ivars(e)):
        if not iv.startswith("@") and not iv.startswith("$"):
            e = sym.subst_ivar(e, iv, (fresh("f"), 0))
    return e


@prim("numpy.concatenate", "numpy.vstack", "numpy.hstack")
def p_concat(I, n, pos, kw):
    v = pos[0]
    tgt = I.log[-1]["target"] if I.log else ""
    axis = kw.get("axis")
    axis0 = tgt == "numpy.vstack" or (tgt == "numpy.concatenate" and (axis is None or (isinstance(axis, Sc) and axis.e == sym.ZERO)))
    if isinstance(v, Seq) and axis0 and len(v.items) >= 2:
        parts = [arrays.to_arr(x) if not isinstance(x, Arr) else x for x in v.items]
        if all(isinstance(x, Arr) and x.ndim == parts[0].ndim and x.ndim >= 1 and all(
                a[0].same_size(b[0]) for a, b in zip(x.axes[1:], parts[0].axes[1:])) for x in parts):
            from .values import VStack
            return VStack([x.renamed() for x in parts])
    if isinstance(v, Seq):
        parts = []
        for x in v.items:
            if isinstance(x, Bag) and x.parts:
                parts.extend(x.parts)
            else:
                parts.append(x)
        return Bag(_freshen(sym.Choice([generic_elem(x) for x in v.items])), None, False, None, parts)
    return Bag(_freshen(generic_elem(v)), None, False, None)


@prim("numpy.dot")
def p_dot(I, n, pos, kw):
    return dot(I, n, pos[0], pos[1])


@prim("numpy.matmul")
def p_matmul(I, n, pos, kw):
    A_, B_ = (x if isinstance(x, Arr) else arrays.to_arr(x) for x in pos[:2])
    if isinstance(A_, Arr) and isinstance(B_, Arr) and A_.ndim <= 2 and B_.ndim <= 2:
        return dot(I, n, pos[0], pos[1])
    return I.unknown("matmul", n)


def dot(I, n, a: Val, b: Val) -> Val:
    from .values import VStack
    if isinstance(a, VStack):
        outs = [dot(I, n, x, b) for x in a.ordered]
        if all(isinstance(x, Arr) for x in outs):
            return VStack(outs)
    A = arrays.to_arr(a) if not isinstance(a, Arr) else a
    B = arrays.to_arr(b) if not isinstance(b, Arr) else b
    if isinstance(A, Sc) or isinstance(B, Sc):
        return arrays.binop(sym.mul, A, B)
    if not (isinstance(A, Arr) and isinstance(B, Arr)):
        return I.unknown("dot", n, (generic_elem(a), generic_elem(b)))
    A, B = A.renamed(), B.renamed()
    (sa, ia) = A.axes[-1]
    (sb, ib) = B.axes[0] if B.ndim <= 2 else B.axes[-2]
    if not sa.same_size(sb):
        I.event("shape-error", n, message=f"dot: inner sizes {sym.show(sa.size)} vs {sym.show(sb.size)}")
        return I.unknown("dot-shape", n)
    eb = sym.subst_ivar(B.elem, ib, (ia, 0))
    prod = arrays._sel_lift2(sym.mul, A.elem, eb)
    e = arrays.reduce_axis_expr(prod, sa, ia, "sum")
    axes = list(A.axes[:-1]) + [ax for ax in B.axes if ax[1] != ib]
    if not axes:
        return Sc(e)
    return Arr(axes, e, "nd")


@prim("numpy.outer")
def p_outer(I, n, pos, kw):
    a, b = arrays.to_arr(pos[0]), arrays.to_arr(pos[1])
    if isinstance(a, Arr) and isinstance(b, Arr) and a.ndim == 1 and b.ndim == 1:
        a, b = a.renamed(), b.renamed()
        return Arr([a.axes[0], b.axes[0]], sym.mul(a.elem, b.elem), "nd")
    return I.unknown("outer", n)


@prim("numpy.meshgrid")
def p_meshgrid(I, n, pos, kw):
    ind = kw.get("indexing")
    ij = isinstance(ind, StrV) and ind.s == "ij"
    a, b = arrays.to_arr(pos[0]), arrays.to_arr(pos[1])
    if not (isinstance(a, Arr) and isinstance(b, Arr) and a.ndim == 1 and b.ndim == 1):
        return I.unknown("meshgrid", n)
    a, b = a.renamed(), b.renamed()
    axes = [a.axes[0], b.axes[0]] if ij else [b.axes[0], a.axes[0]]
    I.event("meshgrid", n, ij=ij)
    return Seq([Arr(axes, a.elem, "nd"), Arr(axes, b.elem, "nd")], "tuple")


@prim("numpy.repeat", "numpy.tile")
def p_repeat_tile(I, n, pos, kw):
    """np.repeat(a, k) / np.tile(a, k) of a vector with a scalar count: the row-major flattening of the (|a|, k) table whose
    row i is a[i] repeated, resp. of the (k, |a|) table whose every row is a — kept as that table with the `flat` mark,
    exactly like `meshgrid(...)[..].flatten()` (a later reshape to the table's shape is the round trip)"""
    what = I.log[-1]["target"].rsplit(".", 1)[1]
    a = _kw(kw, pos, "a" if what == "repeat" else "A", 0)
    k = _kw(kw, pos, "repeats" if what == "repeat" else "reps", 1)
    if kw.get("axis") is not None and not isinstance(kw.get("axis"), NoneV):
        return I.unknown("prim:numpy." + what, n)
    arr = a if isinstance(a, Arr) else arrays.to_arr(a)
    if not (isinstance(arr, Arr) and arr.ndim == 1 and isinstance(k, Sc) and k.e is not None):
        return I.unknown("prim:numpy." + what, n)
    arr = arr.renamed()
    if k.e[0] == "num" and float(k.e[1]) == 1:
        return Arr(arr.axes, arr.elem, "nd")
    other = (rng(k.e), fresh())
    if arr.axes[0][0].concrete is not None or other[0].concrete is not None:
        # small concrete tables are spelled out element by element
        m_, k_ = arr.axes[0][0].concrete, other[0].concrete
        if m_ is None or k_ is None:
            return I.unknown("prim:numpy." + what, n)
        items = [sym.subst_ivar(arr.elem, arr.axes[0][1], i) for i in range(m_)]
        seq = [x for x in items for _ in range(k_)] if what == "repeat" else items * k_
        return arrays.to_arr(Seq([Sc(x) for x in seq], "list"))
    out = Arr([arr.axes[0], other] if what == "repeat" else [other, arr.axes[0]], arr.elem, "nd")
    out.flat = "C"
    I.event("flatten", n, arg=out, order="C")
    return out


@prim("numpy.reshape")
def p_reshape(I, n, pos, kw):
    kw2 = dict(kw)
    rest = list(pos[1:])
    if len(rest) > 1 and isinstance(rest[1], StrV):
        kw2["order"] = rest[1]
        rest = rest[:1]
    return m_reshape(I, n, pos[0], rest, kw2)


# ----------------------------------------------------------------------------- library solvers

@prim("sklearn.metrics.pairwise.pairwise_distances", "sklearn.metrics.pairwise_distances")
def p_pairwise(I, n, pos, kw):
    X, Y = pos[0], _kw(kw, pos, "Y", 1)
    metric = _kw(kw, pos, "metric", 2)
    m = metric.s if isinstance(metric, StrV) else ("euclidean" if metric is None else None)
    I.event("pairwise_distances", n, X=X, Y=Y, metric=m)
    A, B = arrays.to_arr(X), arrays.to_arr(Y) if Y is not None else None
    if B is None:
        B = A
    if not (isinstance(A, Arr) and isinstance(B, Arr) and A.ndim == 2 and B.ndim == 2):
        return I.unknown("pairwise_distances", n)
    A, B = A.renamed(), B.renamed()
    (ra, ia), (ca, ja) = A.axes
    (rb, ib), (cb, jb) = B.axes
    if ca.concrete is None or cb.concrete != ca.concrete:
        return I.unknown("pairwise-columns", n)
    diffs = [sym.sub(sym.subst_ivar(A.elem, ja, k), sym.subst_ivar(B.elem, jb, k)) for k in range(ca.concrete)]
    if m == "euclidean":
        s = sym.ZERO
        for d in diffs:
            s = sym.add(s, sym.power(d, sym.Num(2)))
        e = sym.fn("sqrt", s)
    elif m in ("cityblock", "manhattan", "l1"):
        e = sym.ZERO
        for d in diffs:
            e = sym.add(e, sym.fn("abs", d))
    elif m == "chebyshev":
        e = sym.fn("max", *[sym.fn("abs", d) for d in diffs])
    else:
        return I.unknown("pairwise-metric", n)
    return Arr([(ra, ia), (rb, ib)], e, "nd")


@prim("scipy.optimize.linear_sum_assignment")
def p_lsa(I, n, pos, kw):
    D = pos[0] if pos else kw.get("cost_matrix")
    uid = fresh("lsa")
    dep = generic_elem(D)
    mx = kw.get("maximize")
    I.event("linear_sum_assignment", n, cost=D, maximize=mx, uid=uid)
    size = shape_of(D)
    sp = rng(sym.fn("min", size[0], size[1]) if size and not sym.equal(size[0], size[1]) else
             (size[0] if size else sym.Opq("len", ())))
    iv = fresh()
    r = Arr([(sp, iv)], sym.Opq("lsa_rows", (dep, sym.IV(iv)), uid), "nd")
    c = Arr([(sp, iv)], sym.Opq("lsa_cols", (dep, sym.IV(iv)), uid), "nd")
    return Seq([r, c], "tuple")


def _pset_of(I, v):
    """membership predicate of what set(v) would contain, or None"""
    e_ = sym.IV(PSet.VAR)
    if isinstance(v, PSet):
        return v.pred
    if isinstance(v, ObjV) and v.tag == "range":
        return sym.And(sym.Cmp(">=", e_, v.attrs["lo"].e), sym.Cmp("<", e_, v.attrs["hi"].e))
    if isinstance(v, Arr) and v.ndim == 1 and v.elem == sym.IV(v.axes[0][1]):
        # the positions of a (mask-selected part of a) range: e is a member iff it is a position and every mask holds there
        sp, iv = v.axes[0]
        conds = []
        while sp.key[0] == "sub" and sp.parent is not None:
            c = sp.key[2]
            fiv = sorted(sym.free_ivars(c))
            if iv in fiv:
                c = sym.subst_ivar(c, iv, (PSet.VAR, 0))
            elif len(fiv) == 1:
                c = sym.subst_ivar(c, fiv[0], (PSet.VAR, 0))
            else:
                return None
            conds.append(c)
            sp = sp.parent
        return sym.And(sym.Cmp(">=", e_, sym.ZERO), sym.Cmp("<", e_, sp.size), *conds)
    if isinstance(v, Seq) and all(isinstance(x, Sc) and x.e is not None for x in v.items):
        return sym.Or(*[sym.Cmp("==", e_, x.e) for x in v.items]) if v.items else sym.FALSE
    if isinstance(v, Alt) and getattr(v, "conds", None) and len(v.conds) == len(v.vals):
        out = None
        for c, x in reversed(list(zip(v.conds, v.vals))):
            p = _pset_of(I, x)
            if p is None:
                return None
            out = p if out is None else sym.ITE(c, p, out)
        return out
    return None


@prim("builtins.set", "builtins.frozenset")
def p_set(I, n, pos, kw):
    if not pos:
        return PSet(sym.FALSE)
    p = _pset_of(I, pos[0])
    if p is not None:
        return PSet(p)
    v = pos[0]
    if isinstance(v, (Bag, Concat)):
        return v
    if isinstance(v, Arr):
        return Bag(v.elem, None, False, v.uid)
    return I.unknown("set-of-" + type(v).__name__, n, (generic_elem(v),))


@prim("numpy.flatnonzero")
def p_flatnonzero(I, n, pos, kw):
    """the positions at which a 1-d array is non-zero, in increasing order: the identity on the mask-selected part of the
    axis (set(...) of it is the membership-predicate set; as an index it selects like the mask itself)"""
    m = pos[0] if isinstance(pos[0], Arr) else arrays.to_arr(pos[0])
    if isinstance(m, Arr) and m.ndim == 1:
        sp, iv = m.axes[0]
        cond = m.elem
        if not _is_boolish(cond):
            cond = sym.Cmp("!=", cond, sym.ZERO)
        if I.decide(cond) is True or cond == sym.TRUE:
            return Arr([(sp, iv)], sym.IV(iv), "nd")
        from .values import subspace
        return Arr([(subspace(sp, cond), iv)], sym.IV(iv), "nd")
    return I.unknown("flatnonzero", n)


def _is_boolish(e):
    return e[0] in ("cmp", "bool", "and", "or", "not") or (e[0] == "fn" and e[1] in ("isfinite", "isinf", "isnan")) \
        or (e[0] == "ite" and _is_boolish(e[2]) and _is_boolish(e[3]))


@method("tolist")
def m_tolist(I, n, recv, pos, kw):
    if isinstance(recv, PSet):
        return recv
    if isinstance(recv, Arr):
        return Arr(recv.axes, recv.elem, "list", recv.uid)
    if isinstance(recv, (Bag, Concat, Seq, Sc)):
        return recv
    return I.unknown("tolist-on-" + type(recv).__name__, n)


@method("add")
def m_add(I, n, recv, pos, kw):
    if isinstance(recv, PSet) and len(pos) == 1 and isinstance(pos[0], Sc) and pos[0].e is not None:
        recv.pred = sym.Or(recv.pred, sym.Cmp("==", sym.IV(PSet.VAR), pos[0].e))
        I.event("set-add", n, target=recv, value=pos[0])
        return NoneV()
    return I.unknown("add-on-" + type(recv).__name__, n)


@prim("hopcroftkarp.HopcroftKarp")
def p_hk(I, n, pos, kw):
    g = pos[0]
    deps = ()
    if isinstance(g, DictV):
        vals = list(g.d.values()) + ([g.generic] if g.generic is not None else [])
        deps = tuple(generic_elem(v) for v in vals)
    I.event("hopcroftkarp", n, graph=g)
    return ObjV(None, dict(graph=g, deps=deps), tag="hk")


@method("maximum_matching")
def m_maximum_matching(I, n, recv, pos, kw):
    if isinstance(recv, ObjV) and recv.tag == "hk":
        uid = fresh("hk")
        g = recv.attrs["graph"]
        conds = ()
        if isinstance(g, DictV):
            vals = list(g.d.values()) + ([g.generic] if g.generic is not None else [])
            conds = tuple(v.size for v in vals if isinstance(v, Bag) and v.size is not None)
            psets = []
            for v in vals:
                for x in (v.vals if isinstance(v, Alt) else [v]):
                    if isinstance(x, PSet):
                        psets.append(sym.Opq("count", (x.pred,), None))
            conds = conds + tuple(psets)
        ff = I.cfg.flags.get("feasible_from")
        if ff is not None:
            # the search is followed with a feasibility oracle: a perfect matching exists iff the probed candidate is the
            # ff-th or a later one (feasibility is monotone in the threshold)
            names = I.cfg.flags.get("candidates") or []
            probed = set()
            for c_ in conds:
                if isinstance(c_, sym.Expr):
                    probed |= {x[1] for x in sym.walk(c_) if x[0] == "sym" and x[1] in names}
            if len(probed) == 1 and I.blocks:
                k_ = names.index(next(iter(probed)))
                big = max(I.blocks.values(), key=lambda b_: len(b_.stores))
                size = sym.scale(big.shape[0], 2.0) if k_ >= ff else sym.ZERO
                return ObjV(None, dict(deps=conds, uid=uid, graph=g, len_expr=size), tag="hk_matching")
            return I.unknown("matching-of-unknown-threshold", n)
        return ObjV(None, dict(deps=conds, uid=uid, graph=g), tag="hk_matching")
    return I.unknown("maximum_matching", n)


def _concrete_scalars(v):
    """the entries of a python list / 1-d array of known length, as expressions"""
    if isinstance(v, Seq) and all(isinstance(x, Sc) and x.e is not None for x in v.items):
        return [x.e for x in v.items]
    if isinstance(v, Arr) and v.ndim == 1 and v.axes[0][0].concrete is not None:
        sp, iv = v.axes[0]
        return [sym.subst_ivar(v.elem, iv, k) for k in range(sp.concrete)]
    return None


@prim("numpy.lexsort")
def p_lexsort(I, n, pos, kw):
    """np.lexsort(keys) on arrays of known length whose comparisons are decided (an ordering class of the end-points): the
    stable permutation that sorts by the LAST key first, then the one before it, ..."""
    keys = pos[0] if pos else None
    if I.cfg.flags.get("order_model") is None or not isinstance(keys, Seq) or not keys.items:
        return I.unknown("prim:numpy.lexsort", n)
    cols = [_concrete_scalars(k) for k in keys.items]
    if any(c is None for c in cols) or len({len(c) for c in cols}) != 1:
        return I.unknown("prim:numpy.lexsort", n)
    L = len(cols[0])

    def less(a, b):   # row a before row b: compare the last key first
        for c in reversed(cols):
            lt = I.decide(sym.Cmp("<", c[a], c[b]))
            if lt is True:
                return True
            eq = I.decide(sym.Cmp("==", c[a], c[b]))
            if lt is None or eq is None:
                return None
            if not eq:
                return False
        return False
    order = []
    for i_ in range(L):
        at = len(order)
        for j_, o_ in enumerate(order):
            l_ = less(i_, o_)
            if l_ is None:
                return I.unknown("lexsort-undecided-comparison", n)
            if l_:
                at = j_
                break
        order.insert(at, i_)
    return Seq([Sc(sym.Num(float(k))) for k in order], "list")


@prim("bisect.bisect_left", "bisect.bisect_right", "bisect.bisect")
def p_bisect(I, n, pos, kw):
    tgt = I.log[-1]["target"]
    xs = _concrete_scalars(pos[0]) if pos else None
    if xs is not None and len(pos) == 2 and isinstance(pos[1], Sc) and pos[1].e is not None \
            and I.cfg.flags.get("order_model") is not None:
        # insertion point in a sorted list of known entries under decided comparisons
        right = not tgt.endswith("bisect_left")
        k = 0
        for x in xs:
            c = I.decide(sym.Cmp("<=" if right else "<", x, pos[1].e))
            if c is None:
                return I.unknown("bisect-undecided-comparison", n)
            if not c:
                break
            k += 1
        return Sc(sym.Num(float(k)))
    if tgt.endswith("bisect_left"):
        return _p_bisect_left_range(I, n, pos, kw)
    return I.unknown("prim:" + tgt, n)


def _p_bisect_left_range(I, n, pos, kw):
    if len(pos) == 2 and isinstance(pos[0], ObjV) and pos[0].tag == "range" and isinstance(pos[1], Sc):
        lo, hi, k = pos[0].attrs["lo"].e, pos[0].attrs["hi"].e, pos[1].e
        if all(x[0] == "num" for x in (lo, hi, k)):
            # position of k in lo, lo+1, …, hi-1
            return Sc(sym.Num(min(max(int(k[1]) - int(lo[1]), 0), max(int(hi[1]) - int(lo[1]), 0))))
    return Sc(sym.Opq("bisect", tuple(generic_elem(x) for x in pos if isinstance(x, Sc)), fresh("k")))


@prim("scipy.spatial.distance.cityblock")
def p_cityblock(I, n, pos, kw):
    a, b = pos

    def as_bag(v):
        if isinstance(v, Bag):
            return v
        if isinstance(v, Concat):
            return Bag(generic_elem(v), p_len(I, n, [v], {}).e, False, None, v.parts)
        if isinstance(v, Arr) and v.ndim == 1:
            return Bag(v.elem, v.axes[0][0].size, False, v.uid, [v])
        return None
    ba, bb = as_bag(a), as_bag(b)
    I.event("cityblock", n, a=ba if ba is not None else a, b=bb if bb is not None else b)
    if ba is not None and bb is not None:
        sa = ba.size if ba.size is not None else sym.Opq("len", ())
        sb = bb.size if bb.size is not None else sym.Opq("len", ())
        if not sym.equal(sa, sb):
            I.event("shape-error", n, message=f"cityblock of vectors of sizes {sym.show(sa)} and {sym.show(sb)}")
        name = "l1_sorted" if (ba.is_sorted and bb.is_sorted) else "l1_positional"
        return Sc(sym.fn(name, ba.elem, bb.elem))
    return arrays.reduce_all(arrays.unop(lambda e: sym.fn("abs", e), arrays.binop(sym.sub, a, b)), "sum")


_OPERATOR_BIN = {"add": sym.add, "sub": sym.sub, "mul": sym.mul, "truediv": sym.div}


@prim("operator.add", "operator.sub", "operator.mul", "operator.truediv")
def p_operator_bin(I, n, pos, kw):
    t = I.log[-1]["target"].rsplit(".", 1)[1]
    if len(pos) != 2:
        return I.unknown("prim:operator." + t, n)
    if t == "truediv":
        I.event("div", n, num=pos[0], den=pos[1])
    return arrays.binop(_OPERATOR_BIN[t], pos[0], pos[1])


@prim("operator.neg", "operator.abs")
def p_operator_un(I, n, pos, kw):
    t = I.log[-1]["target"].rsplit(".", 1)[1]
    return arrays.unop(sym.neg if t == "neg" else (lambda e: sym.fn("abs", e)), pos[0])


@prim("operator.lt", "operator.le", "operator.gt", "operator.ge", "operator.eq", "operator.ne")
def p_operator_cmp(I, n, pos, kw):
    import ast as _ast
    t = I.log[-1]["target"].rsplit(".", 1)[1]
    op = {"lt": _ast.Lt, "le": _ast.LtE, "gt": _ast.Gt, "ge": _ast.GtE, "eq": _ast.Eq, "ne": _ast.NotEq}[t]()
    return I.compare(op, pos[0], pos[1], n)


@prim("numpy.subtract.outer", "numpy.add.outer", "numpy.multiply.outer", "numpy.maximum.outer", "numpy.minimum.outer")
def p_ufunc_outer(I, n, pos, kw):
    """ufunc.outer(a, b) of 1-d arrays: entry (i, j) is a[i] op b[j]"""
    t = I.log[-1]["target"].split(".")[1]
    a = pos[0] if isinstance(pos[0], Arr) else arrays.to_arr(pos[0])
    b = pos[1] if isinstance(pos[1], Arr) else arrays.to_arr(pos[1])
    if not (isinstance(a, Arr) and isinstance(b, Arr) and a.ndim == 1 and b.ndim == 1):
        return I.unknown("prim:numpy." + t + ".outer", n)
    f = {"subtract": sym.sub, "add": sym.add, "multiply": sym.mul, "maximum": lambda x, y: sym.fn("max", x, y),
         "minimum": lambda x, y: sym.fn("min", x, y)}[t]
    a2, b2 = a.renamed(), b.renamed()
    return Arr([a2.axes[0], b2.axes[0]], f(a2.elem, b2.elem), "nd")


@prim("functools.reduce")
def p_reduce(I, n, pos, kw):
    """reduce(f, items[, initial]) over a sequence of known length: f applied left to right"""
    if len(pos) < 2:
        return I.unknown("prim:functools.reduce", n)
    items = _concrete_items(I, pos[1], n)
    if items is None and isinstance(pos[1], ObjV) and pos[1].tag == "lazy-map":
        items = _realise_map(I, pos[1], n)
    if items is None:
        return I.unknown("prim:functools.reduce", n)
    if len(pos) > 2:
        acc = pos[2]
    elif items:
        acc, items = items[0], items[1:]
    else:
        I.event("raise", n, exc="TypeError")
        return I.unknown("reduce-of-empty", n)
    for x in items:
        acc = I.apply(pos[0], [acc, x], {}, n, {})
    return acc


def _realise_map(I, m, n):
    """the items of a lazy map/starmap over sequences of known length, or None"""
    srcs = [_concrete_items(I, x, n) if not (isinstance(x, ObjV) and x.tag == "lazy-map") else _realise_map(I, x, n)
            for x in m.attrs["iterables"]]
    if any(x is None for x in srcs):
        # a 2-d array of known first length: its rows
        srcs2 = []
        for x, s_ in zip(m.attrs["iterables"], srcs):
            if s_ is None:
                a = x if isinstance(x, Arr) else arrays.to_arr(x) if isinstance(x, (Seq,)) else None
                if isinstance(a, Arr) and a.axes[0][0].concrete is not None:
                    s_ = [arrays.index(a, [("int", k)]) for k in range(a.axes[0][0].concrete)]
            srcs2.append(s_)
        srcs = srcs2
    if any(x is None for x in srcs):
        return None
    out = []
    for tup in zip(*srcs):
        if m.attrs["star"]:
            args = _concrete_items(I, tup[0], n)
            if args is None:
                return None
        else:
            args = list(tup)
        out.append(I.apply(m.attrs["f"], args, {}, n, {}))
    return out


@prim("builtins.map", "itertools.starmap")
def p_map(I, n, pos, kw):
    """map(f, xs, ...) / starmap(f, tuples): lazily — realised when consumed (list, tuple, unpacking, reduce, a for loop)"""
    if len(pos) < 2:
        return I.unknown("prim:builtins.map", n)
    star = I.log[-1]["target"].endswith("starmap")
    return ObjV(None, dict(f=pos[0], iterables=list(pos[1:]), star=star), tag="lazy-map")


@prim("operator.itemgetter")
def p_itemgetter(I, n, pos, kw):
    k = _num(pos[0]) if len(pos) == 1 else None
    keys = []
    for x in pos:
        if isinstance(x, StrV):
            keys.append(("str", x.s, None))
        elif _num(x) is not None:
            keys.append(("int", int(_num(x))))
        else:
            keys = None
            break
    return ObjV(None, dict(k=int(k) if k is not None else None, keys=keys), tag="itemgetter")


@prim("operator.attrgetter")
def p_attrgetter(I, n, pos, kw):
    if len(pos) > 1 and all(isinstance(x, StrV) for x in pos):
        return ObjV(None, dict(k=None, ks=[x.s for x in pos]), tag="attrgetter")
    return ObjV(None, dict(k=pos[0].s if pos and isinstance(pos[0], StrV) else None), tag="attrgetter")


@prim("copy.deepcopy", "copy.copy")
def p_copy(I, n, pos, kw):
    return pos[0]


@prim("matplotlib.pyplot.gca", "matplotlib.pyplot.gcf", "matplotlib.pyplot.figure")
def p_gca(I, n, pos, kw):
    return ObjV(None, {}, tag="pyplot-current")


@prim("numpy.pad")
def p_pad(I, n, pos, kw):
    """constant (zero) padding after the existing entries: position i of a padded axis holds the old entry for i < old
    size and the fill value beyond (padding in front is followed only for constant widths)"""
    a = arrays.to_arr(pos[0]) if not isinstance(pos[0], Arr) else pos[0]
    pw = _kw(kw, pos, "pad_width", 1)
    mode = kw.get("mode", pos[2] if len(pos) > 2 else None)
    cv = kw.get("constant_values")
    I.event("pad", n, arg=a, pad_width=pw, mode=mode, constant_values=cv)
    if not isinstance(a, Arr) or pw is None:
        return I.unknown("prim:numpy.pad", n)
    if mode is not None and not (isinstance(mode, StrV) and mode.s == "constant"):
        return I.unknown("np.pad-mode", n)
    fill = sym.ZERO
    if cv is not None:
        if not (isinstance(cv, Sc) and cv.e is not None):
            return I.unknown("np.pad-constant", n)
        fill = cv.e
    widths = []
    if isinstance(pw, Seq) and len(pw.items) == a.ndim and all(isinstance(x, Seq) and len(x.items) == 2 for x in pw.items):
        for x in pw.items:
            if not all(isinstance(z, Sc) and z.e is not None for z in x.items):
                return I.unknown("np.pad-width", n)
            widths.append((x.items[0].e, x.items[1].e))
    elif isinstance(pw, Seq) and len(pw.items) == 2 and all(isinstance(z, Sc) and z.e is not None for z in pw.items):
        widths = [(pw.items[0].e, pw.items[1].e)] * a.ndim
    elif isinstance(pw, Sc) and pw.e is not None:
        widths = [(pw.e, pw.e)] * a.ndim
    else:
        return I.unknown("np.pad-width", n)
    a = a.renamed()
    e = a.elem
    axes = []
    inside = sym.TRUE
    for (sp, iv), (before, after) in zip(a.axes, widths):
        if before == sym.ZERO and after == sym.ZERO:
            axes.append((sp, iv))
            continue
        if before != sym.ZERO and not (before[0] == "num" and float(before[1]).is_integer() and before[1] > 0):
            # a width in front that is not a constant: the old entry of position i is read at i − width; the array is kept as
            # it was (under its own position variables) and read at computed positions when the result is evaluated
            from . import symeval
            snap = Arr(a.axes, a.elem, a.kind).renamed()
            symeval.ARRAYS[snap.uid] = snap
            idxs, ins, new_axes = [], sym.TRUE, []
            for (sp2, iv2), (bf, af) in zip(a.axes, widths):
                pos_ = sym.IV(iv2)
                idxs.append(sym.sub(pos_, bf) if bf != sym.ZERO else pos_)
                if bf != sym.ZERO or af != sym.ZERO:
                    ins = sym.And(ins, sym.Cmp(">=", pos_, bf), sym.Cmp("<", pos_, sym.add(sp2.size, bf)))
                    new_axes.append((rng(sym.add(sym.add(sp2.size, bf), af)), iv2))
                else:
                    new_axes.append((sp2, iv2))
            return Arr(new_axes, sym.ITE(ins, sym.At(snap.uid, snap.elem, tuple(idxs)), fill), "nd")
        if before != sym.ZERO:
            k = int(before[1])
            e = sym.subst_ivar(e, iv, (iv, -k))
            inside = sym.And(inside, sym.Cmp(">=", sym.IV(iv), sym.Num(k)), sym.Cmp("<", sym.IV(iv), sym.add(sp.size, sym.Num(k))))
        else:
            inside = sym.And(inside, sym.Cmp("<", sym.IV(iv), sp.size))
        axes.append((rng(sym.add(sym.add(sp.size, before), after)), iv))
    return Arr(axes, e if inside == sym.TRUE else sym.ITE(inside, e, fill), "nd")


@prim("numpy.interp")
def p_interp(I, n, pos, kw):
    I.event("interp", n, x=pos[0], xp=pos[1], fp=pos[2])
    x = arrays.to_arr(pos[0])
    if isinstance(x, Arr):
        return Arr(x.axes, sym.Opq("interp", (x.elem, generic_elem(pos[1]), generic_elem(pos[2])), None), "nd")
    return I.unknown("interp", n)


# ----------------------------------------------------------------------------- attributes and methods of arrays

@prim("numpy.size", "numpy.shape", "numpy.ndim")
def p_size_shape(I, n, pos, kw):
    """np.size(a) / np.shape(a) / np.ndim(a): the attribute of the array the argument converts to"""
    if len(pos) != 1 or kw:
        return I.unknown("prim:" + I.log[-1]["target"], n)
    v = pos[0]
    if isinstance(v, Seq) and not v.items:
        what = I.log[-1]["target"].rsplit(".", 1)[1]
        return {"size": Sc(sym.ZERO), "shape": Seq([Sc(sym.ZERO)], "tuple"), "ndim": Sc(sym.ONE)}[what]
    if isinstance(v, Sc):
        what = I.log[-1]["target"].rsplit(".", 1)[1]
        return {"size": Sc(sym.ONE), "shape": Seq([], "tuple"), "ndim": Sc(sym.ZERO)}[what]
    a = v if isinstance(v, (Arr, Bag, Blocks, Alt)) else arrays.to_arr(v)
    if a is None:
        return I.unknown("prim:" + I.log[-1]["target"], n)
    return array_attr(I, a, I.log[-1]["target"].rsplit(".", 1)[1], n)


def array_attr(I, base: Val, attr: str, node) -> Val:
    if isinstance(base, Alt):
        return Alt([array_attr(I, x, attr, node) for x in base.vals])
    if attr == "shape":
        s = shape_of(base)
        if s is None:
            return I.unknown("shape-of-" + type(base).__name__, node)
        return Seq([Sc(x) for x in s], "tuple")
    if attr == "size":
        s = shape_of(base)
        if s is None:
            if isinstance(base, Bag) and base.size is not None:
                return Sc(base.size)
            return Sc(sym.Opq("len", (generic_elem(base),), fresh("n")))
        out = sym.ONE
        for x in s:
            out = sym.mul(out, x)
        return Sc(out)
    if attr == "ndim":
        s = shape_of(base)
        return Sc(sym.Num(len(s))) if s is not None else I.unknown("ndim", node)
    if attr == "T":
        if isinstance(base, Arr):
            t_ = Arr(tuple(reversed(base.axes)), base.elem, "nd", base.uid)
            if base.kind == "nd":
                t_.view_of = getattr(base, "view_of", None) or base   # the transpose shares the array's memory
            return t_
        a = arrays.to_arr(base)
        if isinstance(a, Arr):
            return Arr(tuple(reversed(a.axes)), a.elem, "nd")
        if isinstance(base, Blocks):
            I.event("transpose-blocks", node, base=base)
            return ObjV(None, dict(of=base), tag="transposed-blocks")
        return I.unknown("transpose", node)
    if attr == "dtype":
        return ObjV(None, {}, tag="dtype")
    if attr in ("real", "imag"):
        return base
    return I.unknown("attr-" + attr, node)


@method("flatten", "ravel")
def m_flatten(I, n, recv, pos, kw):
    order = kw.get("order", pos[0] if pos else None)
    o = order.s if isinstance(order, StrV) else "C"
    if isinstance(recv, Arr) and recv.ndim == 2 and all(sp.concrete is None for sp, _ in recv.axes):
        # a logically 1-d array that remembers the axes it was flattened from (row-major or column-major)
        out = Arr(recv.axes, recv.elem, "nd", recv.uid)
        out.flat = o
        I.event("flatten", n, arg=recv, order=o)
        return out
    return arrays.flatten(recv)


@method("dot")
def m_dot(I, n, recv, pos, kw):
    return dot(I, n, recv, pos[0])


@method("setflags")
def m_setflags(I, n, recv, pos, kw):
    # the writeable flag is not part of the value
    return NoneV()


@method("view")
def m_view(I, n, recv, pos, kw):
    if not pos and not kw and isinstance(recv, Arr):
        return recv
    return I.unknown("method:view", n)


@method("copy")
def m_copy(I, n, recv, pos, kw):
    if isinstance(recv, Seq):
        return Seq(list(recv.items), recv.kind)
    return recv


@method("astype")
def m_astype(I, n, recv, pos, kw):
    dt = pos[0] if pos else kw.get("dtype")
    if isinstance(dt, FuncV) and dt.target == "numpy.float32":
        return arrays.unop(lambda e: sym.fn("float32", e), recv)
    if isinstance(dt, FuncV) and dt.target in ("numpy.float64", "builtins.float"):
        return recv
    return arrays.unop(lambda e: sym.Opq("unmodelled:astype", (e,), None), recv)


@method("reshape")
def m_reshape(I, n, recv, pos, kw):
    shp = pos[0] if len(pos) == 1 else Seq(list(pos), "tuple")
    order = kw.get("order")
    o = order.s if isinstance(order, StrV) else "C"
    tgt = _shape_arg(I, shp) if not isinstance(shp, Sc) else [shp.e]
    flat = getattr(recv, "flat", None)
    ev = I.event("reshape", n, arg=recv, shape=tgt, order=o, flat=flat, verdict=None)
    if flat is not None and tgt is not None and isinstance(recv, Arr) and len(tgt) == recv.ndim:
        sizes = [sp.size for sp, _ in recv.axes]
        same = all(sym.equal(t, z) for t, z in zip(tgt, sizes))
        if same and o == flat:
            ev["verdict"] = "round-trip"
            return Arr(recv.axes, recv.elem, "nd")
        ev["verdict"] = "scrambled"
        return I.unknown("reshape-scrambles-axes", n, (generic_elem(recv),))
    # reshape(-1, k) of an (n, k) array (k concrete) is the array itself (C order); also spelled with the sizes
    ra = recv if isinstance(recv, Arr) else arrays.to_arr(recv)
    if isinstance(ra, Arr) and ra.ndim == 2 and tgt is not None and len(tgt) == 2 and o == "C" \
            and ra.axes[1][0].concrete is not None and tgt[1] == sym.Num(ra.axes[1][0].concrete) \
            and (tgt[0] == sym.Num(-1) or sym.equal(tgt[0], ra.axes[0][0].size)):
        ev["verdict"] = "same-shape"
        return Arr(ra.axes, ra.elem, "nd")
    return I.unknown("reshape", n, (generic_elem(recv),))


@method("min", "max", "sum", "all", "any")
def m_reduce(I, n, recv, pos, kw):
    op = I.log[-1]["target"]
    axis = _kw(kw, pos, "axis", 0)
    I.event("reduce", n, op=op, arg=recv, axis=axis)
    if axis is None or isinstance(axis, NoneV):
        return arrays.reduce_all(recv, op)
    ax = _num(axis)
    return arrays.reduce_axis(recv, int(ax), op)


@method("append")
def m_append(I, n, recv, pos, kw):
    from .absint import _SeqAcc
    if isinstance(recv, _SeqAcc):
        recv.appended.append(pos[0])
        recv.reaches.append(getattr(I, "cur_reach", sym.TRUE))
        return NoneV()
    if isinstance(recv, Seq):
        recv.items.append(pos[0])
        return NoneV()
    if isinstance(recv, ObjV) and recv.tag == "bucket" and len(pos) == 1:
        I.event("bucket-append", n, base=recv.attrs["base"], index=recv.attrs["index"], value=pos[0])
        return NoneV()
    return I.unknown("append-on-" + type(recv).__name__, n)


@method("sort")
def m_sort_inplace(I, n, recv, pos, kw):
    if isinstance(recv, Seq) and recv.kind == "list" and not hasattr(recv, "appended") and I.cfg.flags.get("order_model") is not None:
        I.log.append(dict(kind="ext-call", node=n, fi=None, path=[], reach=sym.TRUE, target="builtins.sorted", pos=[recv], kwargs=kw,
                          loops=[]))
        r = p_sort(I, n, [recv], kw)
        if isinstance(r, Seq):
            recv.items[:] = r.items
            return NoneV()
    return I.unknown("method:sort", n)


@method("pop")
def m_pop(I, n, recv, pos, kw):
    if isinstance(recv, DictV) and recv.generic is None and pos and isinstance(pos[0], StrV):
        # dict.pop(key[, default]) on a dictionary whose keys are all known
        if pos[0].s in recv.d:
            return recv.d.pop(pos[0].s)
        if len(pos) > 1:
            return pos[1]
        from .absint import Raised
        I.event("raise", n, exc="KeyError", definite=not I.path, message=f"pop({pos[0].s!r}) from a dict without that key")
        raise Raised("KeyError")
    if isinstance(recv, Seq) and recv.kind == "list" and not hasattr(recv, "appended"):
        k = -1
        if pos:
            if not (isinstance(pos[0], Sc) and pos[0].e is not None and pos[0].e[0] == "num" and float(pos[0].e[1]).is_integer()):
                return I.unknown("pop-at-unknown-position", n)
            k = int(pos[0].e[1])
        if -len(recv.items) <= k < len(recv.items):
            return recv.items.pop(k)
        if not getattr(recv, "prefix", None) and I.cfg.flags.get("live_lists"):
            # a list whose items are all known, popped at a position it does not have: IndexError, on this path for certain
            from .absint import Raised
            I.event("raise", n, exc="IndexError", definite=not I.path,
                    message=f"pop({k if pos else ''}) from a list of {len(recv.items)} item(s)")
            raise Raised("IndexError")
        return I.unknown("pop-from-empty-list", n)
    return I.unknown("pop-on-" + type(recv).__name__, n)


@method("insert")
def m_insert(I, n, recv, pos, kw):
    if isinstance(recv, Seq) and recv.kind == "list" and not hasattr(recv, "appended") and len(pos) == 2 \
            and isinstance(pos[0], Sc) and pos[0].e is not None and pos[0].e[0] == "num" and float(pos[0].e[1]).is_integer():
        recv.items.insert(int(pos[0].e[1]), pos[1])
        return NoneV()
    return I.unknown("insert-on-" + type(recv).__name__, n)


@method("extend")
def m_extend(I, n, recv, pos, kw):
    if isinstance(recv, Seq) and isinstance(pos[0], Seq) and not hasattr(recv, "appended"):
        recv.items.extend(pos[0].items)
        return NoneV()
    return I.unknown("extend", n)


@method("format")
def m_format(I, n, recv, pos, kw):
    if isinstance(recv, StrV) and recv.s == "{}" and len(pos) == 1 and not kw and isinstance(pos[0], Sc) and pos[0].e is not None:
        return StrV("<formatted>", arg=pos[0].e)
    return StrV("<formatted>")


@method("join")
def m_join(I, n, recv, pos, kw):
    # "<sep>".join(<strings>): the text when every piece is known, a rendered string otherwise (texts carry no numbers)
    if isinstance(recv, StrV):
        items = pos[0].items if pos and isinstance(pos[0], Seq) else None
        if items is not None and all(isinstance(x, StrV) and x.s not in ("<formatted>", "<f-string>") for x in items):
            return StrV(recv.s.join(x.s for x in items))
        return StrV("<formatted>")
    return I.unknown("method:join", n)


def _dict_key_val(k):
    return StrV(k) if isinstance(k, str) and not k.startswith("$") else (Sc(sym.Bool(k == "$True")) if isinstance(k, str) else Sc(sym.Num(k)))


@method("items")
def m_items(I, n, recv, pos, kw):
    if isinstance(recv, DictV) and recv.generic is None:
        return Seq([Seq([_dict_key_val(k), v], "tuple") for k, v in recv.d.items()], "list")
    return I.unknown("method:items", n)


@method("keys")
def m_keys(I, n, recv, pos, kw):
    if isinstance(recv, DictV) and recv.generic is None:
        return Seq([_dict_key_val(k) for k in recv.d], "list")
    return I.unknown("method:keys", n)


@method("values")
def m_values(I, n, recv, pos, kw):
    if isinstance(recv, DictV) and recv.generic is None:
        return Seq(list(recv.d.values()), "list")
    return I.unknown("method:values", n)


@method("get")
def m_get(I, n, recv, pos, kw):
    if isinstance(recv, DictV) and isinstance(pos[0], StrV):
        if pos[0].s in recv.d:
            return recv.d[pos[0].s]
        return pos[1] if len(pos) > 1 else NoneV()
    return I.unknown("get", n)


def _plot_method(name):
    def h(I, n, recv, pos, kw):
        I.event("draw", n, method=name, recv=recv, pos=pos, kwargs=kw)
        return ObjV(None, {}, tag="artist")
    return h


for _m in ("plot", "scatter", "set_xlim", "set_ylim", "set_xlabel", "set_ylabel", "set_title", "legend", "set_aspect",
           "add_collection", "imshow", "matshow", "axis", "margins", "set_zlabel", "view_init", "add_subplot",
           "get_xlim", "get_ylim", "get_position", "get_xaxis", "get_yaxis", "set_ticks", "to_rgba"):
    METHODS[_m] = _plot_method(_m)

for _p in ("plot", "scatter", "show", "savefig", "title", "xlabel", "ylabel", "legend", "xlim", "ylim", "axis",
           "get_cmap", "style.use"):
    def _mk(name):
        def h(I, n, pos, kw):
            I.event("pyplot", n, function=name, pos=pos, kwargs=kw)
            return ObjV(None, {}, tag="artist")
        return h
    TABLE["matplotlib.pyplot." + _p] = _mk(_p)
