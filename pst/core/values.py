"""Abstract values of the symbolic evaluator: spaces, scalars, arrays by generic element, blocks, bags."""
from __future__ import annotations

import itertools
from typing import Dict, List, Optional, Tuple

from . import sym
from .sym import Expr

_counter = itertools.count(1)


def fresh(prefix="i") -> str:
    return f"{prefix}{next(_counter)}"


class Space:
    def __init__(self, key, size: Expr, concrete: Optional[int] = None, parent: "Space" = None):
        self.key = key
        self.size = size
        self.concrete = concrete
        self.parent = parent

    def __repr__(self):
        return f"Space({self.key})"

    def same_size(self, other: "Space") -> bool:
        return sym.equal(self.size, other.size)


def fix(n: int) -> Space:
    return Space(("n", n), sym.Num(n), n)


def rows(name: str) -> Space:
    k = ("rows", name)
    return Space(k, sym.Size(k))


def rng(size: Expr) -> Space:
    if size[0] == "num" and float(size[1]).is_integer() and 0 <= size[1] <= 64:
        return fix(int(size[1]))
    # a range over |rows(x)| positions is the row space itself
    if size[0] == "size":
        return Space(size[1], size)
    return Space(("range", size), size)


def subspace(parent: Space, tag) -> Space:
    k = ("sub", parent.key, tag)
    return Space(k, sym.Size(k), None, parent)


class Val:
    pass


class Sc(Val):
    def __init__(self, e: Expr):
        self.e = e

    def __repr__(self):
        return f"Sc({sym.show(self.e)})"


class NoneV(Val):
    def __repr__(self):
        return "NoneV"


class Opt(Val):
    """`None` when `none_if` holds, `val` otherwise (a function that returns None as a sentinel on some path)."""

    def __init__(self, none_if, val):
        self.none_if = none_if
        self.val = val

    def __repr__(self):
        return f"Opt({self.val!r})"


class StrV(Val):
    def __init__(self, s, arg=None):
        self.s = s
        self.arg = arg  # the single scalar a "{}".format(x) / str(x) / f"{x}" key was rendered from, when known

    def __repr__(self):
        return f"StrV({self.s!r})"


class Arr(Val):
    """N-d array (or python list when kind == 'list') given by its generic element.
    axes: tuple of (Space, ivar); elem mentions the ivars."""

    def __init__(self, axes, elem: Expr, kind="nd", uid=None):
        self.axes = tuple(axes)
        self.elem = elem
        self.kind = kind
        self.uid = uid or fresh("a")

    @property
    def ndim(self):
        return len(self.axes)

    def __repr__(self):
        ax = ",".join(f"{iv}∈{sp.key}" for sp, iv in self.axes)
        return f"Arr[{ax}]({sym.show(self.elem)})"

    def renamed(self) -> "Arr":
        """Same array with fresh index variables (so two uses never capture each other)."""
        e = self.elem
        axes = []
        for sp, iv in self.axes:
            nv = fresh()
            e = sym.subst_ivar(e, iv, (nv, 0))
            axes.append((sp, nv))
        return Arr(axes, e, self.kind, self.uid)


class Blocks(Val):
    """2-d array assembled by slice stores into a base array."""

    def __init__(self, shape: Tuple[Expr, Expr], base: Expr, stores=None, uid=None):
        self.shape = shape
        self.base = base
        self.stores = list(stores or [])
        self.uid = uid or fresh("D")

    def elem_choice(self) -> Expr:
        alts = [self.base]
        for s in self.stores:
            alts.append(generic_elem(s["val"]))
        return sym.Choice(alts)

    def __repr__(self):
        return f"Blocks{self.shape}({len(self.stores)} stores)"


class DiagMat(Val):
    def __init__(self, n: Expr, iv: str, on: Expr, off: Expr, uid=None):
        self.n = n
        self.iv = iv
        self.on = on
        self.off = off
        self.uid = uid or fresh("G")

    def __repr__(self):
        return f"DiagMat(n={sym.show(self.n)}, on={sym.show(self.on)}, off={sym.show(self.off)})"


class Bag(Val):
    """Unordered/sorted collection of values drawn from `elem` (a Choice over generic elements)."""

    def __init__(self, elem: Expr, size: Optional[Expr] = None, is_sorted=False, src=None, parts=None, direction=None):
        self.elem = elem
        self.size = size
        self.is_sorted = is_sorted
        self.direction = direction if is_sorted else None  # "asc" | "desc" | None (order not known)
        self.src = src
        self.parts = parts  # list of Arr the bag was concatenated from (for per-part facets)

    def __repr__(self):
        return f"Bag({sym.show(self.elem)})"


class VStack(Bag):
    """Arrays stacked along axis 0, in order (np.vstack / np.concatenate): still a bag of their elements for whoever only
    sorts / flattens it, but rows keep their place, so `stacked[0:M]` is the first part when M is its length."""

    def __init__(self, parts: List["Arr"]):
        elem = sym.Choice([p.elem for p in parts])
        size = None
        Bag.__init__(self, elem, size, False, None, list(parts))
        self.ordered = list(parts)

    def __repr__(self):
        return f"VStack({self.ordered})"


class Seq(Val):
    def __init__(self, items: List[Val], kind="list"):
        self.items = list(items)
        self.kind = kind

    def __repr__(self):
        return f"Seq{self.kind[0]}({self.items})"


class Concat(Val):
    def __init__(self, parts: List[Val]):
        self.parts = parts

    def __repr__(self):
        return f"Concat({self.parts})"


class DictV(Val):
    def __init__(self, d=None, generic: Optional[Val] = None):
        self.d = dict(d or {})
        self.generic = generic

    def __repr__(self):
        return f"DictV({list(self.d)}{', …' if self.generic is not None else ''})"


class FuncV(Val):
    def __init__(self, kind, target, closure=None, bound_self=None):
        self.kind = kind  # repo | lambda | prim | local | class
        self.target = target
        self.closure = closure
        self.bound_self = bound_self

    def __repr__(self):
        return f"FuncV({self.kind}:{self.target if isinstance(self.target, str) else '<node>'})"


class ObjV(Val):
    def __init__(self, cls: Optional[str], attrs: Dict[str, Val] = None, tag=None):
        self.cls = cls
        self.attrs = dict(attrs or {})
        self.tag = tag

    def __repr__(self):
        return f"ObjV({self.cls or self.tag})"


class CondSeq(Val):
    """A python list built by a comprehension over concrete items with filters that are not decided: item k is present
    only when conds[k] holds.  Only a `for` loop knows how to consume it (the body runs under the item's condition)."""

    def __init__(self, items, conds):
        self.items = list(items)
        self.conds = list(conds)

    def __repr__(self):
        return f"CondSeq({len(self.items)} conditional items)"


class ModV(Val):
    def __init__(self, name):
        self.name = name

    def __repr__(self):
        return f"ModV({self.name})"


class Unknown(Val):
    """Value the evaluator cannot represent; carries an opaque expression so facets fail closed."""

    def __init__(self, tag: str, deps=(), node=None):
        self.tag = tag
        self.deps = tuple(deps)
        self.node = node
        self.e = sym.Opq("unmodelled:" + tag, tuple(d for d in deps if isinstance(d, Expr)), fresh("u"))

    def __repr__(self):
        return f"Unknown({self.tag})"


ALT_LIMIT = 12


class Alt(Val):
    def __new__(cls, vals: List[Val]):
        flat = []
        for v in vals:
            if isinstance(v, Alt):
                flat.extend(v.vals)
            else:
                flat.append(v)
        # alternatives that are all scalars are one scalar Choice
        if flat and all(isinstance(v, Sc) for v in flat):
            return Sc(sym.Choice([v.e for v in flat]))
        # several 'not modelled' alternatives are one: they all say the same thing, and keeping each of them makes every
        # later operation multiply the alternatives (products of alternatives grew without bound on some rewrites)
        unk = [v for v in flat if isinstance(v, Unknown)]
        if len(unk) > 1:
            flat = [v for v in flat if not isinstance(v, Unknown)] + [unk[0]]
        seen, uniq = set(), []
        for v in flat:
            if id(v) not in seen:
                seen.add(id(v))
                uniq.append(v)
        flat = uniq
        if len(flat) > ALT_LIMIT:
            return Unknown("too-many-alternatives", tuple(generic_elem(v) for v in flat[:4]))
        if len(flat) == 1:
            return flat[0]
        obj = object.__new__(cls)
        obj.vals = flat
        return obj

    def __init__(self, vals: List[Val]):
        pass

    def __repr__(self):
        return f"Alt({self.vals})"


def generic_elem(v: Val) -> Expr:
    """Expression for an arbitrary element of v."""
    if isinstance(v, Opt):
        return generic_elem(v.val)
    if isinstance(v, Sc):
        return v.e
    if isinstance(v, Arr):
        return v.elem
    if isinstance(v, Blocks):
        return v.elem_choice()
    if isinstance(v, DiagMat):
        return sym.Choice([v.on, v.off])
    if isinstance(v, Bag):
        return v.elem
    if isinstance(v, Seq):
        return sym.Choice([generic_elem(x) for x in v.items]) if v.items else sym.Opq("empty", ())
    if isinstance(v, Concat):
        return sym.Choice([generic_elem(x) for x in v.parts])
    if isinstance(v, Alt):
        return sym.Choice([generic_elem(x) for x in v.vals])
    if isinstance(v, Unknown):
        return v.e
    if isinstance(v, NoneV):
        return sym.Opq("none", ())
    if type(v).__name__ == "PSet":
        return sym.Opq("index", (v.pred,), None)
    return sym.Opq("unmodelled:elem-of-" + type(v).__name__, (), fresh("u"))


def shape_of(v: Val) -> Optional[List[Expr]]:
    if isinstance(v, Arr):
        return [sp.size for sp, _ in v.axes]
    if isinstance(v, Blocks):
        return list(v.shape)
    if isinstance(v, DiagMat):
        return [v.n, v.n]
    if isinstance(v, Seq):
        inner = shape_of(v.items[0]) if v.items else None
        return [sym.Num(len(v.items))] + (inner or [])
    if isinstance(v, Sc):
        return []
    return None


# ----------------------------------------------------------------------------- families of per-position lists
def is_bucket_family(v) -> bool:
    """[[] for _ in range(n)] and what derives from it: a list of lists, one per position, filled by appends"""
    return isinstance(v, Arr) and v.kind == "list" and v.ndim == 2 and v.axes[1][0].concrete == 0


def bucket_root(v):
    return getattr(v, "bucket_root", None) or v


def bucket_handle(family, index: Expr, order=None) -> "ObjV":
    if order is None:
        order = getattr(family, "bucket_order", None)
    return ObjV(None, dict(base=family, root=bucket_root(family), index=index, order=order), tag="bucket")


def bucket_family_like(family, order) -> "Arr":
    """the same buckets seen through `[sorted(b, ...) for b in family]`: a new list object over the same contents"""
    f2 = Arr([(sp, fresh()) for sp, _ in family.axes], family.elem, "list")
    f2.bucket_root = bucket_root(family)
    f2.bucket_order = order
    f2.bucket_sorted_over = "all"
    return f2


class PSet(Val):
    """A set of integers given by a membership predicate over the element variable `var` (an index variable name):
    {e : pred[var := e]} — what `{j for j in range(n) if c(j)}`, set(np.flatnonzero(mask)), set(range(a, b)) and s.add(x)
    build."""
    VAR = "$e"

    def __init__(self, pred: Expr):
        self.pred = pred

    def __repr__(self):
        return f"PSet({sym.show(self.pred)[:120]})"
