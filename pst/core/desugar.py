"""Desugaring of newer statement forms into the core the analyses read (applied to every module right after parsing).

  * `match <subject>: case <pattern>: ...`  ->  an if / elif chain, when every pattern is a literal, a singleton, a
    wildcard, a capture, an or-pattern or a fixed-length sequence of those.  A sequence pattern against a tuple display
    (`match (a < b, c): case (True, _):`) tests the elements one by one.  Anything else (class patterns, mappings, stars,
    guards that bind) is left as it is and stays unmodelled.
  * `if (x := e) ...:` / `y = f((x := e))` / `return (x := e)`  ->  `x = e` in front of the statement, when the assignment
    expression sits where it is evaluated unconditionally (not behind `and` / `or`, a conditional expression, a lambda or
    a comprehension).  `while` tests are left alone (the binding happens once per round).

Positions are copied from the original nodes, so reports still point at the line the developer wrote.
"""
from __future__ import annotations

import ast
import itertools
from typing import List, Optional

_counter = itertools.count(1)


class _Unsupported(Exception):
    pass


def _boolish(e: ast.AST) -> bool:
    return isinstance(e, (ast.Compare, ast.BoolOp)) or (isinstance(e, ast.UnaryOp) and isinstance(e.op, ast.Not)) \
        or (isinstance(e, ast.Constant) and isinstance(e.value, bool))


def _test_of(pat, subj: ast.AST, binds: List[ast.stmt]) -> Optional[ast.AST]:
    """the condition under which `subj` matches `pat` (None = always); captures are appended to `binds`"""
    if isinstance(pat, ast.MatchValue):
        return ast.Compare(subj, [ast.Eq()], [pat.value])
    if isinstance(pat, ast.MatchSingleton):
        if pat.value is True and _boolish(subj):
            return subj
        if pat.value is False and _boolish(subj):
            return ast.UnaryOp(ast.Not(), subj)
        return ast.Compare(subj, [ast.Is()], [ast.Constant(pat.value)])
    if isinstance(pat, ast.MatchAs):
        if pat.pattern is None:
            if pat.name is not None:
                binds.append(ast.Assign([ast.Name(pat.name, ast.Store())], subj))
            return None
        t = _test_of(pat.pattern, subj, binds)
        if pat.name is not None:
            binds.append(ast.Assign([ast.Name(pat.name, ast.Store())], subj))
        return t
    if isinstance(pat, ast.MatchOr):
        sub = []
        for p in pat.patterns:
            b2: List[ast.stmt] = []
            t = _test_of(p, subj, b2)
            if b2:
                raise _Unsupported()
            if t is None:
                return None
            sub.append(t)
        return ast.BoolOp(ast.Or(), sub)
    if isinstance(pat, ast.MatchSequence):
        if any(isinstance(p, ast.MatchStar) for p in pat.patterns):
            raise _Unsupported()
        if isinstance(subj, ast.Tuple) and len(subj.elts) == len(pat.patterns):
            elems = list(subj.elts)
        elif isinstance(subj, ast.Tuple):
            return ast.Constant(False)
        else:
            raise _Unsupported()
        tests = []
        for p, e in zip(pat.patterns, elems):
            t = _test_of(p, e, binds)
            if t is not None:
                tests.append(t)
        if not tests:
            return None
        return tests[0] if len(tests) == 1 else ast.BoolOp(ast.And(), tests)
    raise _Unsupported()


def _unconditional_walrus(e: ast.AST) -> List[ast.NamedExpr]:
    """assignment expressions of `e` that are evaluated whenever `e` is"""
    out: List[ast.NamedExpr] = []

    def rec(n):
        if isinstance(n, ast.NamedExpr):
            rec(n.value)
            out.append(n)
            return
        if isinstance(n, (ast.Lambda, ast.ListComp, ast.SetComp, ast.DictComp, ast.GeneratorExp)):
            return
        if isinstance(n, ast.BoolOp):
            rec(n.values[0])
            return
        if isinstance(n, ast.IfExp):
            rec(n.test)
            return
        if isinstance(n, ast.Compare):
            rec(n.left)
            rec(n.comparators[0])
            return
        for c in ast.iter_child_nodes(n):
            if isinstance(c, ast.expr):
                rec(c)
    rec(e)
    return out


class _ReplaceWalrus(ast.NodeTransformer):
    def __init__(self, targets):
        self.targets = {id(t) for t in targets}

    def visit_NamedExpr(self, n):
        self.generic_visit(n)
        if id(n) in self.targets:
            return ast.copy_location(ast.Name(n.target.id, ast.Load()), n)
        return n


class Desugar(ast.NodeTransformer):
    def __init__(self):
        self.changed = 0

    # ------------------------------------------------------------------ blocks
    def _block(self, stmts: List[ast.stmt]) -> List[ast.stmt]:
        out: List[ast.stmt] = []
        for st in stmts:
            st = self.visit(st)
            for piece in (st if isinstance(st, list) else [st]):
                out.extend(self._hoist(piece))
        return out

    def generic_visit(self, node):
        for fld in ("body", "orelse", "finalbody"):
            sub = getattr(node, fld, None)
            if isinstance(sub, list) and sub and isinstance(sub[0], ast.stmt):
                setattr(node, fld, self._block(sub))
        if isinstance(node, ast.Try):
            for h in node.handlers:
                h.body = self._block(h.body)
        if isinstance(node, ast.Match):
            for c in node.cases:
                c.body = self._block(c.body)
        return node

    # ------------------------------------------------------------------ walrus
    def _hoist(self, st: ast.stmt) -> List[ast.stmt]:
        if isinstance(st, ast.If):
            e = st.test
        elif isinstance(st, (ast.Assign, ast.AugAssign, ast.AnnAssign, ast.Return, ast.Expr)):
            e = st.value
        else:
            return [st]
        if e is None:
            return [st]
        ws = _unconditional_walrus(e)
        if not ws:
            return [st]
        pre = []
        for w_ in ws:
            val = _ReplaceWalrus([x for x in ws if x is not w_]).visit(w_.value)
            a = ast.Assign([ast.Name(w_.target.id, ast.Store())], val)
            ast.copy_location(a, st)
            pre.append(a)
        new_e = _ReplaceWalrus(ws).visit(e)
        if isinstance(st, ast.If):
            st.test = new_e
        else:
            st.value = new_e
        for a in pre:
            ast.fix_missing_locations(a)
        self.changed += 1
        return pre + [st]

    # ------------------------------------------------------------------ match
    def visit_Match(self, n: ast.Match):
        self.generic_visit(n)
        subj = n.subject
        pre: List[ast.stmt] = []
        if not isinstance(subj, (ast.Name, ast.Tuple, ast.Constant)):
            tmp = f"_match{next(_counter)}"
            a = ast.Assign([ast.Name(tmp, ast.Store())], subj)
            ast.copy_location(a, n)
            pre.append(a)
            subj = ast.Name(tmp, ast.Load())
        try:
            arms = []
            for c in n.cases:
                binds: List[ast.stmt] = []
                t = _test_of(c.pattern, subj, binds)
                if c.guard is not None:
                    if binds:
                        raise _Unsupported()
                    t = c.guard if t is None else ast.BoolOp(ast.And(), [t, c.guard])
                arms.append((t, binds + list(c.body), c))
        except _Unsupported:
            return n
        chain: List[ast.stmt] = []
        for t, body, c in reversed(arms):
            if t is None:
                chain = body
            else:
                node = ast.If(t, body, chain)
                ast.copy_location(node, c.pattern)
                ends = [getattr(x, "end_lineno", None) for x in body + chain]
                node.end_lineno = max([e_ for e_ in ends if e_ is not None] + [getattr(c.pattern, "end_lineno", 0) or 0])
                chain = [node]
        if not chain:
            chain = [ast.copy_location(ast.Pass(), n)]
        out = pre + chain
        for x in out:
            if not hasattr(x, "lineno"):
                ast.copy_location(x, n)
            ast.fix_missing_locations(x)
        self.changed += 1
        return out


def desugar_module(tree: ast.Module) -> ast.Module:
    d = Desugar()
    tree.body = d._block(tree.body)
    if d.changed:
        ast.fix_missing_locations(tree)
    return tree
