"""Decide equality of two derived normal forms by evaluating *the expressions* (not persim) at random
points (Schwartz–Zippel style identity testing). A disagreement is a definite refutation and the point is the
witness input; agreement on every trial is accepted as equality. persim code is never executed."""
from __future__ import annotations

import math
import random
from typing import Callable, Dict, Optional, Tuple

from . import sym
from .sym import Expr


ARRAYS = {}   # uid -> array kept for reads at computed positions (see prims.p_pad)


class NotEvaluable(Exception):
    pass


class Point:
    """An assignment: input tensors (by name, lazily random), symbols, index variables, sizes, opaque values."""

    def __init__(self, rng: random.Random, nrows: int = 3, positive_syms=(), sizes: Dict = None, integer_inputs=False,
                 input_fn=None):
        self.rng = rng
        self.nrows = nrows
        self.inputs: Dict[Tuple[str, tuple], float] = {}
        self.syms: Dict[str, float] = {}
        self.ivs: Dict[str, int] = {}
        self.sizes: Dict = dict(sizes or {})
        self.opq: Dict[Expr, float] = {}
        self.positive_syms = set(positive_syms)
        self.integer_inputs = integer_inputs
        self.input_fn = input_fn
        self.eval_ranges = False  # ("range", expr) spaces: evaluate expr instead of drawing a size
        self.degenerate = False  # ties on purpose: coordinates repeated exactly / nearly / zero (boundaries of row masks)

    def inp(self, name, idx):
        k = (name, idx)
        if k not in self.inputs:
            v = self.input_fn(self, name, idx) if self.input_fn is not None else None
            if v is not None:
                self.inputs[k] = v
            elif self.degenerate and self.inputs and self.rng.random() < 0.5:
                prev = [x for (n2, _), x in sorted(self.inputs.items()) if n2 == name] or list(self.inputs.values())
                base = self.rng.choice(prev)
                r = self.rng.random()
                self.inputs[k] = base if r < 0.6 else base + self.rng.choice([1e-7, -1e-7, 1e-4]) if r < 0.9 else 0.0
            elif self.integer_inputs:
                self.inputs[k] = float(self.rng.randint(-4, 4))
            else:
                self.inputs[k] = self.rng.choice([-1, 1]) * self.rng.uniform(0.1, 3.0)
        return self.inputs[k]

    def symv(self, name):
        if name not in self.syms and name.startswith("$chunk"):
            self.syms[name] = float(self.rng.randint(1, 2))   # a block size: small, so that few rows span several blocks
        if name not in self.syms:
            v = self.rng.uniform(0.2, 2.5)
            if name not in self.positive_syms and self.rng.random() < 0.3:
                v = -v
            self.syms[name] = v
        return self.syms[name]

    def iv(self, name):
        if isinstance(name, str) and name.startswith("@") and name in __import__("pst.core.sym", fromlist=["x"]).INDEX_EXPRS:
            # the value of its position expression HERE (it may mention index variables that a surrounding sum is stepping
            # through): never remembered
            from .sym import INDEX_EXPRS as _IX
            try:
                v = ev(_IX[name], self)
                if isinstance(v, (int, float)) and not isinstance(v, bool) and v == v and abs(v) != float("inf"):
                    return int(round(v))
            except (NotEvaluable, RecursionError):
                pass
        if name not in self.ivs and isinstance(name, str) and name.startswith("@"):
            # a pseudo index variable that stands for a data-dependent index expression (arrays.intern_index): its value
            # is the value of that expression at this point, whenever it can be evaluated
            from .arrays import INDEX_EXPRS
            x = INDEX_EXPRS.get(name)
            if x is not None:
                try:
                    v = ev(x, self)
                    if isinstance(v, (int, float)) and not isinstance(v, bool) and v == v and abs(v) != float("inf"):
                        self.ivs[name] = int(round(v))
                except (NotEvaluable, RecursionError):
                    pass
        if name not in self.ivs:
            self.ivs[name] = self.rng.randrange(2 * self.nrows + 1)
        return self.ivs[name]

    def size(self, key):
        if isinstance(key, tuple) and len(key) == 2 and key[0] == "n" and isinstance(key[1], int):
            return key[1]   # an axis of fixed, known length
        if key not in self.sizes:
            if isinstance(key, tuple) and len(key) == 2 and key[0] == "range" and isinstance(key[1], Expr) \
                    and self.eval_ranges:
                v = ev(key[1], self)
                if isinstance(v, float) and (math.isnan(v) or math.isinf(v)):
                    raise NotEvaluable("range of non-finite length")
                return max(0, int(math.ceil(v - 1e-9)))
            self.sizes[key] = self.rng.randint(1, self.nrows + 1)
        return self.sizes[key]


def space_rows(key, pt: Point):
    """indices iterated by a sum / reduction over the space `key`: 0..n-1, or — for a sub-space ("sub", base, mask) — the
    rows of the base space on which the mask holds (the mask is evaluated with its index variables bound to the row)"""
    if isinstance(key, tuple) and len(key) == 3 and key[0] == "sub" and isinstance(key[2], Expr):
        base_rows = space_rows(key[1], pt)
        mask = key[2]
        ivs = sorted(sym.free_ivars(mask))
        saved = {iv: pt.ivs.get(iv) for iv in ivs}
        out = []
        try:
            for k in base_rows:
                for iv in ivs:
                    pt.ivs[iv] = k
                try:
                    keep = bool(ev(mask, pt))
                except NotEvaluable:
                    raise
                if keep:
                    out.append(k)
        finally:
            for iv, v in saved.items():
                if v is None:
                    pt.ivs.pop(iv, None)
                else:
                    pt.ivs[iv] = v
        return out
    if isinstance(key, tuple) and len(key) == 4 and key[0] == "strided":
        # trips 0 .. ceil((hi - lo)/step) - 1 of range(lo, hi, step)
        lo, hi, st = (ev(x, pt) for x in key[1:])
        if st <= 0:
            raise NotEvaluable("non-positive range step")
        return list(range(max(0, int(math.ceil((hi - lo) / st - 1e-9)))))
    if isinstance(key, tuple) and len(key) == 4 and key[0] == "slice":
        # positions lo … hi-1 of the parent space (the index variable keeps the parent's numbering)
        lo, hi = int(round(ev(key[2], pt))), int(round(ev(key[3], pt)))
        return [k for k in space_rows(key[1], pt) if lo <= k < hi]
    return list(range(pt.size(key)))


def ev(e: Expr, pt: Point):
    t = e[0]
    if t == "num":
        return e[1]
    if t == "bool":
        return e[1]
    if t == "in":
        idx = []
        for i in e[2]:
            if isinstance(i, tuple):
                idx.append(pt.iv(i[0]) + i[1])
            else:
                idx.append(i)
        return pt.inp(e[1], tuple(idx))
    if t == "sym":
        return pt.symv(e[1])
    if t == "size":
        k_ = e[1]
        if isinstance(k_, tuple) and len(k_) == 3 and k_[0] == "sub" and isinstance(k_[2], Expr):
            return float(len(space_rows(k_, pt)))
        if isinstance(k_, tuple) and len(k_) == 4 and k_[0] in ("strided", "slice"):
            return float(len(space_rows(k_, pt)))
        return float(pt.size(k_))
    if t == "iv":
        return float(pt.iv(e[1]) + e[2])
    if t == "lin":
        s = e[2]
        for x, k in e[1]:
            s += k * ev(x, pt)
        return s
    if t == "mul":
        s = 1.0
        for x in e[1]:
            s *= ev(x, pt)
        return s
    if t == "div":
        d = ev(e[2], pt)
        n = ev(e[1], pt)
        if d == 0:
            return math.copysign(math.inf, n) if n != 0 else math.nan
        return n / d
    if t == "pow":
        b, x = ev(e[1], pt), ev(e[2], pt)
        try:
            r = b ** x
        except (ZeroDivisionError, OverflowError):
            return math.nan
        if isinstance(r, complex):
            return math.nan
        return r
    if t == "fn":
        name = e[1]
        a = [ev(x, pt) for x in e[2]]
        try:
            if name == "abs":
                return abs(a[0])
            if name == "sqrt":
                return math.sqrt(a[0]) if a[0] >= 0 else math.nan
            if name == "exp":
                return math.exp(a[0])
            if name == "log":
                return math.log(a[0]) if a[0] > 0 else math.nan
            if name == "log2":
                return math.log2(a[0]) if a[0] > 0 else math.nan
            if name == "log10":
                return math.log10(a[0]) if a[0] > 0 else math.nan
            if name in ("sin", "cos", "tan", "erfc", "erf", "floor", "ceil"):
                return getattr(math, name)(a[0])
            if name == "arcsin":
                return math.asin(a[0]) if -1 <= a[0] <= 1 else math.nan
            if name == "max":
                return max(a)
            if name == "min":
                return min(a)
            if name == "int":
                return float(int(a[0]))
            if name in ("round", "rint"):
                return float(round(a[0]))
            if name == "float32":
                return sym._f32(a[0])
            if name == "isfinite":
                return math.isfinite(a[0])
            if name == "isinf":
                return math.isinf(a[0])
            if name == "sign":
                return float((a[0] > 0) - (a[0] < 0))
        except (OverflowError, ValueError):
            return math.nan
        raise NotEvaluable(f"fn {name}")
    if t == "sum":
        saved = pt.ivs.get(e[1])
        s = 0.0
        for k in space_rows(e[2], pt):
            pt.ivs[e[1]] = k
            s += ev(e[3], pt)
        if saved is None:
            pt.ivs.pop(e[1], None)
        else:
            pt.ivs[e[1]] = saved
        return s
    if t == "red":
        saved = pt.ivs.get(e[2])
        vals = []
        for k in space_rows(e[3], pt):
            pt.ivs[e[2]] = k
            vals.append(ev(e[4], pt))
        if saved is None:
            pt.ivs.pop(e[2], None)
        else:
            pt.ivs[e[2]] = saved
        if e[1] in ("all", "any"):
            return {"all": all, "any": any}[e[1]](vals)
        if not vals:
            raise NotEvaluable("empty reduction")
        if e[1] in ("argmin", "argmax"):
            if any(isinstance(v, float) and math.isnan(v) for v in vals):
                raise NotEvaluable("arg-extreme over NaN")
            ext = min(vals) if e[1] == "argmin" else max(vals)
            return float(vals.index(ext))  # first occurrence, as numpy
        return {"max": max, "min": min}[e[1]](vals)
    if t == "sel":
        k = pt.iv(e[1]) % len(e[2])
        return ev(e[2][k], pt)
    if t == "ite":
        return ev(e[2], pt) if ev(e[1], pt) else ev(e[3], pt)
    if t == "cmp":
        a, b = ev(e[2], pt), ev(e[3], pt)
        return {"<": a < b, "<=": a <= b, ">": a > b, ">=": a >= b, "==": a == b, "!=": a != b}[e[1]]
    if t == "not":
        return not ev(e[1], pt)
    if t == "and":
        return all(ev(x, pt) for x in e[1])
    if t == "or":
        return any(ev(x, pt) for x in e[1])
    if t == "choice":
        # one of the alternatives; the same Choice node resolves the same way everywhere in a trial
        if e not in pt.opq:
            pt.opq[e] = pt.rng.randrange(len(e[1]))
        return ev(e[1][int(pt.opq[e])], pt)
    if t == "at":
        bl = getattr(pt, "blocks", None)
        if bl and e[1] in bl and len(e[3]) == 2 and all(isinstance(x, Expr) for x in e[3]):
            return eval_block_entry(bl[e[1]], int(round(ev(e[3][0], pt))), int(round(ev(e[3][1], pt))), pt)
        A = ARRAYS.get(e[1])
        if A is not None and len(e[3]) == A.ndim and all(isinstance(x, Expr) for x in e[3]):
            # an array kept under its own position variables, read at computed positions
            idx = [int(round(ev(x, pt))) for x in e[3]]
            saved = dict(pt.ivs)
            try:
                for (sp_, iv_), k_ in zip(A.axes, idx):
                    n_ = int(round(ev(sp_.size, pt)))
                    if not 0 <= k_ < n_:
                        raise NotEvaluable(f"read at position {k_} of an axis of {n_} entries")
                    pt.ivs[iv_] = k_
                return ev(A.elem, pt)
            finally:
                pt.ivs.clear()
                pt.ivs.update(saved)
        return ev(e[2], pt)
    if t == "opq":
        if e[1].startswith("unmodelled"):
            raise NotEvaluable(e[1])
        fnmap = getattr(pt, "opq_fn", None)
        if fnmap and e[1] in fnmap:
            return fnmap[e[1]](pt, e)
        # an uninterpreted function of its arguments: equal argument values give equal results
        key = e
        if e[2] and all(isinstance(d, Expr) for d in e[2]) and e[3] is None:
            try:
                key = (e[1],) + tuple(round(float(ev(d, pt)), 9) for d in e[2])
            except (NotEvaluable, TypeError, ValueError):
                key = e
        if key not in pt.opq:
            pt.opq[key] = float(pt.rng.randrange(0, 2 * pt.nrows)) if e[3] is not None or not e[2] else pt.rng.uniform(-2, 2)
        return pt.opq[key]
    raise NotEvaluable(t)


def eval_block_entry(D, r: int, c: int, pt: Point):
    """entry (r, c) of a matrix assembled by block stores (the last store covering the cell wins; otherwise the base)"""
    from .values import Arr, DiagMat, Sc
    for s in reversed(D.stores):
        r0, r1 = int(round(ev(s["r0"], pt))), int(round(ev(s["r1"], pt)))
        c0, c1 = int(round(ev(s["c0"], pt))), int(round(ev(s["c1"], pt)))
        if not (r0 <= r < r1 and c0 <= c < c1):
            continue
        v = s["val"]
        saved = dict(pt.ivs)
        try:
            if isinstance(v, Sc):
                return ev(v.e, pt)
            if isinstance(v, DiagMat):
                if r - r0 == c - c0:
                    pt.ivs[v.iv] = r - r0
                    return ev(v.on, pt)
                return ev(v.off, pt)
            if isinstance(v, Arr) and v.ndim == 2:
                (sp0, i0), (sp1, i1) = v.axes
                pt.ivs[i0] = (r - r0) if sp0.concrete != 1 else 0
                pt.ivs[i1] = (c - c0) if sp1.concrete != 1 else 0
                return ev(v.elem, pt)
            raise NotEvaluable("block of unknown kind")
        finally:
            pt.ivs.clear()
            pt.ivs.update(saved)
    return ev(D.base, pt)


def _close(a, b, tol):
    if isinstance(a, bool) or isinstance(b, bool):
        return bool(a) == bool(b)
    if isinstance(a, float) and isinstance(b, float):
        if math.isnan(a) or math.isnan(b):
            return math.isnan(a) and math.isnan(b)
        if math.isinf(a) or math.isinf(b):
            return a == b
    return abs(a - b) <= tol * max(1.0, abs(a), abs(b))


def bars_input(pt: "Point", name, idx):
    """birth/death pairs with death > birth (positive bar length)"""
    if len(idx) == 2 and idx[1] == 1:
        return pt.inp(name, (idx[0], 0)) + pt.rng.uniform(0.1, 2.0)
    return None


def equivalent(a: Expr, b: Expr, trials: int = 24, seed: int = 0, tol: float = 1e-9, positive_syms=(),
               nrows: int = 3, integer_inputs=False, input_fn=None, degenerate=False, sym_fn=None) -> Tuple[Optional[bool], Optional[dict]]:
    """(True, None) equal on all trials; (False, witness) differ; (None, reason) not evaluable.
    degenerate=True adds as many trials again on inputs with exact and near ties between coordinates (points on the
    diagonal, repeated points, zeros): the places where a condition that selects rows changes its verdict."""
    rng = random.Random(seed * 7919 + 17)
    for k in range(trials * (2 if degenerate else 1)):
        pt = Point(rng, nrows=nrows, positive_syms=positive_syms, integer_inputs=integer_inputs and k % 2 == 0,
                   input_fn=input_fn)
        pt.degenerate = degenerate and k >= trials
        if sym_fn is not None:
            # the caller places some symbols itself on some trials (boundary values: a quotient a hair above an integer)
            sym_fn(pt, k)
        try:
            va = ev(a, pt)
            vb = ev(b, pt)
        except NotEvaluable as ex:
            return None, {"reason": str(ex)}
        if not _close(va, vb, tol):
            return False, {"inputs": {f"{n}{list(i)}": round(v, 6) for (n, i), v in sorted(pt.inputs.items())},
                           "symbols": {k2: round(v, 6) for k2, v in pt.syms.items()},
                           "index": dict(pt.ivs), "code_value": va, "spec_value": vb}
    return True, None


def canon_rows(e: Expr) -> Expr:
    """Rename the row index variable of every input atom to '$<input>' (one generic row per input) and other
    free index variables by order of appearance, so expressions from different runs compare structurally."""
    ren: Dict[str, str] = {}
    for x in sym.walk(e):
        if x[0] == "in" and x[2] and isinstance(x[2][0], tuple):
            iv = x[2][0][0]
            if iv not in ren and not iv.startswith("$"):
                ren[iv] = f"${x[1]}"
    out = e
    # two different ivars of the same input must not be merged: disambiguate
    used = {}
    for iv, new in sorted(ren.items()):
        n = used.get(new, 0)
        used[new] = n + 1
        out = sym.subst_ivar(out, iv, (new if n == 0 else f"{new}'{n}", 0))
    return out


def scaling_check(e: Expr, degree: float = 0.0, trials: int = 16, seed: int = 0, input_fn=None, nrows: int = 4,
                  lambdas=(3.7, 1e-9, 1e6), tol: float = 1e-7, scaled_inputs=None):
    """Is e(λ·X) = λ^degree · e(X) on random points, for moderate, tiny and huge λ (all input atoms — or those named in
    scaled_inputs — multiplied by λ; symbols, sizes, index variables and opaque values kept)?  (True, None) /
    (False, witness) / (None, reason).  A confirmation by counterexample for what the degree typing cannot prove."""
    rng = random.Random(seed * 7919 + 101)
    for k in range(trials):
        pt = Point(rng, nrows=nrows, input_fn=input_fn)
        try:
            v0 = ev(e, pt)
        except (NotEvaluable, ZeroDivisionError, OverflowError, ValueError) as ex:
            return None, f"not evaluable: {ex}"
        for lam in lambdas:
            pt2 = Point(random.Random(1), nrows=nrows, input_fn=None)
            pt2.inputs = {key: (val * lam if (scaled_inputs is None or key[0] in scaled_inputs) else val)
                          for key, val in pt.inputs.items()}
            pt2.syms, pt2.ivs, pt2.sizes, pt2.opq = dict(pt.syms), dict(pt.ivs), dict(pt.sizes), dict(pt.opq)
            for attr in ("eval_ranges", "degenerate", "blocks", "opq_fn"):
                if hasattr(pt, attr):
                    setattr(pt2, attr, getattr(pt, attr))
            n_in = len(pt2.inputs)
            try:
                v1 = ev(e, pt2)
            except (NotEvaluable, ZeroDivisionError, OverflowError, ValueError) as ex:
                return None, f"not evaluable at scale {lam:g}: {ex}"
            if len(pt2.inputs) != n_in:
                return None, "the scaled evaluation read inputs the first one did not"
            want = v0 * (lam ** degree) if degree else v0
            if isinstance(v0, bool) or isinstance(v1, bool):
                same = bool(v0) == bool(v1)
            elif isinstance(v0, float) and isinstance(v1, float) and (math.isnan(v0) or math.isnan(v1)):
                same = math.isnan(v0) and math.isnan(v1)
            else:
                same = _close(float(v1), float(want), tol)
            if not same:
                return False, dict(scale=lam, value=v0, scaled_value=v1, expected=want,
                                   inputs={f"{n_}{list(i_)}": round(x_, 6) for (n_, i_), x_ in sorted(pt.inputs.items())[:8]})
    return True, None
