"""Parse /repo/persim into a Project: modules, import tables, functions, classes.

Nothing is imported or executed; only `ast` is used.
"""
from __future__ import annotations

import ast
import builtins
import hashlib
import os
import warnings
from dataclasses import dataclass, field
from typing import Dict, List, Optional

REPO = os.environ.get("PST_REPO", "/repo")
PKG = "persim"


class AnalysisError(Exception):
    """Anchor not found / unmodelled construct on a proof path: exit 2, never a VIOLATION."""


@dataclass
class FunctionInfo:
    qualname: str
    name: str
    node: ast.AST  # FunctionDef or Lambda
    module: "Module"
    cls: Optional["ClassInfo"] = None
    kind: str = "function"  # function | method | staticmethod | classmethod | property | setter
    parent: Optional["FunctionInfo"] = None  # enclosing function for nested defs
    abstract: bool = False

    @property
    def params(self) -> List[str]:
        a = self.node.args
        names = [x.arg for x in a.posonlyargs + a.args]
        if a.vararg:
            names.append(a.vararg.arg)
        names += [x.arg for x in a.kwonlyargs]
        if a.kwarg:
            names.append(a.kwarg.arg)
        return names

    @property
    def file(self) -> str:
        return self.module.relpath

    def loc(self, node=None) -> str:
        n = node if node is not None else self.node
        return f"{self.module.relpath}:{getattr(n, 'lineno', 0)}"


@dataclass
class ClassInfo:
    qualname: str
    name: str
    node: ast.ClassDef
    module: "Module"
    bases: List[str] = field(default_factory=list)  # resolved dotted names
    methods: Dict[str, FunctionInfo] = field(default_factory=dict)
    setters: Dict[str, FunctionInfo] = field(default_factory=dict)
    class_attrs: Dict[str, ast.AST] = field(default_factory=dict)

    def is_property(self, name: str, project: "Project") -> bool:
        m = self.lookup(name, project)
        return m is not None and m.kind == "property"

    def mro(self, project: "Project") -> List["ClassInfo"]:
        out = [self]
        for b in self.bases:
            c = project.classes.get(b)
            if c is not None:
                for x in c.mro(project):
                    if x not in out:
                        out.append(x)
        return out

    def lookup(self, name: str, project: "Project") -> Optional[FunctionInfo]:
        for c in self.mro(project):
            if name in c.methods:
                return c.methods[name]
        return None

    def lookup_setter(self, name: str, project: "Project") -> Optional[FunctionInfo]:
        for c in self.mro(project):
            if name in c.setters:
                return c.setters[name]
        return None

    def lookup_super(self, name: str, project: "Project") -> Optional[FunctionInfo]:
        for c in self.mro(project)[1:]:
            if name in c.methods:
                return c.methods[name]
        return None


@dataclass
class Module:
    name: str  # dotted, e.g. persim.landscapes.exact
    path: str
    relpath: str
    src: str
    tree: ast.Module
    imports: Dict[str, str] = field(default_factory=dict)  # local name -> dotted target
    star_imports: List[str] = field(default_factory=list)
    functions: Dict[str, FunctionInfo] = field(default_factory=dict)
    classes: Dict[str, ClassInfo] = field(default_factory=dict)
    globals: Dict[str, ast.AST] = field(default_factory=dict)  # module-level assigned names -> value node
    all_names: Optional[List[str]] = None

    @property
    def is_package(self) -> bool:
        return self.path.endswith("__init__.py")


class Project:
    def __init__(self, repo: str = None, pkg: str = PKG):
        self.repo = repo or REPO
        self.pkg = pkg
        self.modules: Dict[str, Module] = {}
        self.functions: Dict[str, FunctionInfo] = {}
        self.classes: Dict[str, ClassInfo] = {}
        self.digest = ""
        self._load()

    # ------------------------------------------------------------------ loading
    def _load(self):
        root = os.path.join(self.repo, self.pkg)
        if not os.path.isdir(root):
            raise AnalysisError(f"package directory {root} not found")
        h = hashlib.sha256()
        files = []
        for dp, dn, fn in os.walk(root):
            dn[:] = sorted(d for d in dn if d != "__pycache__")
            for f in sorted(fn):
                if f.endswith(".py"):
                    files.append(os.path.join(dp, f))
        for path in files:
            rel = os.path.relpath(path, self.repo)
            parts = rel[:-3].split(os.sep)
            if parts[-1] == "__init__":
                parts = parts[:-1]
            name = ".".join(parts)
            with open(path, "r", encoding="utf-8") as fh:
                src = fh.read()
            h.update(rel.encode())
            h.update(src.encode())
            try:
                with warnings.catch_warnings():
                    warnings.simplefilter("ignore")
                    tree = ast.parse(src, filename=rel)
            except SyntaxError as e:
                raise AnalysisError(f"{rel}: syntax error: {e}")
            from .desugar import desugar_module
            tree = desugar_module(tree)
            m = Module(name=name, path=path, relpath=rel, src=src, tree=tree)
            self.modules[name] = m
        self.digest = h.hexdigest()[:16]
        for m in self.modules.values():
            self._index_module(m)
        # resolve class bases now that every module is indexed
        for c in self.classes.values():
            c.bases = [self.resolve(c.module, b) or ast.unparse(b) for b in c.node.bases]

    def _pkg_of(self, m: Module) -> str:
        return m.name if m.is_package else m.name.rsplit(".", 1)[0]

    def _index_module(self, m: Module):
        for st in m.tree.body:
            self._index_stmt(m, st)

    def _index_stmt(self, m: Module, st: ast.stmt):
        if isinstance(st, ast.Import):
            for a in st.names:
                if a.asname:
                    m.imports[a.asname] = a.name
                else:
                    m.imports[a.name.split(".")[0]] = a.name.split(".")[0]
        elif isinstance(st, ast.ImportFrom):
            base = st.module or ""
            if st.level:
                pkg = self._pkg_of(m).split(".")
                up = st.level - 1
                pkg = pkg[: len(pkg) - up] if up else pkg
                base = ".".join(pkg + ([st.module] if st.module else []))
            for a in st.names:
                if a.name == "*":
                    m.star_imports.append(base)
                else:
                    m.imports[a.asname or a.name] = f"{base}.{a.name}"
        elif isinstance(st, (ast.FunctionDef, ast.AsyncFunctionDef)):
            fi = FunctionInfo(f"{m.name}.{st.name}", st.name, st, m)
            m.functions[st.name] = fi
            self.functions[fi.qualname] = fi
            self._index_nested(fi)
        elif isinstance(st, ast.ClassDef):
            ci = ClassInfo(f"{m.name}.{st.name}", st.name, st, m)
            m.classes[st.name] = ci
            self.classes[ci.qualname] = ci
            for b in st.body:
                if isinstance(b, (ast.FunctionDef, ast.AsyncFunctionDef)):
                    kind = "method"
                    abstract = False
                    setter_of = None
                    for d in b.decorator_list:
                        ds = ast.unparse(d)
                        if ds == "property":
                            kind = "property"
                        elif ds == "staticmethod":
                            kind = "staticmethod"
                        elif ds == "classmethod":
                            kind = "classmethod"
                        elif ds.endswith(".setter"):
                            kind = "setter"
                            setter_of = ds[: -len(".setter")]
                        elif ds.endswith("abstractmethod"):
                            abstract = True
                    qn = f"{ci.qualname}.{b.name}" + (".setter" if kind == "setter" else "")
                    fi = FunctionInfo(qn, b.name, b, m, cls=ci, kind=kind, abstract=abstract)
                    if kind == "setter":
                        ci.setters[setter_of] = fi
                    else:
                        ci.methods[b.name] = fi
                    self.functions[qn] = fi
                    self._index_nested(fi)
                elif isinstance(b, ast.Assign):
                    for t in b.targets:
                        if isinstance(t, ast.Name):
                            ci.class_attrs[t.id] = b.value
                elif isinstance(b, ast.AnnAssign) and isinstance(b.target, ast.Name) and b.value is not None:
                    ci.class_attrs[b.target.id] = b.value
        elif isinstance(st, ast.Assign):
            for t in st.targets:
                if isinstance(t, (ast.Tuple, ast.List)):
                    # a, b = x, y binds position by position; a, b = f() binds the k-th item of the value
                    for k, tt in enumerate(t.elts):
                        if not isinstance(tt, ast.Name):
                            continue
                        if isinstance(st.value, (ast.Tuple, ast.List)) and len(st.value.elts) == len(t.elts) \
                                and not any(isinstance(e_, ast.Starred) for e_ in st.value.elts):
                            m.globals[tt.id] = st.value.elts[k]
                        else:
                            sub = ast.Subscript(value=st.value, slice=ast.Constant(value=k), ctx=ast.Load())
                            ast.copy_location(sub, st.value)
                            ast.fix_missing_locations(sub)
                            m.globals[tt.id] = sub
                    continue
                for n in ast.walk(t):
                    if isinstance(n, ast.Name):
                        m.globals[n.id] = st.value
                if isinstance(t, ast.Name) and t.id == "__all__":
                    try:
                        m.all_names = list(ast.literal_eval(st.value))
                    except Exception:
                        m.all_names = None
        elif isinstance(st, ast.AnnAssign) and isinstance(st.target, ast.Name) and st.value is not None:
            m.globals[st.target.id] = st.value
        elif isinstance(st, (ast.If, ast.Try)):
            for sub in ast.iter_child_nodes(st):
                if isinstance(sub, ast.stmt):
                    self._index_stmt(m, sub)

    def _index_nested(self, fi: FunctionInfo):
        for n in ast.walk(fi.node):
            if n is fi.node:
                continue
            if isinstance(n, (ast.FunctionDef, ast.AsyncFunctionDef)):
                # direct children only get their parent right; deeper ones are re-parented below
                qn = f"{fi.qualname}.<locals>.{n.name}"
                if qn not in self.functions:
                    sub = FunctionInfo(qn, n.name, n, fi.module, cls=None, kind="function", parent=fi)
                    self.functions[qn] = sub

    # ---------------------------------------------------------------- resolution
    def resolve(self, m: Module, expr: ast.AST, local_names=()) -> Optional[str]:
        """Resolve a Name/Attribute chain to a dotted global target, or None if it starts at a local."""
        parts = []
        n = expr
        while isinstance(n, ast.Attribute):
            parts.append(n.attr)
            n = n.value
        if not isinstance(n, ast.Name):
            return None
        head = n.id
        if head in local_names:
            return None
        parts.reverse()
        base = self.resolve_name(m, head)
        if base is None:
            return None
        full = ".".join([base] + parts)
        return self.canonical(full)

    def resolve_name(self, m: Module, name: str) -> Optional[str]:
        if name in m.functions:
            return m.functions[name].qualname
        if name in m.classes:
            return m.classes[name].qualname
        if name in m.imports:
            return m.imports[name]
        if name in m.globals:
            return f"{m.name}.{name}"
        for s in m.star_imports:
            sm = self.modules.get(s)
            if sm is not None:
                exported = sm.all_names if sm.all_names is not None else [
                    k for k in list(sm.functions) + list(sm.classes) + list(sm.globals) if not k.startswith("_")
                ]
                if name in exported:
                    return self.resolve_name(sm, name)
        if hasattr(builtins, name):
            return f"builtins.{name}"
        return None

    def canonical(self, dotted: str) -> str:
        """Follow re-exports inside the repo: persim.images_kernels (imported name) etc."""
        seen = set()
        while dotted not in seen:
            seen.add(dotted)
            if dotted in self.functions or dotted in self.classes or dotted in self.modules:
                return dotted
            # split into module prefix + remainder
            parts = dotted.split(".")
            changed = False
            for i in range(len(parts) - 1, 0, -1):
                mod = ".".join(parts[:i])
                if mod in self.modules:
                    m = self.modules[mod]
                    head = parts[i]
                    rest = parts[i + 1:]
                    tgt = None
                    if head in m.functions:
                        tgt = m.functions[head].qualname
                    elif head in m.classes:
                        tgt = m.classes[head].qualname
                    elif head in m.imports:
                        tgt = m.imports[head]
                    elif f"{mod}.{head}" in self.modules:
                        tgt = f"{mod}.{head}"
                    else:
                        for s in m.star_imports:
                            sm = self.modules.get(s)
                            if sm is not None and (head in sm.functions or head in sm.classes or head in sm.imports):
                                tgt = f"{s}.{head}"
                                break
                    if tgt is not None:
                        new = ".".join([tgt] + rest)
                        if new != dotted:
                            dotted = new
                            changed = True
                    break
            if not changed:
                break
        return dotted

    # ------------------------------------------------------------------ helpers
    def function(self, qualname: str) -> FunctionInfo:
        fi = self.functions.get(qualname)
        if fi is None:
            raise AnalysisError(f"anchor function {qualname} not found in {self.repo}/persim")
        return fi

    def cls(self, qualname: str) -> ClassInfo:
        ci = self.classes.get(qualname)
        if ci is None:
            raise AnalysisError(f"anchor class {qualname} not found in {self.repo}/persim")
        return ci

    def module(self, name: str) -> Module:
        m = self.modules.get(name)
        if m is None:
            raise AnalysisError(f"anchor module {name} not found in {self.repo}/persim")
        return m

    def enclosing_function(self, m: Module, node: ast.AST) -> Optional[FunctionInfo]:
        best = None
        for fi in self.functions.values():
            if fi.module is m and isinstance(fi.node, (ast.FunctionDef, ast.AsyncFunctionDef)):
                if fi.node.lineno <= node.lineno <= (fi.node.end_lineno or fi.node.lineno):
                    if best is None or fi.node.lineno >= best.node.lineno:
                        best = fi
        return best


def norm_text(node: ast.AST) -> str:
    """Line-number-free normalised text of a construct (keys of known findings)."""
    try:
        return ast.unparse(node)
    except Exception:
        return ast.dump(node)
