"""Statement-level control-flow graph, dominators, must-pass-through and reaching definitions."""
from __future__ import annotations

import ast
from dataclasses import dataclass, field
from typing import Dict, List, Optional, Set, Tuple

from .loader import AnalysisError


@dataclass
class Node:
    id: int
    kind: str  # entry exit stmt test for return raise
    ast: Optional[ast.AST] = None
    succ: List[Tuple[int, Optional[bool]]] = field(default_factory=list)  # (target id, branch label)
    pred: List[int] = field(default_factory=list)

    @property
    def lineno(self):
        return getattr(self.ast, "lineno", 0)


class CFG:
    def __init__(self, fnode: ast.AST):
        self.fnode = fnode
        self.nodes: List[Node] = []
        self.entry = self._new("entry")
        self.exit = self._new("exit")
        self._loops: List[Tuple[int, int]] = []  # (continue target, break target)
        self.by_ast: Dict[int, int] = {}
        outs = self._block(fnode.body, [(self.entry.id, None)])
        for o in outs:
            self._edge(o, self.exit.id)
        for n in self.nodes:
            for t, _ in n.succ:
                self.nodes[t].pred.append(n.id)
        self._dom = None
        self._pdom = None

    # ---------------------------------------------------------------- construction
    def _new(self, kind, a=None) -> Node:
        n = Node(len(self.nodes), kind, a)
        self.nodes.append(n)
        if a is not None:
            self.by_ast[id(a)] = n.id
        return n

    def _edge(self, frm: Tuple[int, Optional[bool]], to: int):
        src, label = frm
        if (to, label) not in self.nodes[src].succ:
            self.nodes[src].succ.append((to, label))

    def _block(self, stmts, ins: List[Tuple[int, Optional[bool]]]) -> List[Tuple[int, Optional[bool]]]:
        cur = ins
        for st in stmts:
            if not cur:
                # unreachable code: still create nodes so rules can find them
                cur = []
            cur = self._stmt(st, cur)
        return cur

    def _stmt(self, st, ins):
        if isinstance(st, ast.If):
            t = self._new("test", st)
            for i in ins:
                self._edge(i, t.id)
            o1 = self._block(st.body, [(t.id, True)])
            o2 = self._block(st.orelse, [(t.id, False)]) if st.orelse else [(t.id, False)]
            return o1 + o2
        if isinstance(st, (ast.For, ast.AsyncFor)):
            h = self._new("for", st)
            for i in ins:
                self._edge(i, h.id)
            brk = self._new("stmt", None)  # join node after the loop for break
            self._loops.append((h.id, brk.id))
            body_out = self._block(st.body, [(h.id, True)])
            self._loops.pop()
            for o in body_out:
                self._edge(o, h.id)
            else_out = self._block(st.orelse, [(h.id, False)]) if st.orelse else [(h.id, False)]
            for o in else_out:
                self._edge(o, brk.id)
            return [(brk.id, None)]
        if isinstance(st, ast.While):
            t = self._new("test", st)
            for i in ins:
                self._edge(i, t.id)
            brk = self._new("stmt", None)
            self._loops.append((t.id, brk.id))
            body_out = self._block(st.body, [(t.id, True)])
            self._loops.pop()
            for o in body_out:
                self._edge(o, t.id)
            else_out = self._block(st.orelse, [(t.id, False)]) if st.orelse else [(t.id, False)]
            for o in else_out:
                self._edge(o, brk.id)
            return [(brk.id, None)]
        if isinstance(st, ast.Try):
            start = self._new("stmt", None)
            for i in ins:
                self._edge(i, start.id)
            n_before = len(self.nodes)
            body_out = self._block(st.body, [(start.id, None)])
            body_nodes = list(range(n_before, len(self.nodes)))
            else_out = self._block(st.orelse, body_out) if st.orelse else body_out
            outs = list(else_out)
            for h in st.handlers:
                hn = self._new("stmt", h)
                # an exception may be raised anywhere in the body
                self._edge((start.id, None), hn.id)
                for b in body_nodes:
                    self._edge((b, None), hn.id)
                outs += self._block(h.body, [(hn.id, None)])
            if st.finalbody:
                outs = self._block(st.finalbody, outs)
            return outs
        if isinstance(st, (ast.With, ast.AsyncWith)):
            w = self._new("stmt", st)
            for i in ins:
                self._edge(i, w.id)
            return self._block(st.body, [(w.id, None)])
        if isinstance(st, ast.Return):
            n = self._new("return", st)
            for i in ins:
                self._edge(i, n.id)
            self._edge((n.id, None), self.exit.id)
            return []
        if isinstance(st, ast.Raise):
            n = self._new("raise", st)
            for i in ins:
                self._edge(i, n.id)
            return []
        if isinstance(st, ast.Continue):
            n = self._new("stmt", st)
            for i in ins:
                self._edge(i, n.id)
            if self._loops:
                self._edge((n.id, None), self._loops[-1][0])
            return []
        if isinstance(st, ast.Break):
            n = self._new("stmt", st)
            for i in ins:
                self._edge(i, n.id)
            if self._loops:
                self._edge((n.id, None), self._loops[-1][1])
            return []
        n = self._new("stmt", st)
        for i in ins:
            self._edge(i, n.id)
        return [(n.id, None)]

    # ---------------------------------------------------------------- queries
    def node_of(self, a: ast.AST) -> Optional[Node]:
        i = self.by_ast.get(id(a))
        if i is not None:
            return self.nodes[i]
        # a sub-expression: find the statement node containing it
        for n in self.nodes:
            if n.ast is not None and not isinstance(n.ast, (ast.If, ast.For, ast.While, ast.With, ast.Try)):
                for sub in ast.walk(n.ast):
                    if sub is a:
                        return n
            elif n.ast is not None:
                hdr = []
                if isinstance(n.ast, (ast.If, ast.While)):
                    hdr = [n.ast.test]
                elif isinstance(n.ast, ast.For):
                    hdr = [n.ast.iter, n.ast.target]
                elif isinstance(n.ast, ast.With):
                    hdr = [i.context_expr for i in n.ast.items]
                for h in hdr:
                    for sub in ast.walk(h):
                        if sub is a:
                            return n
        return None

    def reachable_from(self, start: int, avoid: Set[int] = frozenset(), edge_filter=None) -> Set[int]:
        seen = set()
        stack = [start]
        while stack:
            x = stack.pop()
            if x in seen:
                continue
            seen.add(x)
            if x in avoid and x != start:
                continue
            for t, lab in self.nodes[x].succ:
                if edge_filter is not None and not edge_filter(x, t, lab):
                    continue
                if t not in seen:
                    stack.append(t)
        return seen

    def must_pass_through(self, start: int, target: int, gates: Set[int]) -> bool:
        """Every path from start to target passes through a node of `gates`."""
        if start in gates:
            return True
        reach = self.reachable_from(start, avoid=set(gates))
        return target not in reach or target in gates

    def dominators(self) -> Dict[int, Set[int]]:
        if self._dom is not None:
            return self._dom
        alln = set(range(len(self.nodes)))
        reach = self.reachable_from(self.entry.id)
        dom = {n: set(reach) for n in reach}
        dom[self.entry.id] = {self.entry.id}
        changed = True
        while changed:
            changed = False
            for n in reach:
                if n == self.entry.id:
                    continue
                preds = [p for p in self.nodes[n].pred if p in reach]
                new = set.intersection(*[dom[p] for p in preds]) if preds else set()
                new = new | {n}
                if new != dom[n]:
                    dom[n] = new
                    changed = True
        self._dom = dom
        return dom

    def dominated_by_branch(self, node: int, test: int, label: bool) -> bool:
        """node is reachable from `test` only through its `label` edge (and test dominates node)."""
        dom = self.dominators()
        if node not in dom or test not in dom[node]:
            return False
        # remove the `label` edge: node must become unreachable from test
        def filt(x, t, lab):
            return not (x == test and lab == label)
        reach = self.reachable_from(self.entry.id, edge_filter=filt)
        return node not in reach

    # ---------------------------------------------------------------- reaching definitions
    def defs_of(self, n: Node) -> List[Tuple[str, ast.AST]]:
        """(name, defining construct) pairs generated by a node."""
        a = n.ast
        out = []
        if a is None:
            return out

        def targets(t):
            if isinstance(t, ast.Name):
                out.append((t.id, a))
            elif isinstance(t, (ast.Tuple, ast.List)):
                for e in t.elts:
                    targets(e)
            elif isinstance(t, ast.Starred):
                targets(t.value)

        if n.kind == "stmt" or n.kind == "return":
            if isinstance(a, ast.Assign):
                for t in a.targets:
                    targets(t)
            elif isinstance(a, (ast.AugAssign, ast.AnnAssign)):
                targets(a.target)
            elif isinstance(a, (ast.With, ast.AsyncWith)):
                for i in a.items:
                    if i.optional_vars is not None:
                        targets(i.optional_vars)
            elif isinstance(a, (ast.FunctionDef, ast.AsyncFunctionDef, ast.ClassDef)):
                out.append((a.name, a))
            elif isinstance(a, (ast.Import, ast.ImportFrom)):
                for al in a.names:
                    out.append(((al.asname or al.name).split(".")[0], a))
            elif isinstance(a, ast.ExceptHandler) and a.name:
                out.append((a.name, a))
        elif n.kind == "for":
            targets(a.target)
        # walrus anywhere
        for sub in ast.walk(a) if n.kind in ("stmt", "return", "raise") else []:
            if isinstance(sub, ast.NamedExpr):
                targets(sub.target)
        return out

    def reaching_definitions(self) -> Dict[int, Dict[str, Set[int]]]:
        """IN sets: node id -> name -> set of defining node ids (entry id = parameter / outer binding)."""
        params = set()
        if isinstance(self.fnode, (ast.FunctionDef, ast.AsyncFunctionDef, ast.Lambda)):
            a = self.fnode.args
            for x in a.posonlyargs + a.args + a.kwonlyargs:
                params.add(x.arg)
            if a.vararg:
                params.add(a.vararg.arg)
            if a.kwarg:
                params.add(a.kwarg.arg)
        gen: Dict[int, Dict[str, int]] = {}
        for n in self.nodes:
            g = {}
            for name, _ in self.defs_of(n):
                g[name] = n.id
            gen[n.id] = g
        IN: Dict[int, Dict[str, Set[int]]] = {n.id: {} for n in self.nodes}
        OUT: Dict[int, Dict[str, Set[int]]] = {n.id: {} for n in self.nodes}
        OUT[self.entry.id] = {p: {self.entry.id} for p in params}
        work = [n.id for n in self.nodes]
        while work:
            x = work.pop(0)
            n = self.nodes[x]
            if x != self.entry.id:
                new_in: Dict[str, Set[int]] = {}
                for p in n.pred:
                    for k, v in OUT[p].items():
                        new_in.setdefault(k, set()).update(v)
                IN[x] = new_in
                new_out = {k: set(v) for k, v in new_in.items()}
                for name, d in gen[x].items():
                    new_out[name] = {d}
                if new_out != OUT[x]:
                    OUT[x] = new_out
                    for t, _ in n.succ:
                        if t not in work:
                            work.append(t)
        self._rd_in = IN
        return IN

    def defs_reaching(self, use: ast.AST, name: str) -> List[Node]:
        if not hasattr(self, "_rd_in"):
            self.reaching_definitions()
        n = self.node_of(use)
        if n is None:
            raise AnalysisError(f"CFG: construct at line {getattr(use, 'lineno', 0)} not found in the flow graph")
        return [self.nodes[d] for d in sorted(self._rd_in[n.id].get(name, ()))]
