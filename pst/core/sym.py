"""Symbolic expression algebra (normal forms) and the facets derived from it.

Expr nodes are immutable tuples-with-a-tag, compared structurally after canonicalisation:
  Num(v)                     constant (inf / -inf / nan allowed)
  In(name, idx)              element of an input tensor; idx entries: int | (ivar, offset)
  Sym(name)                  scalar parameter / opaque configuration scalar
  Size(space_key)            number of rows of a space
  IV(ivar, offset)           an index variable used as a number
  Lin(terms, const)          sum coef*term + const, terms sorted, coefs folded floats
  Mul(factors) Div(a,b) Pow(a,b) Fn(name,args)
  Sum(ivar, space, body)     sum over a row space;  Red(op, ivar, space, body): max/min/all/any
  Sel(ivar, alts)            selection by a concrete-range index variable
  ITE(c, a, b)  Cmp(op,a,b)  And/Or/Not
  Choice(alts)               one of (abstract join)
  At(arr, elems, idx)        element of array `arr` (one of `elems`) at data-dependent index idx
  Opq(tag, deps)             uninterpreted value; facets come from OPAQUE_FACETS[tag]
"""
from __future__ import annotations

import math
from fractions import Fraction
from typing import Dict, Iterable, List, Optional, Tuple

TOL = 1e-12


class Expr(tuple):
    """Immutable node. The hash is cached and nodes built by the constructors are interned, so that equality of large
    shared sub-expressions is (almost always) an identity test — joins of big normal forms stay cheap."""

    @property
    def tag(self):
        return self[0]

    def __hash__(self):
        try:
            return self.__dict__["_h"]
        except KeyError:
            h = tuple.__hash__(self)
            self.__dict__["_h"] = h
            return h

    def __eq__(self, other):
        if self is other:
            return True
        if isinstance(other, Expr) and hash(self) != hash(other):
            return False
        return tuple.__eq__(self, other)

    def __ne__(self, other):
        return not self.__eq__(other)

    def __repr__(self):
        return show(self)


_INTERN: Dict["Expr", "Expr"] = {}


def _mk(*a) -> Expr:
    e = Expr(a)
    try:
        return _INTERN.setdefault(e, e)
    except TypeError:  # unhashable payload (should not happen)
        return e


# ----------------------------------------------------------------------------- constructors

def Num(v) -> Expr:
    if isinstance(v, bool):
        v = 1.0 if v else 0.0
    v = float(v)
    if v == 0:
        v = 0.0
    return _mk("num", v)


ZERO = Num(0.0)
ONE = Num(1.0)
INF = Num(float("inf"))
NINF = Num(float("-inf"))
TRUE = _mk("bool", True)
FALSE = _mk("bool", False)


def Bool(b) -> Expr:
    return TRUE if b else FALSE


def In(name: str, idx: tuple) -> Expr:
    return _mk("in", name, tuple(idx))


def Sym(name: str) -> Expr:
    return _mk("sym", name)


def Size(space_key) -> Expr:
    return _mk("size", space_key)


def IV(ivar: str, off: int = 0) -> Expr:
    return _mk("iv", ivar, off)


def Str(s: str) -> Expr:
    return _mk("str", s)


def Opq(tag: str, deps: tuple = (), uid=None) -> Expr:
    return _mk("opq", tag, tuple(deps), uid)


def is_num(e: Expr) -> bool:
    return e[0] == "num"


def numval(e: Expr) -> Optional[float]:
    return e[1] if e[0] == "num" else None


def _skey(e):
    return repr(tuple.__repr__(e)) if isinstance(e, tuple) else repr(e)


def _sorted(es: Iterable[Expr]) -> List[Expr]:
    return sorted(es, key=_key)


def _key(e):
    # total order on expressions: by tag then structure (numbers compare by value)
    if isinstance(e, Expr):
        k = e.__dict__.get("_k")
        if k is None:
            k = (0, e[0], tuple(_key(x) for x in e[1:]))
            e.__dict__["_k"] = k
        return k
    if isinstance(e, tuple):
        return (1, "", tuple(_key(x) for x in e))
    if isinstance(e, (int, float)):
        if isinstance(e, float) and math.isnan(e):
            return (2, "", 0.0, "nan")
        return (2, "", float(e), "")
    if e is None:
        return (3, "", "")
    return (4, "", str(e))


# ----------------------------------------------------------------------------- Lin

def Lin(terms: Dict[Expr, float], const: float = 0.0) -> Expr:
    ts = {}
    c = float(const)
    for t, k in terms.items():
        if k == 0:
            continue
        if t[0] == "num":
            c += k * t[1]
        elif t[0] == "lin":
            for t2, k2 in t[1]:
                ts[t2] = ts.get(t2, 0.0) + k * k2
            c += k * t[2]
        else:
            ts[t] = ts.get(t, 0.0) + k
    ts = {t: k for t, k in ts.items() if abs(k) > 1e-15}
    if not ts:
        return Num(c)
    if len(ts) == 1 and c == 0:
        (t, k), = ts.items()
        if k == 1.0:
            return t
    items = tuple(sorted(ts.items(), key=lambda kv: _key(kv[0])))
    return _mk("lin", items, c if c != 0 else 0.0)


def lin_parts(e: Expr) -> Tuple[Dict[Expr, float], float]:
    if e[0] == "lin":
        return dict(e[1]), e[2]
    if e[0] == "num":
        return {}, e[1]
    return {e: 1.0}, 0.0


def add(a: Expr, b: Expr) -> Expr:
    la, ca = lin_parts(a)
    lb, cb = lin_parts(b)
    if (math.isinf(ca) or math.isinf(cb)) and not (la or lb):
        return Num(ca + cb)
    for t, k in lb.items():
        la[t] = la.get(t, 0.0) + k
    return Lin(la, ca + cb)


def neg(a: Expr) -> Expr:
    return scale(a, -1.0)


def sub(a: Expr, b: Expr) -> Expr:
    return add(a, neg(b))


def scale(a: Expr, k: float) -> Expr:
    if a[0] == "num":
        if k == 0 and math.isinf(a[1]):
            return Num(float("nan"))
        return Num(a[1] * k)
    if k == 0:
        return ZERO
    la, ca = lin_parts(a)
    return Lin({t: c * k for t, c in la.items()}, ca * k)


def mul(a: Expr, b: Expr) -> Expr:
    if a[0] == "num":
        return scale(b, a[1])
    if b[0] == "num":
        return scale(a, b[1])
    # pull constant factors out of single-term Lins
    ka, ta = _unit(a)
    kb, tb = _unit(b)
    if ka is not None and kb is not None:
        fs = []
        for t in (ta, tb):
            if t[0] == "mul":
                fs.extend(t[1])
            else:
                fs.append(t)
        # merge equal factors into powers
        return scale(_mkmul(fs), ka * kb)
    # distribute a single-term over a Lin when one side is a pure sum (keeps affine forms affine)
    if a[0] == "lin" and b[0] != "lin" and not has_coord(b):
        la, ca = lin_parts(a)
        out = ZERO
        for t, k in la.items():
            out = add(out, scale(mul(t, b), k))
        return add(out, scale(b, ca))
    if b[0] == "lin" and a[0] != "lin" and not has_coord(a):
        return mul(b, a)
    return _mkmul([a, b])


def _unit(a: Expr):
    """(k, t) if a == k*t with t not a Lin, else (None, None)."""
    if a[0] == "lin":
        if len(a[1]) == 1 and a[2] == 0:
            (t, k), = a[1]
            return k, t
        return None, None
    return 1.0, a


def _mkmul(fs: List[Expr]) -> Expr:
    flat = []
    for f in fs:
        if f[0] == "mul":
            flat.extend(f[1])
        else:
            flat.append(f)
    # combine powers of the same base
    bases: Dict[Expr, Expr] = {}
    order = []
    for f in flat:
        base, ex = (f[1], f[2]) if f[0] == "pow" else (f, ONE)
        if base in bases:
            bases[base] = add(bases[base], ex)
        else:
            bases[base] = ex
            order.append(base)
    out = []
    for bse in order:
        ex = bases[bse]
        if ex == ZERO:
            continue
        out.append(bse if ex == ONE else power(bse, ex))
    if not out:
        return ONE
    if len(out) == 1:
        return out[0]
    return _mk("mul", tuple(_sorted(out)))


def div(a: Expr, b: Expr) -> Expr:
    if b[0] == "num":
        if b[1] == 0:
            return _mk("div", a, b)
        return scale(a, 1.0 / b[1])
    kb, tb = _unit(b)
    if kb is not None and kb != 1.0:
        return scale(div(a, tb), 1.0 / kb)
    if a == b:
        return ONE
    ka, ta = _unit(a)
    if ka is not None and ka != 1.0:
        return scale(div(ta, b), ka)
    if a[0] == "lin" and not has_coord(b):
        la, ca = lin_parts(a)
        out = ZERO
        for t, k in la.items():
            out = add(out, scale(div(t, b), k))
        if ca:
            out = add(out, scale(_mk("div", ONE, b), ca))
        return out
    return _mk("div", a, b)


def power(a: Expr, b: Expr) -> Expr:
    if a[0] == "num" and b[0] == "num":
        try:
            return Num(a[1] ** b[1])
        except Exception:
            return _mk("pow", a, b)
    if b == ONE:
        return a
    if b[0] == "num" and b[1] == 0:
        return ONE
    if b[0] == "num" and float(b[1]).is_integer() and int(b[1]) % 2 == 0:
        a = sign_normalise(a)  # even power: x**2 == (-x)**2
        k, t = _unit(a)
        if k is not None and k != 1.0:
            return scale(power(t, b), abs(k) ** b[1])
    if b[0] == "num" and a[0] == "fn" and a[1] == "sqrt" and b[1] == 2:
        return a[2][0]
    if a[0] == "pow" and a[2][0] == "num" and b[0] == "num" and float(a[2][1]).is_integer() and int(a[2][1]) % 2 == 0 \
            and b[1] == 0.5:
        return fn("abs", power(a[1], Num(a[2][1] / 2)))
    return _mk("pow", a, b)


def sign_normalise(a: Expr) -> Expr:
    """Canonical representative of {a, -a}: first coefficient (in term order) positive."""
    if a[0] == "lin":
        first = a[1][0][1]
        if first < 0:
            return neg(a)
        return a
    if a[0] == "num":
        return Num(abs(a[1]))
    return a


# ----------------------------------------------------------------------------- functions

_FOLD = {
    "sqrt": lambda x: math.sqrt(x) if x >= 0 else float("nan"), "exp": math.exp,
    "log": lambda x: math.log(x) if x > 0 else float("nan"), "sin": math.sin, "cos": math.cos,
    "abs": abs, "arcsin": lambda x: math.asin(x), "floor": math.floor, "ceil": math.ceil,
    "erfc": math.erfc, "log2": lambda x: math.log2(x), "log10": lambda x: math.log10(x),
    "int": lambda x: float(int(x)), "round": lambda x: float(round(x)), "isfinite": lambda x: float(math.isfinite(x)),
    "float32": lambda x: _f32(x), "tan": math.tan, "arctan": math.atan, "arccos": math.acos, "sign": lambda x: (x > 0) - (x < 0),
}


def _f32(x: float) -> float:
    import struct
    try:
        return struct.unpack("f", struct.pack("f", x))[0]
    except OverflowError:
        return x


def fn(name: str, *args: Expr) -> Expr:
    if all(a[0] == "num" for a in args) and name in _FOLD and len(args) == 1:
        try:
            return Num(_FOLD[name](args[0][1]))
        except Exception:
            pass
    if name in ("int", "floor", "ceil", "round", "trunc") and len(args) == 1 and args[0][0] == "fn" \
            and args[0][1] in ("int", "floor", "ceil", "round", "trunc"):
        return args[0]   # an integer-valued expression is left as it is by a second rounding
    if name == "abs":
        a = args[0]
        if a[0] == "fn" and a[1] in ("abs", "sqrt", "exp"):
            return a
        if a[0] == "pow" and a[2][0] == "num" and float(a[2][1]).is_integer() and int(a[2][1]) % 2 == 0:
            return a
        a = sign_normalise(a)
        k, t = _unit(a)
        if k is not None and k != 1.0 and k > 0:
            return scale(fn("abs", t), k)
        return _mk("fn", "abs", (a,))
    if name == "sqrt":
        a = args[0]
        if a[0] == "pow" and a[2] == Num(2):
            return fn("abs", a[1])
        k, t = _unit(a)
        if k is not None and k > 0 and k != 1.0 and t[0] == "pow" and t[2] == Num(2):
            return scale(fn("abs", t[1]), math.sqrt(k))
        return _mk("fn", "sqrt", (a,))
    if name in ("max", "min"):
        flat = []
        for a in args:
            if a[0] == "fn" and a[1] == name:
                flat.extend(a[2])
            else:
                flat.append(a)
        nums = [a[1] for a in flat if a[0] == "num"]
        rest = [a for a in flat if a[0] != "num"]
        uniq = []
        for a in rest:
            if a not in uniq:
                uniq.append(a)
        if nums:
            c = max(nums) if name == "max" else min(nums)
            if not uniq:
                return Num(c)
            uniq.append(Num(c))
        if len(uniq) == 1:
            return uniq[0]
        return _mk("fn", name, tuple(_sorted(uniq)))
    return _mk("fn", name, tuple(args))


def Sum(ivar: str, space, body: Expr) -> Expr:
    if body == ZERO:
        return ZERO
    if ivar not in free_ivars(body):
        return mul(Size(space_key(space)), body)
    # pull constant coefficient out: Sum(k*t) = k*Sum(t); split sums of Lin
    if body[0] == "lin":
        out = ZERO
        for t, k in body[1]:
            out = add(out, scale(Sum(ivar, space, t), k))
        if body[2]:
            out = add(out, scale(Size(space_key(space)), body[2]))
        return out
    if body[0] == "mul":
        inner = [f for f in body[1] if ivar in free_ivars(f)]
        outer = [f for f in body[1] if ivar not in free_ivars(f)]
        if outer and inner:
            return mul(_mkmul(outer), Sum(ivar, space, _mkmul(inner)))
    if body[0] == "div" and ivar not in free_ivars(body[2]):
        return div(Sum(ivar, space, body[1]), body[2])
    flat = _flatten_blocks(ivar, space_key(space), body)
    if flat is not None:
        return flat
    return _mk("sum", ivar, space_key(space), body)


def _flatten_blocks(k: str, okey, body: Expr):
    """Σ_{k over the blocks 0, s, 2s, … of a space P} Σ_{i in P[k·s : min(k·s + s, |P|)]} g(i)  =  Σ_{i in P} g(i):
    consecutive blocks of width s partition the positions of P, the last one cut at the end (chunked processing).  Only when
    g does not mention the block variable itself."""
    if not (isinstance(okey, tuple) and len(okey) == 4 and okey[0] == "strided" and body[0] == "sum"):
        return None
    lo0, hi0, st = okey[1], okey[2], okey[3]
    i, ikey, g = body[1], body[2], body[3]
    if not (isinstance(ikey, tuple) and len(ikey) == 4 and ikey[0] == "slice"):
        return None
    parent, a, b = ikey[1], ikey[2], ikey[3]
    if lo0 != ZERO or hi0 != Size(parent) or k in free_ivars(g):
        return None
    start = mul(IV(k), st)
    if a != start:
        return None
    want = fn("min", add(start, st), Size(parent))
    if b != want:
        return None
    return Sum(i, Space_of_key(parent), g)


def Space_of_key(key):
    """a stand-in with the attributes Sum/Red read from a space (its key)"""
    class _K:
        pass
    o = _K()
    o.key = key
    return o


def Red(op: str, ivar: str, space, body: Expr) -> Expr:
    if ivar not in free_ivars(body):
        return body
    return _mk("red", op, ivar, space_key(space), body)


def space_key(space):
    return space.key if hasattr(space, "key") else space


def Sel(ivar: str, alts: Tuple[Expr, ...]) -> Expr:
    alts = tuple(alts)
    if all(a == alts[0] for a in alts):
        return alts[0]
    return _mk("sel", ivar, alts)


def ITE(c: Expr, a: Expr, b: Expr) -> Expr:
    if c == TRUE:
        return a
    if c == FALSE:
        return b
    if a == b:
        return a
    return _mk("ite", c, a, b)


def Choice(alts: Iterable[Expr]) -> Expr:
    flat = []
    for a in alts:
        if a[0] == "choice":
            for x in a[1]:
                if x not in flat:
                    flat.append(x)
        elif a not in flat:
            flat.append(a)
    if len(flat) == 1:
        return flat[0]
    return _mk("choice", tuple(_sorted(flat)))


def At(arr: str, elems: Expr, idx: tuple) -> Expr:
    return _mk("at", arr, elems, tuple(idx))


def Cmp(op: str, a: Expr, b: Expr) -> Expr:
    if a[0] in ("num", "bool") and b[0] in ("num", "bool"):
        x, y = float(a[1]), float(b[1])
        return Bool({"<": x < y, "<=": x <= y, ">": x > y, ">=": x >= y, "==": x == y, "!=": x != y}[op])
    if a[0] == "num" and b[0] != "num":
        # orientation: a constant goes to the right (`0 < x` and `x > 0` are one normal form)
        a, b = b, a
        op = {"<": ">", "<=": ">=", ">": "<", ">=": "<=", "==": "==", "!=": "!="}[op]
    return _mk("cmp", op, a, b)


def Not(a: Expr) -> Expr:
    if a == TRUE:
        return FALSE
    if a == FALSE:
        return TRUE
    if a[0] == "not":
        return a[1]
    if a[0] == "cmp":
        inv = {"<": ">=", "<=": ">", ">": "<=", ">=": "<", "==": "!=", "!=": "=="}
        return _mk("cmp", inv[a[1]], a[2], a[3])
    return _mk("not", a)


def And(*xs: Expr) -> Expr:
    out = []
    for x in xs:
        if x == FALSE:
            return FALSE
        if x == TRUE:
            continue
        if x[0] == "and":
            out.extend(x[1])
        else:
            out.append(x)
    if not out:
        return TRUE
    if len(out) == 1:
        return out[0]
    return _mk("and", tuple(out))


def Or(*xs: Expr) -> Expr:
    out = []
    for x in xs:
        if x == TRUE:
            return TRUE
        if x == FALSE:
            continue
        if x[0] == "or":
            out.extend(x[1])
        else:
            out.append(x)
    if not out:
        return FALSE
    if len(out) == 1:
        return out[0]
    return _mk("or", tuple(out))


# ----------------------------------------------------------------------------- traversal

def children(e: Expr) -> List[Expr]:
    t = e[0]
    if t in ("num", "sym", "size", "iv", "str", "bool", "in"):
        return []
    if t == "lin":
        return [x for x, _ in e[1]]
    if t == "mul":
        return list(e[1])
    if t in ("div", "pow"):
        return [e[1], e[2]]
    if t == "fn":
        return list(e[2])
    if t == "sum":
        return [e[3]]
    if t == "red":
        return [e[4]]
    if t == "sel":
        return list(e[2])
    if t == "ite":
        return [e[1], e[2], e[3]]
    if t == "choice":
        return list(e[1])
    if t == "cmp":
        return [e[2], e[3]]
    if t == "not":
        return [e[1]]
    if t in ("and", "or"):
        return list(e[1])
    if t == "at":
        return [e[2]] + [x for x in e[3] if isinstance(x, Expr)]
    if t == "opq":
        return [x for x in e[2] if isinstance(x, Expr)]
    return []


def walk(e: Expr):
    stack = [e]
    while stack:
        x = stack.pop()
        yield x
        stack.extend(children(x))


def key_exprs(key) -> list:
    """the expressions a space key is built from when they are bounds computed by the program (a slice of a space between
    computed positions, a strided or computed range) — these may mention index variables of enclosing loops.  The condition
    of a mask-selected sub-space is not listed: its variable is the row position, bound by the space itself."""
    if isinstance(key, tuple) and key and key[0] in ("slice", "strided", "range"):
        out = []
        for x in key[1:]:
            if isinstance(x, Expr):
                out.append(x)
            elif isinstance(x, tuple):
                out.extend(key_exprs(x))
        return out
    if isinstance(key, tuple) and len(key) == 3 and key[0] == "sub":
        return key_exprs(key[1])
    return []


def map_key(key, f):
    """the space key with f applied to the bound expressions listed by key_exprs"""
    if isinstance(key, tuple) and key and key[0] in ("slice", "strided", "range"):
        return tuple([key[0]] + [f(x) if isinstance(x, Expr) else (map_key(x, f) if isinstance(x, tuple) else x) for x in key[1:]])
    if isinstance(key, tuple) and len(key) == 3 and key[0] == "sub":
        return ("sub", map_key(key[1], f), key[2])
    return key


# Pseudo index variables '@k' stand for a data-dependent position expression (arrays.intern_index).  The expression may mention
# index variables itself (the j of `X[i + 1 + j]`): everything that asks which variables an expression depends on, or replaces
# one, has to look through the name.
INDEX_NAMES = {}
INDEX_EXPRS = {}


def intern_index(x: Expr) -> str:
    if x not in INDEX_NAMES:
        name = f"@{len(INDEX_NAMES) + 1}"
        INDEX_NAMES[x] = name
        INDEX_EXPRS[name] = x
    return INDEX_NAMES[x]


def _through_interned(names: set, depth=0) -> set:
    out = set(names)
    if depth > 6:
        return out
    for nme in names:
        if isinstance(nme, str) and nme.startswith("@") and nme in INDEX_EXPRS:
            out |= free_ivars(INDEX_EXPRS[nme], depth + 1)
    return out


def free_ivars(e: Expr, _depth=0) -> set:
    t = e[0]
    if t == "in":
        return _through_interned({i[0] for i in e[2] if isinstance(i, tuple)}, _depth)
    if t == "iv":
        return _through_interned({e[1]}, _depth)
    if t == "sum":
        out = free_ivars(e[3]) - {e[1]}
        for k in key_exprs(e[2]):
            out |= free_ivars(k)
        return out
    if t == "red":
        out = free_ivars(e[4]) - {e[2]}
        for k in key_exprs(e[3]):
            out |= free_ivars(k)
        return out
    if t == "size":
        out = set()
        for k in key_exprs(e[1]):
            out |= free_ivars(k)
        return out
    if t == "sel":
        s = {e[1]}
        for a in e[2]:
            s |= free_ivars(a)
        return s
    out = set()
    for c in children(e):
        out |= free_ivars(c)
    return out


def has_coord(e: Expr) -> bool:
    return any(x[0] in ("in", "at") for x in walk(e))


def inputs_of(e: Expr) -> set:
    return {x[1] for x in walk(e) if x[0] == "in"}


def rebuild(e: Expr, f) -> Expr:
    """Rebuild e bottom-up applying constructor normalisation; f maps leaves/nodes (post-order hook)."""
    t = e[0]
    if t in ("num", "sym", "size", "str", "bool"):
        return f(e)
    if t == "in" or t == "iv":
        return f(e)
    if t == "lin":
        out = Num(e[2])
        for x, k in e[1]:
            out = add(out, scale(rebuild(x, f), k))
        return f(out)
    if t == "mul":
        out = ONE
        for x in e[1]:
            out = mul(out, rebuild(x, f))
        return f(out)
    if t == "div":
        return f(div(rebuild(e[1], f), rebuild(e[2], f)))
    if t == "pow":
        return f(power(rebuild(e[1], f), rebuild(e[2], f)))
    if t == "fn":
        return f(fn(e[1], *[rebuild(x, f) for x in e[2]]))
    if t == "sum":
        return f(Sum(e[1], e[2], rebuild(e[3], f)))
    if t == "red":
        return f(Red(e[1], e[2], e[3], rebuild(e[4], f)))
    if t == "sel":
        return f(Sel(e[1], tuple(rebuild(x, f) for x in e[2])))
    if t == "ite":
        return f(ITE(rebuild(e[1], f), rebuild(e[2], f), rebuild(e[3], f)))
    if t == "choice":
        return f(Choice([rebuild(x, f) for x in e[1]]))
    if t == "cmp":
        return f(Cmp(e[1], rebuild(e[2], f), rebuild(e[3], f)))
    if t == "not":
        return f(Not(rebuild(e[1], f)))
    if t == "and":
        return f(And(*[rebuild(x, f) for x in e[1]]))
    if t == "or":
        return f(Or(*[rebuild(x, f) for x in e[1]]))
    if t == "at":
        return f(At(e[1], rebuild(e[2], f), tuple(rebuild(x, f) if isinstance(x, Expr) else x for x in e[3])))
    if t == "opq":
        return f(Opq(e[1], tuple(rebuild(x, f) if isinstance(x, Expr) else x for x in e[2]), e[3]))
    return f(e)


def subst_ivar(e: Expr, ivar: str, to) -> Expr:
    """Replace index variable `ivar` by: an int (concrete), or (ivar2, offset)."""
    if ivar not in free_ivars(e):
        return e

    def leaf(x):
        return x

    def reintern(nme):
        """'@k' whose position expression mentions `ivar`: the name of the substituted expression (or its integer value)"""
        if isinstance(nme, str) and nme.startswith("@") and nme in INDEX_EXPRS and ivar in free_ivars(INDEX_EXPRS[nme]):
            x2 = rec(INDEX_EXPRS[nme])
            if x2[0] == "num" and float(x2[1]).is_integer():
                return int(x2[1])
            if x2[0] == "iv":
                return (x2[1], x2[2])
            return (intern_index(x2), 0)
        return None

    def rec(x: Expr) -> Expr:
        t = x[0]
        if t == "in":
            idx = []
            for i in x[2]:
                if isinstance(i, tuple) and i[0] == ivar:
                    if isinstance(to, int):
                        idx.append(to + i[1])
                    else:
                        idx.append((to[0], to[1] + i[1]))
                elif isinstance(i, tuple) and reintern(i[0]) is not None:
                    r_ = reintern(i[0])
                    idx.append(r_ + i[1] if isinstance(r_, int) else (r_[0], r_[1] + i[1]))
                else:
                    idx.append(i)
            return In(x[1], tuple(idx))
        if t == "iv":
            if x[1] == ivar:
                if isinstance(to, int):
                    return Num(to + x[2])
                return IV(to[0], to[1] + x[2])
            r_ = reintern(x[1])
            if r_ is not None:
                return Num(r_ + x[2]) if isinstance(r_, int) else IV(r_[0], r_[1] + x[2])
            return x
        if t == "sel":
            if x[1] == ivar:
                if isinstance(to, int):
                    k = to
                    if -len(x[2]) <= k < len(x[2]):
                        return rec(x[2][k])
                    return Opq("index-out-of-range", (), None)
                return Sel(to[0], tuple(rec(a) for a in x[2])) if to[1] == 0 else \
                    Opq("shifted-select", tuple(rec(a) for a in x[2]), None)
            return Sel(x[1], tuple(rec(a) for a in x[2]))
        if t == "sum":
            if x[1] == ivar:
                return Sum(x[1], map_key(x[2], rec), x[3]) if key_exprs(x[2]) else x
            return Sum(x[1], map_key(x[2], rec), rec(x[3]))
        if t == "red":
            if x[2] == ivar:
                return Red(x[1], x[2], map_key(x[3], rec), x[4]) if key_exprs(x[3]) else x
            return Red(x[1], x[2], map_key(x[3], rec), rec(x[4]))
        if t == "size":
            return Size(map_key(x[1], rec)) if key_exprs(x[1]) else x
        if t in ("num", "sym", "str", "bool"):
            return x
        if t == "lin":
            out = Num(x[2])
            for y, k in x[1]:
                out = add(out, scale(rec(y), k))
            return out
        if t == "mul":
            out = ONE
            for y in x[1]:
                out = mul(out, rec(y))
            return out
        if t == "div":
            return div(rec(x[1]), rec(x[2]))
        if t == "pow":
            return power(rec(x[1]), rec(x[2]))
        if t == "fn":
            return fn(x[1], *[rec(y) for y in x[2]])
        if t == "ite":
            return ITE(rec(x[1]), rec(x[2]), rec(x[3]))
        if t == "choice":
            return Choice([rec(y) for y in x[1]])
        if t == "cmp":
            return Cmp(x[1], rec(x[2]), rec(x[3]))
        if t == "not":
            return Not(rec(x[1]))
        if t == "and":
            return And(*[rec(y) for y in x[1]])
        if t == "or":
            return Or(*[rec(y) for y in x[1]])
        if t == "at":
            return At(x[1], rec(x[2]), tuple(rec(y) if isinstance(y, Expr) else y for y in x[3]))
        if t == "opq":
            return Opq(x[1], tuple(rec(y) if isinstance(y, Expr) else y for y in x[2]), x[3])
        return x

    return rec(e)


def subst_ivar_expr(e: Expr, ivar: str, to: Expr) -> Optional[Expr]:
    """Replace index variable `ivar` by an integer-valued expression. Possible when `ivar` only occurs as a position
    value (IV nodes), not as the row of an input atom or a selector; None otherwise."""
    if ivar not in free_ivars(e):
        return e
    for x in walk(e):
        if x[0] == "in" and any(isinstance(i, tuple) and i[0] == ivar for i in x[2]):
            return None
        if x[0] == "sel" and x[1] == ivar:
            return None
        if x[0] in ("sum",) and x[1] == ivar:
            return None
        if x[0] == "red" and x[2] == ivar:
            return None

    def g(x):
        if x[0] == "iv" and x[1] == ivar:
            return add(to, Num(x[2])) if x[2] else to
        return None
    return rebuild_shallow_all(e, g)


def rebuild_shallow_all(e: Expr, g) -> Expr:
    """bottom-up rebuild through the normalising constructors; g(x) may return a replacement for a node"""
    r = g(e)
    if r is not None:
        return r
    t = e[0]
    rec = lambda y: rebuild_shallow_all(y, g)
    if t == "lin":
        out = Num(e[2])
        for y, k in e[1]:
            out = add(out, scale(rec(y), k))
        return out
    if t == "mul":
        out = ONE
        for y in e[1]:
            out = mul(out, rec(y))
        return out
    if t == "div":
        return div(rec(e[1]), rec(e[2]))
    if t == "pow":
        return power(rec(e[1]), rec(e[2]))
    if t == "fn":
        return fn(e[1], *[rec(y) for y in e[2]])
    if t == "ite":
        return ITE(rec(e[1]), rec(e[2]), rec(e[3]))
    if t == "choice":
        return Choice([rec(y) for y in e[1]])
    if t == "cmp":
        return Cmp(e[1], rec(e[2]), rec(e[3]))
    if t == "not":
        return Not(rec(e[1]))
    if t == "and":
        return And(*[rec(y) for y in e[1]])
    if t == "or":
        return Or(*[rec(y) for y in e[1]])
    if t == "at":
        return At(e[1], rec(e[2]), tuple(rec(y) if isinstance(y, Expr) else y for y in e[3]))
    if t == "opq":
        return Opq(e[1], tuple(rec(y) if isinstance(y, Expr) else y for y in e[2]), e[3])
    if t == "sum":
        return Sum(e[1], e[2], rec(e[3]))
    if t == "red":
        return Red(e[1], e[2], e[3], rec(e[4]))
    if t == "sel":
        return Sel(e[1], tuple(rec(a) for a in e[2]))
    return e


def subst(e: Expr, mapping: Dict[Expr, Expr]) -> Expr:
    def f(x):
        return mapping.get(x, x)
    if not mapping:
        return e
    return rebuild(e, f)


def rename_input(e: Expr, ren: Dict[str, str]) -> Expr:
    def f(x):
        if x[0] == "in" and x[1] in ren:
            return In(ren[x[1]], x[2])
        return x
    return rebuild(e, f)


# ----------------------------------------------------------------------------- printing

def show(e) -> str:
    if not isinstance(e, Expr):
        return repr(e)
    t = e[0]
    if t == "num":
        v = e[1]
        return f"{v:g}"
    if t == "bool":
        return str(e[1])
    if t == "in":
        idx = ",".join(str(i) if not isinstance(i, tuple) else (i[0] if i[1] == 0 else f"{i[0]}{i[1]:+d}") for i in e[2])
        return f"{e[1]}[{idx}]"
    if t == "sym":
        return e[1]
    if t == "size":
        return f"|{e[1]}|"
    if t == "iv":
        return e[1] if e[2] == 0 else f"{e[1]}{e[2]:+d}"
    if t == "str":
        return repr(e[1])
    if t == "lin":
        parts = []
        for x, k in e[1]:
            s = show(x)
            if k == 1:
                parts.append(f"+{s}")
            elif k == -1:
                parts.append(f"-{s}")
            else:
                parts.append(f"{k:+.12g}*{s}")
        if e[2]:
            parts.append(f"{e[2]:+.12g}")
        s = " ".join(parts)
        return "(" + (s[1:] if s.startswith("+") else s) + ")"
    if t == "mul":
        return "*".join(show(x) for x in e[1])
    if t == "div":
        return f"({show(e[1])}/{show(e[2])})"
    if t == "pow":
        return f"{show(e[1])}^{show(e[2])}"
    if t == "fn":
        return f"{e[1]}({', '.join(show(x) for x in e[2])})"
    if t == "sum":
        return f"Σ[{e[1]}∈{e[2]}]{show(e[3])}"
    if t == "red":
        return f"{e[1]}[{e[2]}∈{e[3]}]{show(e[4])}"
    if t == "sel":
        return f"sel({e[1]}; {', '.join(show(x) for x in e[2])})"
    if t == "ite":
        return f"ite({show(e[1])}, {show(e[2])}, {show(e[3])})"
    if t == "choice":
        return "{" + " | ".join(show(x) for x in e[1]) + "}"
    if t == "cmp":
        return f"({show(e[2])} {e[1]} {show(e[3])})"
    if t == "not":
        return f"not {show(e[1])}"
    if t in ("and", "or"):
        return "(" + f" {t} ".join(show(x) for x in e[1]) + ")"
    if t == "at":
        return f"{e[1]}@[{', '.join(show(x) for x in e[3])}]∈{show(e[2])}"
    if t == "opq":
        return f"⟨{e[1]}{'(' + ', '.join(show(x) for x in e[2]) + ')' if e[2] else ''}⟩"
    return tuple.__repr__(e)


# ----------------------------------------------------------------------------- comparison with tolerance

def equal(a: Expr, b: Expr, tol: float = TOL) -> bool:
    if a == b:
        return True
    if a[0] != b[0]:
        return False
    t = a[0]
    if t == "num":
        x, y = a[1], b[1]
        if math.isinf(x) or math.isinf(y) or math.isnan(x) or math.isnan(y):
            return x == y or (math.isnan(x) and math.isnan(y))
        return abs(x - y) <= tol * max(1.0, abs(x), abs(y))
    if t == "lin":
        if len(a[1]) != len(b[1]) or not equal(Num(a[2]), Num(b[2]), tol):
            return False
        # terms are sorted by key; tolerant match needs pairing by tolerant equality
        rest = list(b[1])
        for x, k in a[1]:
            hit = None
            for i, (y, k2) in enumerate(rest):
                if abs(k - k2) <= tol * max(1.0, abs(k)) and equal(x, y, tol):
                    hit = i
                    break
            if hit is None:
                return False
            rest.pop(hit)
        return True
    if len(a) != len(b):
        return False
    ca, cb = children(a), children(b)
    if len(ca) != len(cb):
        return False
    # non-Expr fields must match exactly
    for x, y in zip(a[1:], b[1:]):
        if isinstance(x, Expr):
            continue
        if isinstance(x, tuple) and _contains_expr(x):
            continue
        if x != y:
            return False
    if t in ("mul", "choice", "and", "or") or (t == "fn" and a[1] in ("max", "min")):
        rest = list(cb)
        for x in ca:
            hit = None
            for i, y in enumerate(rest):
                if equal(x, y, tol):
                    hit = i
                    break
            if hit is None:
                return False
            rest.pop(hit)
        return True
    if t == "in":
        return a == b
    if t in ("sum",):
        if a[1] != b[1] or a[2] != b[2]:
            return False
    if t == "red":
        if a[1:4] != b[1:4]:
            return False
    if t == "sel" and a[1] != b[1]:
        return False
    if t == "at" and a[1] != b[1]:
        return False
    if t == "opq" and (a[1] != b[1]):
        return False
    return all(equal(x, y, tol) for x, y in zip(ca, cb))


def _contains_expr(t) -> bool:
    for x in t:
        if isinstance(x, Expr):
            return True
        if isinstance(x, tuple) and _contains_expr(x):
            return True
    return False


def canon_bound(e: Expr) -> Expr:
    """Alpha-rename bound index variables of Sum/Red to canonical names by (space, nesting position)."""
    counter = [0]

    def rec(x: Expr, depth: int) -> Expr:
        t = x[0]
        if t == "sum":
            new = f"${x[2]}#{depth}"
            body = subst_ivar(x[3], x[1], (new, 0))
            return Sum(new, x[2], rec(body, depth + 1))
        if t == "red":
            new = f"${x[3]}#{depth}"
            body = subst_ivar(x[4], x[2], (new, 0))
            return Red(x[1], new, x[3], rec(body, depth + 1))
        if t in ("num", "sym", "size", "str", "bool", "in", "iv"):
            return x
        return rebuild_shallow(x, lambda y: rec(y, depth))

    return rec(e, 0)


def rebuild_shallow(e: Expr, g) -> Expr:
    t = e[0]
    if t == "lin":
        out = Num(e[2])
        for x, k in e[1]:
            out = add(out, scale(g(x), k))
        return out
    if t == "mul":
        out = ONE
        for x in e[1]:
            out = mul(out, g(x))
        return out
    if t == "div":
        return div(g(e[1]), g(e[2]))
    if t == "pow":
        return power(g(e[1]), g(e[2]))
    if t == "fn":
        return fn(e[1], *[g(x) for x in e[2]])
    if t == "sel":
        return Sel(e[1], tuple(g(x) for x in e[2]))
    if t == "ite":
        return ITE(g(e[1]), g(e[2]), g(e[3]))
    if t == "choice":
        return Choice([g(x) for x in e[1]])
    if t == "cmp":
        return Cmp(e[1], g(e[2]), g(e[3]))
    if t == "not":
        return Not(g(e[1]))
    if t == "and":
        return And(*[g(x) for x in e[1]])
    if t == "or":
        return Or(*[g(x) for x in e[1]])
    if t == "at":
        return At(e[1], g(e[2]), tuple(g(x) if isinstance(x, Expr) else x for x in e[3]))
    if t == "opq":
        return Opq(e[1], tuple(g(x) if isinstance(x, Expr) else x for x in e[2]), e[3])
    if t == "sum":
        return Sum(e[1], e[2], g(e[3]))
    if t == "red":
        return Red(e[1], e[2], e[3], g(e[4]))
    return e
