"""OWN + EFFECT: inter-procedural may-alias / may-write analysis over the whole package.

Abstract value (AV): the set of *origins* a value may be (or be a view of), the AV of its elements
when it is a locally built container holding aliases, a coarse kind, candidate repo classes and
callable targets.  An empty origin set means FRESH (allocated in this activation).

Events recorded per function, in terms of its own parameters (summaries are instantiated at call
sites, bottom-up with memoisation):
  write      — in-place mutation of the object of an origin (subscript store, del, mutator method,
               in-place operator on an array, mutating external such as np.fill_diagonal / out=)
  attrstore  — attribute (re)binding on the object of an origin (property setters are calls)
  globalstore— store to a module-level name from inside a function
"""
from __future__ import annotations

import ast
from dataclasses import dataclass, field, replace
from typing import Dict, FrozenSet, List, Optional, Tuple

from .loader import AnalysisError, ClassInfo, FunctionInfo, Module, Project

# ----------------------------------------------------------------------------- values


@dataclass(frozen=True)
class Origin:
    root: str  # 'arg:<name>' | 'global:<dotted>' | 'default:<func>:<param>' | 'obj:<site>'
    path: Tuple[str, ...] = ()

    def ext(self, *steps) -> "Origin":
        p = self.path + tuple(steps)
        if len(p) > 4:  # bounded access paths (widening)
            p = p[:4]
        return Origin(self.root, p)

    @property
    def is_arg(self):
        return self.root.startswith("arg:")

    @property
    def param(self):
        return self.root[4:] if self.is_arg else None

    def __str__(self):
        return self.root + "".join(self.path)


@dataclass(frozen=True)
class AV:
    is_: FrozenSet[Origin] = frozenset()
    elem: Optional["AV"] = None
    kind: str = "unknown"  # nd list dict set tuple scalar str obj func none unknown
    cls: FrozenSet[str] = frozenset()
    funcs: FrozenSet[str] = frozenset()  # callable targets (repo qualnames or external dotted names)
    depth: int = 0
    items: Tuple["AV", ...] = ()  # per-position values of a fresh tuple of known arity (`return a, b` / `x, y = f()`)

    @property
    def fresh(self):
        return not self.is_ and (self.elem is None or self.elem.fresh)


FRESH = AV()
SCALAR = AV(kind="scalar")
NDFRESH = AV(kind="nd")


def join(a: Optional[AV], b: Optional[AV]) -> Optional[AV]:
    if a is None:
        return b
    if b is None:
        return a
    if a == b:
        return a
    e = join(a.elem, b.elem)
    if e is not None and e.depth > 3:
        e = replace(e, elem=None, depth=0)
    items = ()
    if a.items and len(a.items) == len(b.items):
        items = tuple(join(x, y) for x, y in zip(a.items, b.items))
    return AV(a.is_ | b.is_, e, a.kind if a.kind == b.kind else ("unknown" if "none" not in (a.kind, b.kind)
                                                                else (a.kind if b.kind == "none" else b.kind)),
              a.cls | b.cls, a.funcs | b.funcs, (e.depth + 1) if e is not None else 0, items)


def joins(avs) -> AV:
    out = None
    for a in avs:
        out = join(out, a)
    return out if out is not None else FRESH


def container(kind: str, elem: Optional[AV]) -> AV:
    if elem is not None and elem.fresh and not elem.cls and not elem.funcs:
        elem = None
    return AV(frozenset(), elem, kind, depth=(elem.depth + 1) if elem is not None else 0)


def elem_of(x: AV) -> AV:
    """AV of what iterating / integer-indexing x may yield."""
    outs = []
    if x.elem is not None:
        outs.append(x.elem)
    if x.is_:
        if x.kind == "nd":
            outs.append(AV(x.is_, None, "unknown"))
        elif x.kind in ("list", "tuple", "dict", "set"):
            outs.append(AV(frozenset(o.ext("*") for o in x.is_), None, "unknown"))
        else:
            outs.append(AV(x.is_ | frozenset(o.ext("*") for o in x.is_), None, "unknown"))
    r = joins(outs) if outs else FRESH
    if x.cls:
        # iterating a landscape yields depth lists / value rows of the object
        pass
    return r


@dataclass
class Event:
    kind: str  # write | attrstore | globalstore | flagset
    origin: Origin
    attr: Optional[str]
    node: ast.AST
    func: str  # qualname where the construct is
    how: str
    chain: Tuple[str, ...] = ()
    needs_nd: bool = False

    def key(self):
        return (self.kind, self.origin, self.attr, id(self.node), self.chain)


@dataclass
class Summary:
    fi: FunctionInfo
    events: List[Event] = field(default_factory=list)
    ret: Optional[AV] = None
    captures: Dict[Tuple[Origin, str], AV] = field(default_factory=dict)  # heap at exit for arg-rooted objects
    ext_calls: List[Tuple[str, ast.AST]] = field(default_factory=list)  # external dotted callee, node
    repo_calls: List[Tuple[str, ast.AST]] = field(default_factory=list)
    fresh_makers: List[str] = field(default_factory=list)


# ----------------------------------------------------------------------------- primitive table (OWN facet)

VIEW_FUNCS = {  # result may alias the first argument
    "numpy.asarray", "numpy.asanyarray", "numpy.ascontiguousarray", "numpy.atleast_1d", "numpy.atleast_2d",
    "numpy.asarray_chkfinite", "numpy.reshape", "numpy.ravel", "numpy.transpose", "numpy.squeeze", "numpy.broadcast_arrays",
    "numpy.broadcast_to", "numpy.real", "numpy.imag", "numpy.swapaxes", "numpy.diagonal", "numpy.expand_dims",
    "numpy.moveaxis", "numpy.flipud", "numpy.fliplr", "numpy.flip", "numpy.rollaxis", "numpy.nan_to_num",
    "numpy.array_split", "numpy.split", "numpy.hsplit", "numpy.vsplit", "numpy.asfarray", "numpy.require",
}
VIEW_METHODS = {"reshape", "ravel", "transpose", "squeeze", "view", "swapaxes", "diagonal", "get", "setdefault",
                "values", "items", "keys", "__iter__", "__getitem__"}
COPY_KW_FUNCS = {"numpy.array": True, "numpy.asarray": False}  # default of copy=
_STD_CONTAINERS = {"collections.OrderedDict": "dict", "collections.defaultdict": "dict", "collections.Counter": "dict",
                   "collections.ChainMap": "dict", "collections.deque": "list", "weakref.WeakValueDictionary": "dict",
                   "weakref.WeakKeyDictionary": "dict", "weakref.WeakSet": "set"}
MUTATOR_METHODS = {"append", "extend", "insert", "pop", "remove", "sort", "reverse", "clear", "update", "add",
                   "fill", "resize", "popitem", "discard", "setdefault", "itemset", "put", "partition",
                   "setflags", "byteswap", "__setitem__", "__delitem__", "difference_update", "move_to_end", "appendleft", "extendleft", "rotate",
                   "intersection_update", "symmetric_difference_update", "appendleft", "popleft", "setfield",
                   "__iadd__", "__isub__", "__imul__", "__itruediv__", "__ifloordiv__", "__imod__", "__ipow__", "__iand__",
                   "__ior__", "__ixor__", "__imatmul__"}
MUTATING_FUNCS = {  # dotted name -> index of the argument written in place
    "numpy.fill_diagonal": 0, "numpy.put": 0, "numpy.place": 0, "numpy.putmask": 0, "numpy.copyto": 0,
    "numpy.put_along_axis": 0, "numpy.random.shuffle": 0, "random.shuffle": 0, "numpy.add.at": 0,
    "numpy.subtract.at": 0, "numpy.multiply.at": 0, "numpy.maximum.at": 0, "numpy.minimum.at": 0,
    "numpy.ndarray.sort": 0, "list.sort": 0, "heapq.heappush": 0, "heapq.heappop": 0, "heapq.heapify": 0,
    "bisect.insort": 0, "bisect.insort_left": 0, "bisect.insort_right": 0,
    "hopcroftkarp.HopcroftKarp": 0,  # the constructor adds reverse edges to the dict it is given
    "setattr": 0, "builtins.setattr": 0,
    # the function forms of the in-place operators: `operator.iadd(a, b)` is `a += b`
    "operator.iadd": 0, "operator.isub": 0, "operator.imul": 0, "operator.itruediv": 0, "operator.ifloordiv": 0,
    "operator.imod": 0, "operator.ipow": 0, "operator.iand": 0, "operator.ior": 0, "operator.ixor": 0,
    "operator.imatmul": 0, "operator.iconcat": 0, "operator.ilshift": 0, "operator.irshift": 0,
    "operator.setitem": 0, "operator.delitem": 0,
    "operator.__iadd__": 0, "operator.__isub__": 0, "operator.__imul__": 0, "operator.__itruediv__": 0,
    "operator.__setitem__": 0, "operator.__delitem__": 0,
}
INPLACE_OPERATOR_FUNCS = {k for k in MUTATING_FUNCS if k.startswith("operator.") and "item" not in k}
SHALLOW_CONTAINER_FUNCS = {"builtins.list": "list", "builtins.tuple": "tuple", "builtins.set": "set",
                           "builtins.frozenset": "set", "builtins.sorted": "list", "builtins.reversed": "list",
                           "builtins.zip": "list", "builtins.enumerate": "list", "builtins.iter": "list",
                           "builtins.filter": "list", "builtins.dict": "dict", "itertools.chain": "list",
                           "itertools.chain.from_iterable": "list", "itertools.zip_longest": "list",
                           "itertools.product": "list", "itertools.islice": "list", "builtins.map": "list",
                           "copy.copy": "unknown", "collections.deque": "list", "collections.OrderedDict": "dict"}
ELEMENT_FUNCS = {"builtins.next", "builtins.max", "builtins.min", "random.choice"}  # return an element of arg 0
SCALAR_FUNCS = {"builtins.len", "builtins.int", "builtins.float", "builtins.bool", "builtins.abs", "builtins.str",
                "builtins.isinstance", "builtins.callable", "builtins.all", "builtins.any", "builtins.sum",
                "builtins.round", "builtins.range", "builtins.print", "builtins.type", "builtins.hasattr",
                "builtins.id", "builtins.repr", "builtins.format", "builtins.divmod", "builtins.pow"}
EXTERNAL_ROOTS = ("numpy", "scipy", "sklearn", "matplotlib", "joblib", "hopcroftkarp", "deprecated", "builtins",
                  "itertools", "operator", "warnings", "copy", "bisect", "typing", "pprint", "math", "abc",
                  "collections", "functools", "random", "os", "time", "secrets", "__future__", "mpl_toolkits", "dataclasses",
                  "numbers", "sys", "heapq", "re", "json", "pickle", "decimal", "fractions")
GENERIC_METHOD_NAMES = {"copy", "astype", "flatten", "dot", "sum", "min", "max", "mean", "reshape", "ravel",
                        "transpose", "format", "join", "get", "items", "keys", "values", "tolist", "plot", "scatter",
                        "show", "legend", "kernel", "weight"}
ND_ATTRS_SCALAR = {"shape", "size", "ndim", "dtype", "nbytes", "itemsize"}
ND_ATTRS_VIEW = {"T", "real", "imag", "flat", "data", "mT", "base"}


def is_basic_index(node: ast.AST) -> Optional[bool]:
    """True: basic (view) index; False: advanced (copy); None: depends on the value."""
    if isinstance(node, ast.Slice):
        return True
    if isinstance(node, ast.Constant):
        return True if (node.value is None or isinstance(node.value, (int, type(Ellipsis)))) else None
    if isinstance(node, ast.UnaryOp) and isinstance(node.operand, ast.Constant):
        return True
    if isinstance(node, ast.Tuple):
        rs = [is_basic_index(e) for e in node.elts]
        if any(r is False for r in rs):
            return False
        if all(r is True for r in rs):
            return True
        return None
    if isinstance(node, (ast.List, ast.ListComp, ast.Compare)):
        return False
    if isinstance(node, ast.UnaryOp) and isinstance(node.op, ast.Invert):
        return False
    if isinstance(node, ast.Attribute) and node.attr == "newaxis":
        return True
    return None


# ----------------------------------------------------------------------------- environment


def _simple_test(t) -> bool:
    """a test whose truth cannot change between two evaluations unless one of its names is re-bound: a plain name, an
    attribute-free comparison of names and constants, `x is None`"""
    if isinstance(t, ast.Name):
        return True
    if isinstance(t, ast.Compare) and len(t.ops) == 1 and all(isinstance(x, (ast.Name, ast.Constant)) for x in [t.left] + t.comparators):
        return True
    return False


class Env:
    def __init__(self, parent: Optional["Env"] = None):
        self.vars: Dict[str, AV] = {}
        self.heap: Dict[Tuple[Origin, str], AV] = {}
        self.parent = parent
        self.globals_declared: set = set()
        # correlated branches: name -> (text of the test, names the test reads, value when it held, value when it did not).
        # `x = np.array(a) if flag else np.asarray(a)` followed by `if flag: x[...] -= ...` writes the copy only.
        self.cond: Dict[str, tuple] = {}

    def get(self, name: str) -> Optional[AV]:
        e = self
        while e is not None:
            if name in e.vars:
                return e.vars[name]
            e = e.parent
        return None

    def has(self, name):
        return self.get(name) is not None

    def copy(self) -> "Env":
        c = Env(self.parent)
        c.vars = dict(self.vars)
        c.heap = dict(self.heap)
        c.globals_declared = set(self.globals_declared)
        c.cond = dict(self.cond)
        return c

    def join_with(self, other: "Env"):
        self.cond = {k: v for k, v in self.cond.items() if other.cond.get(k) == v}
        for k in set(self.vars) | set(other.vars):
            a, b = self.vars.get(k), other.vars.get(k)
            if a is None or b is None:
                # bound on one path only: keep it (the other path leaves it undefined)
                self.vars[k] = a if a is not None else b
            else:
                self.vars[k] = join(a, b)
        for k in set(self.heap) | set(other.heap):
            a, b = self.heap.get(k), other.heap.get(k)
            if a is None or b is None:
                base = AV(frozenset([k[0].ext("." + k[1])])) if not k[0].root.startswith("obj:") else FRESH
                self.heap[k] = join(a if a is not None else b, base)
            else:
                self.heap[k] = join(a, b)

    def same(self, other: "Env") -> bool:
        return self.vars == other.vars and self.heap == other.heap


# ----------------------------------------------------------------------------- the analyser


class OwnAnalysis:
    def __init__(self, project: Project):
        self.p = project
        self.summaries: Dict[str, Summary] = {}
        self.in_progress: set = set()
        self._class_attr_names: Dict[str, set] = {}
        self._site = 0
        self.unresolved_calls: List[Tuple[str, str, int]] = []
        for c in project.classes.values():
            names = set(c.methods) | set(c.setters)
            for m in list(c.methods.values()) + list(c.setters.values()):
                for n in ast.walk(m.node):
                    if isinstance(n, ast.Attribute) and isinstance(n.value, ast.Name) and n.value.id == "self" \
                            and isinstance(n.ctx, ast.Store):
                        names.add(n.attr)
            self._class_attr_names[c.qualname] = names

    # ---- class attribute names including inherited
    def class_names(self, cq: str) -> set:
        c = self.p.classes.get(cq)
        if c is None:
            return set()
        out = set()
        for k in c.mro(self.p):
            out |= self._class_attr_names.get(k.qualname, set())
        return out

    def summary(self, qualname: str) -> Summary:
        if qualname in self.summaries:
            return self.summaries[qualname]
        fi = self.p.functions[qualname]
        if qualname in self.in_progress:
            return Summary(fi)  # recursion: optimistic empty summary
        self.in_progress.add(qualname)
        try:
            s = FunctionAnalysis(self, fi).run()
        finally:
            self.in_progress.discard(qualname)
        self.summaries[qualname] = s
        return s

    def all_summaries(self) -> Dict[str, Summary]:
        for q, fi in sorted(self.p.functions.items()):
            if isinstance(fi.node, (ast.FunctionDef, ast.AsyncFunctionDef)) and fi.parent is None:
                self.summary(q)
        return self.summaries

    def new_site(self, node) -> str:
        self._site += 1
        return f"obj:{getattr(node, 'lineno', 0)}.{getattr(node, 'col_offset', 0)}.{self._site}"

    # duck-typed candidate classes for a variable from its attribute usage in a function
    def infer_duck_types(self, fnode: ast.AST) -> Dict[str, FrozenSet[str]]:
        used: Dict[str, set] = {}
        for n in ast.walk(fnode):
            if isinstance(n, ast.Attribute) and isinstance(n.value, ast.Name):
                used.setdefault(n.value.id, set()).add(n.attr)
        out = {}
        for v, attrs in used.items():
            cands = set()
            for cq in self.p.classes:
                names = self.class_names(cq)
                hits = attrs & names
                if hits and attrs <= (names | ND_ATTRS_SCALAR | ND_ATTRS_VIEW | {"copy"}):
                    # must use at least one name that is specific to repo classes
                    if any(not h.startswith("__") for h in hits):
                        cands.add(cq)
            if cands:
                out[v] = frozenset(cands)
        return out


class FunctionAnalysis:
    def __init__(self, oa: OwnAnalysis, fi: FunctionInfo, closure_env: Optional[Env] = None):
        self.oa = oa
        self.p = oa.p
        self.fi = fi
        self.m: Module = fi.module
        self.summary = Summary(fi)
        self.env = Env(closure_env)
        self.ret: Optional[AV] = None
        self.local_funcs: Dict[str, ast.AST] = {}
        self._ev_keys = set()
        self.duck = oa.infer_duck_types(fi.node)
        self.chain: Tuple[str, ...] = ()
        self._exit_heaps: List[dict] = []

    # ------------------------------------------------------------------ entry
    def run(self) -> Summary:
        node = self.fi.node
        a = node.args
        params = a.posonlyargs + a.args
        defaults = [None] * (len(params) - len(a.defaults)) + list(a.defaults)
        allp = list(zip(params, defaults)) + list(zip(a.kwonlyargs, a.kw_defaults))
        for i, (p, d) in enumerate(allp):
            av = AV(frozenset([Origin(f"arg:{p.arg}")]))
            if i == 0 and self.fi.cls is not None and self.fi.kind in ("method", "property", "setter"):
                av = replace(av, kind="obj", cls=frozenset([self.fi.cls.qualname]))
            elif p.arg == "other" and self.fi.cls is not None and self.fi.name in (
                    "__add__", "__sub__", "__radd__", "__rsub__"):
                av = replace(av, kind="obj", cls=frozenset([self.fi.cls.qualname]))
            else:
                ann = p.annotation
                if ann is not None:
                    tgt = self.p.resolve(self.m, ann)
                    if tgt in self.p.classes:
                        subs = [c.qualname for c in self.p.classes.values()
                                if any(k.qualname == tgt for k in c.mro(self.p))]
                        av = replace(av, kind="obj", cls=frozenset(subs))
                    elif tgt in ("builtins.float", "builtins.int", "builtins.bool"):
                        pass  # annotations are not trusted for kinds
                if not av.cls and p.arg in self.duck:
                    av = replace(av, cls=self.duck[p.arg])
            if d is not None and self._mutable_literal(d):
                av = replace(av, is_=av.is_ | frozenset([Origin(f"default:{self.fi.qualname}:{p.arg}")]))
            self.env.vars[p.arg] = av
        if a.vararg:
            self.env.vars[a.vararg.arg] = container("tuple", AV(frozenset([Origin(f"arg:{a.vararg.arg}", ("*",))])))
        if a.kwarg:
            self.env.vars[a.kwarg.arg] = container("dict", AV(frozenset([Origin(f"arg:{a.kwarg.arg}", ("*",))])))
        body = node.body if isinstance(node, (ast.FunctionDef, ast.AsyncFunctionDef)) else [ast.Return(node.body)]
        fell_through = self.exec_block(body, self.env)
        self.summary.ret = self.ret
        # heap at exit = join over every exit (each return and the fall-through); an attribute a path leaves
        # untouched keeps its entry value
        exits = list(self._exit_heaps) + ([dict(self.env.heap)] if fell_through else [])
        if not exits:
            exits = [dict(self.env.heap)]
        keys = set()
        for h in exits:
            keys |= set(h)
        caps = {}
        for k in keys:
            if not k[0].is_arg:
                continue
            acc = None
            for h in exits:
                v = h.get(k)
                if v is None:
                    v = AV(frozenset([k[0].ext("." + k[1])]))
                acc = join(acc, v)
            caps[k] = acc
        self.summary.captures = caps
        return self.summary

    def _mutable_literal(self, d: ast.AST) -> bool:
        if isinstance(d, (ast.List, ast.Dict, ast.Set, ast.ListComp, ast.DictComp, ast.SetComp)):
            return True
        if isinstance(d, ast.Call):
            t = self.p.resolve(self.m, d.func)
            if t and (t.startswith("numpy.") or t in ("builtins.list", "builtins.dict", "builtins.set", "builtins.bytearray") or t in _STD_CONTAINERS):
                return True
        if isinstance(d, ast.Name):
            t = self.p.resolve_name(self.m, d.id)
            if t and t.startswith(self.m.name + ".") and d.id in self.m.globals:
                return self._mutable_literal(self.m.globals[d.id])
        return False

    # ------------------------------------------------------------------ events
    def emit(self, kind, origin: Origin, node, how, attr=None, needs_nd=False, func=None, chain=None):
        if origin.root.startswith("obj:"):
            return
        ev = Event(kind, origin, attr, node, func or self.fi.qualname, how,
                   chain if chain is not None else self.chain, needs_nd)
        k = ev.key()
        if k in self._ev_keys:
            return
        self._ev_keys.add(k)
        self.summary.events.append(ev)

    def _same_object(self, e) -> bool:
        """the expression denotes an object that exists outside this function (a parameter, an attribute, an item of a
        collection handed in), not an array object made here (a slice / view / reshape / arithmetic result)"""
        if isinstance(e, ast.Attribute):
            return True
        if isinstance(e, ast.Name):
            fresh_makers = (ast.Subscript, ast.BinOp, ast.UnaryOp, ast.Call)
            for x in ast.walk(self.fi.node):
                if isinstance(x, ast.Assign) and any(isinstance(t, ast.Name) and t.id == e.id for t in x.targets):
                    v = x.value
                    if isinstance(v, ast.Call):
                        f = v.func
                        nm = f.attr if isinstance(f, ast.Attribute) else (f.id if isinstance(f, ast.Name) else "")
                        if nm in ("asarray", "asanyarray"):
                            continue      # may hand back the very object
                    if isinstance(v, fresh_makers):
                        return False
            return True
        return False

    def write_through(self, av: AV, node, how, needs_nd=False):
        for o in av.is_:
            self.emit("write", o, node, how, needs_nd=needs_nd)

    # ------------------------------------------------------------------ statements
    def exec_block(self, stmts, env: Env) -> bool:
        """returns False if the block always leaves (return/raise/continue/break)"""
        for st in stmts:
            if not self.exec_stmt(st, env):
                return False
        return True

    def exec_stmt(self, st: ast.stmt, env: Env) -> bool:
        if isinstance(st, ast.Expr):
            self.eval(st.value, env)
        elif isinstance(st, ast.Assign):
            v = self.eval(st.value, env)
            for t in st.targets:
                self.assign(t, v, env, st.value, st)
        elif isinstance(st, ast.AnnAssign):
            if st.value is not None:
                self.assign(st.target, self.eval(st.value, env), env, st.value, st)
        elif isinstance(st, ast.AugAssign):
            self.augassign(st, env)
        elif isinstance(st, ast.Return):
            if st.value is not None:
                self.ret = join(self.ret, self.eval(st.value, env))
            else:
                self.ret = join(self.ret, AV(kind="none"))
            self._exit_heaps.append(dict(env.heap))
            return False
        elif isinstance(st, ast.Raise):
            if st.exc is not None:
                self.eval(st.exc, env)
            return False
        elif isinstance(st, (ast.Continue, ast.Break)):
            return False
        elif isinstance(st, ast.If):
            self.eval(st.test, env)
            e1, e2 = env.copy(), env.copy()
            self._narrow(st.test, e1, True)
            self._narrow(st.test, e2, False)
            l1 = self.exec_block(st.body, e1)
            l2 = self.exec_block(st.orelse, e2)
            if l1 and l2:
                rec_ = {}
                t_, flip = st.test, False
                while isinstance(t_, ast.UnaryOp) and isinstance(t_.op, ast.Not):
                    t_, flip = t_.operand, not flip
                if _simple_test(t_):
                    names_ = frozenset(x.id for x in ast.walk(t_) if isinstance(x, ast.Name))
                    assigned = {y.id for b_ in (st.body, st.orelse) for s_ in b_ for y in ast.walk(s_)
                                if isinstance(y, ast.Name) and isinstance(y.ctx, ast.Store)}
                    if not (assigned & names_):
                        for nme in assigned:
                            a_, b_ = e1.vars.get(nme), e2.vars.get(nme)
                            if a_ is not None and b_ is not None and a_ != b_:
                                rec_[nme] = (ast.unparse(t_), names_, b_ if flip else a_, a_ if flip else b_)
                e1.join_with(e2)
                env.vars, env.heap, env.cond = e1.vars, e1.heap, dict(e1.cond, **rec_)
            elif l1:
                env.vars, env.heap = e1.vars, e1.heap
            elif l2:
                env.vars, env.heap = e2.vars, e2.heap
            else:
                e1.join_with(e2)
                env.vars, env.heap = e1.vars, e1.heap
                return False
        elif isinstance(st, (ast.For, ast.AsyncFor)):
            it = self.eval(st.iter, env)
            self._iter_call(it, st.iter, env)
            strong = self._strong_elem_update(st)
            for _ in range(4):
                before = env.copy()
                body_env = env.copy()
                self.assign(st.target, self._for_elem(st.iter, it, env), body_env, None, st)
                self.exec_block(st.body, body_env)
                env.join_with(body_env)
                if env.same(before):
                    break
            if strong is not None:
                name, fresh_av = strong
                cur = env.get(name)
                if cur is not None and not cur.is_:
                    env.vars[name] = replace(cur, elem=fresh_av if not fresh_av.fresh else None)
            self.exec_block(st.orelse, env)
        elif isinstance(st, ast.While):
            for _ in range(4):
                before = env.copy()
                self.eval(st.test, env)
                body_env = env.copy()
                self.exec_block(st.body, body_env)
                env.join_with(body_env)
                if env.same(before):
                    break
            self.exec_block(st.orelse, env)
        elif isinstance(st, ast.Try):
            e0 = env.copy()
            ok = self.exec_block(st.body, env)
            if ok:
                self.exec_block(st.orelse, env)
            outs = []
            for h in st.handlers:
                eh = e0.copy()
                eh.join_with(env)
                if h.name:
                    eh.vars[h.name] = AV(kind="obj")
                if self.exec_block(h.body, eh):
                    outs.append(eh)
            for eh in outs:
                env.join_with(eh)
            self.exec_block(st.finalbody, env)
        elif isinstance(st, (ast.With, ast.AsyncWith)):
            for item in st.items:
                v = self.eval(item.context_expr, env)
                if item.optional_vars is not None:
                    self.assign(item.optional_vars, v, env, None, st)
            return self.exec_block(st.body, env)
        elif isinstance(st, (ast.FunctionDef, ast.AsyncFunctionDef)):
            self.local_funcs[st.name] = st
            env.vars[st.name] = AV(kind="func", funcs=frozenset([f"{self._outer_qual()}.<locals>.{st.name}"]))
        elif isinstance(st, ast.Delete):
            for t in st.targets:
                if isinstance(t, ast.Subscript):
                    self.write_through(self.eval(t.value, env), st, "del of an element")
                elif isinstance(t, ast.Attribute):
                    for o in self.eval(t.value, env).is_:
                        self.emit("attrstore", o, st, "del of an attribute", attr=t.attr)
        elif isinstance(st, (ast.Global, ast.Nonlocal)):
            env.globals_declared |= set(st.names)
        elif isinstance(st, ast.Assert):
            self.eval(st.test, env)
        elif isinstance(st, (ast.Pass, ast.Import, ast.ImportFrom, ast.ClassDef)):
            pass
        elif isinstance(st, ast.Match):
            self.eval(st.subject, env)
            for c in st.cases:
                self.exec_block(c.body, env)
        else:
            raise AnalysisError(f"OWN: unmodelled statement {type(st).__name__} at {self.fi.loc(st)}")
        return True

    def _outer_qual(self):
        return self.fi.qualname

    def _narrow(self, test, env: Env, branch: bool):
        t_, b_ = test, branch
        while isinstance(t_, ast.UnaryOp) and isinstance(t_.op, ast.Not):
            t_, b_ = t_.operand, not b_
        if _simple_test(t_) and env.cond:
            key = ast.unparse(t_)
            for nme, (k_, _names, v_true, v_false) in list(env.cond.items()):
                if k_ == key and nme in env.vars:
                    env.vars[nme] = v_true if b_ else v_false
        # `x is None` / `x is not None` refinement: on the None branch the value is not an alias of anything
        if isinstance(test, ast.Compare) and len(test.ops) == 1 and isinstance(test.left, ast.Name) \
                and isinstance(test.comparators[0], ast.Constant) and test.comparators[0].value is None:
            is_none = isinstance(test.ops[0], ast.Is) == branch if isinstance(test.ops[0], (ast.Is, ast.IsNot)) else None
            if is_none is True and test.left.id in env.vars:
                env.vars[test.left.id] = AV(kind="none")

    def _strong_elem_update(self, st: ast.For):
        """idiom: for i in range(len(A)): A[i] = <expr>  (unconditional) — every element is replaced"""
        if not (isinstance(st.target, ast.Name) and isinstance(st.iter, ast.Call)
                and isinstance(st.iter.func, ast.Name) and st.iter.func.id == "range" and len(st.iter.args) == 1):
            return None
        a = st.iter.args[0]
        if not (isinstance(a, ast.Call) and isinstance(a.func, ast.Name) and a.func.id == "len" and a.args
                and isinstance(a.args[0], ast.Name)):
            return None
        name = a.args[0].id
        for b in st.body:
            if isinstance(b, ast.Assign) and len(b.targets) == 1 and isinstance(b.targets[0], ast.Subscript) \
                    and isinstance(b.targets[0].value, ast.Name) and b.targets[0].value.id == name \
                    and isinstance(b.targets[0].slice, ast.Name) and b.targets[0].slice.id == st.target.id:
                e = Env(self.env)
                e.vars[st.target.id] = SCALAR
                v = self.eval(b.value, e, quiet=True)
                return name, v
        return None

    def _for_elem(self, iter_node, it: AV, env) -> AV:
        # enumerate / zip yield tuples of elements
        if isinstance(iter_node, ast.Call):
            t = self.p.resolve(self.m, iter_node.func, self._locals(env))
            if t == "builtins.enumerate" and iter_node.args:
                inner = self.eval(iter_node.args[0], env, quiet=True)
                return replace(container("tuple", join(SCALAR, elem_of(inner))), items=(SCALAR, elem_of(inner)))
            if t in ("builtins.zip", "itertools.zip_longest", "itertools.product") and iter_node.args \
                    and not any(isinstance(a, ast.Starred) for a in iter_node.args):
                # position k of every yielded tuple comes from the k-th sequence only
                parts = tuple(elem_of(self.eval(a, env, quiet=True)) for a in iter_node.args)
                if t == "itertools.zip_longest":
                    parts = tuple(join(x, AV(kind="none")) for x in parts)
                return replace(container("tuple", joins(list(parts))), items=parts)
            if t in ("builtins.zip", "itertools.zip_longest", "itertools.product"):
                return container("tuple", joins([elem_of(self.eval(a, env, quiet=True)) for a in iter_node.args]))
            if t == "builtins.range":
                return SCALAR
        return elem_of(it)

    def _locals(self, env: Env):
        names = set()
        e = env
        while e is not None:
            names |= set(e.vars)
            e = e.parent
        return names

    # ------------------------------------------------------------------ assignment
    def assign(self, target, v: AV, env: Env, value_node, st):
        if isinstance(target, ast.Name):
            if target.id in env.globals_declared:
                self.emit("globalstore", Origin(f"global:{self.m.name}.{target.id}"), st,
                          "store to a module-level name", attr=target.id)
            if not v.cls and target.id in self.duck and v.kind not in ("scalar", "str", "none", "nd"):
                v = replace(v, cls=self.duck[target.id])
            env.vars[target.id] = v
            # a re-bound name ends every correlation it took part in
            for k_ in [k_ for k_, rec in env.cond.items() if k_ == target.id or target.id in rec[1]]:
                del env.cond[k_]
            if isinstance(value_node, ast.IfExp) and _simple_test(value_node.test):
                names_ = frozenset(x.id for x in ast.walk(value_node.test) if isinstance(x, ast.Name))
                if target.id not in names_:
                    env.cond[target.id] = (ast.unparse(value_node.test), names_, self.eval(value_node.body, env, quiet=True),
                                           self.eval(value_node.orelse, env, quiet=True))
        elif isinstance(target, (ast.Tuple, ast.List)):
            if isinstance(value_node, (ast.Tuple, ast.List)) and len(value_node.elts) == len(target.elts):
                for t, vn in zip(target.elts, value_node.elts):
                    self.assign(t, self.eval(vn, env, quiet=True), env, vn, st)
            elif v.items and len(v.items) == len(target.elts) and not v.is_ \
                    and not any(isinstance(t, ast.Starred) for t in target.elts):
                for t, iv in zip(target.elts, v.items):
                    self.assign(t, iv, env, None, st)
            else:
                e = elem_of(v)
                for t in target.elts:
                    if isinstance(t, ast.Starred):
                        self.assign(t.value, container("list", e), env, None, st)
                    else:
                        self.assign(t, e, env, None, st)
        elif isinstance(target, ast.Subscript):
            base = self.eval(target.value, env)
            self.eval(target.slice, env)
            self.write_through(base, st, "subscript store")
            self._weak_elem_update(target.value, base, v, env)
        elif isinstance(target, ast.Attribute):
            gt = self.p.resolve(self.m, target.value, self._locals(env))
            if gt is None and isinstance(target.value, ast.Attribute) and target.value.attr == "__class__":
                gt = "<class of %s>" % ast.unparse(target.value.value)
            if gt is None and isinstance(target.value, ast.Call) and isinstance(target.value.func, ast.Name) \
                    and target.value.func.id == "type":
                gt = "<class of %s>" % ast.unparse(target.value.args[0]) if target.value.args else None
            if gt is not None:
                self.emit("globalstore", Origin(f"global:{gt}.{target.attr}"), st,
                          "store to an attribute of a class or module object", attr=target.attr)
                return
            base = self.eval(target.value, env)
            setter = self._find_setter(base, target.attr)
            if setter:
                for s in setter:
                    self.call_repo(s, [base, v], {}, st, env, receiver_bound=True)
                return
            for o in base.is_:
                self.emit("attrstore", o, st, "attribute store", attr=target.attr)
            origins = base.is_ or frozenset()
            if len(origins) == 1:
                env.heap[(next(iter(origins)), target.attr)] = v
            else:
                for o in origins:
                    old = env.heap.get((o, target.attr), AV(frozenset([o.ext("." + target.attr)])))
                    env.heap[(o, target.attr)] = join(old, v)
        elif isinstance(target, ast.Starred):
            self.assign(target.value, v, env, None, st)
        else:
            raise AnalysisError(f"OWN: unmodelled assignment target {type(target).__name__} at {self.fi.loc(st)}")

    def _weak_elem_update(self, base_node, base: AV, v: AV, env: Env):
        if isinstance(base_node, ast.Name) and base_node.id in env.vars:
            cur = env.vars[base_node.id]
            if v.is_ or v.elem is not None:
                alias = AV(v.is_, v.elem, v.kind, v.cls, v.funcs)
                env.vars[base_node.id] = replace(cur, elem=join(cur.elem, alias) if cur.elem is not None else alias)

    def _find_setter(self, base: AV, attr: str) -> List[FunctionInfo]:
        out = []
        for cq in base.cls:
            c = self.p.classes.get(cq)
            if c is not None:
                s = c.lookup_setter(attr, self.p)
                if s is not None and s not in out:
                    out.append(s)
        return out

    def augassign(self, st: ast.AugAssign, env: Env):
        rhs = self.eval(st.value, env)
        t = st.target
        if isinstance(t, ast.Name):
            cur = env.get(t.id)
            if cur is None:
                cur = self.eval(t, env)
            if cur.kind in ("scalar", "str", "none", "tuple"):
                env.vars[t.id] = SCALAR if cur.kind != "tuple" else cur
            else:
                # in place for ndarray / list; a rebinding only for immutable scalars
                proven = cur.kind in ("nd", "list", "dict", "set")
                if cur.is_:
                    self.write_through(cur, st, "in-place operator on a name", needs_nd=not proven)
                if cur.kind == "list" and (rhs.is_ or rhs.elem):
                    self._weak_elem_update(t, cur, elem_of(rhs), env)
                if not cur.is_ and cur.kind == "unknown":
                    env.vars[t.id] = join(cur, FRESH)
        elif isinstance(t, ast.Subscript):
            base = self.eval(t.value, env)
            self.eval(t.slice, env)
            self.write_through(base, st, "in-place operator on a subscript")
        elif isinstance(t, ast.Attribute):
            base = self.eval(t.value, env)
            cur = self.load_attr(base, t.attr, env, t)
            for o in base.is_:
                self.emit("attrstore", o, st, "in-place operator on an attribute", attr=t.attr)
            if cur.kind in ("nd", "list", "unknown"):
                self.write_through(cur, st, "in-place operator on an attribute value", needs_nd=cur.kind == "unknown")

    # ------------------------------------------------------------------ expressions
    def eval(self, n: ast.AST, env: Env, quiet: bool = False) -> AV:
        if quiet:
            saved = (self.summary.events, self._ev_keys, self.summary.ext_calls, self.summary.repo_calls)
            self.summary.events, self._ev_keys = list(saved[0]), set(saved[1])
            self.summary.ext_calls, self.summary.repo_calls = list(saved[2]), list(saved[3])
            try:
                return self._eval(n, env)
            finally:
                self.summary.events, self._ev_keys, self.summary.ext_calls, self.summary.repo_calls = saved
        return self._eval(n, env)

    def _eval(self, n: ast.AST, env: Env) -> AV:
        if isinstance(n, ast.Constant):
            if n.value is None:
                return AV(kind="none")
            return AV(kind="str") if isinstance(n.value, str) else SCALAR
        if isinstance(n, ast.Name):
            v = env.get(n.id)
            if v is not None:
                return v
            return self._global_name(n.id)
        if isinstance(n, ast.Attribute):
            tgt = self.p.resolve(self.m, n, self._locals(env))
            if tgt is not None:
                return self._global_value(tgt)
            base = self.eval(n.value, env)
            return self.load_attr(base, n.attr, env, n)
        if isinstance(n, ast.Subscript):
            base = self.eval(n.value, env)
            idx = self.eval(n.slice, env)
            return self.subscript(base, n.slice, idx, env, n)
        if isinstance(n, ast.Call):
            return self.call(n, env)
        if isinstance(n, ast.BinOp):
            l, r = self.eval(n.left, env), self.eval(n.right, env)
            return self.binop(n, l, r, env)
        if isinstance(n, ast.UnaryOp):
            v = self.eval(n.operand, env)
            if v.cls and isinstance(n.op, ast.USub):
                return self.call_method_on(v, "__neg__", [], {}, n, env) or FRESH
            return AV(kind=v.kind if v.kind in ("nd", "scalar") else "unknown")
        if isinstance(n, ast.BoolOp):
            return joins([self.eval(v, env) for v in n.values])
        if isinstance(n, ast.Compare):
            ks = [self.eval(n.left, env)] + [self.eval(c, env) for c in n.comparators]
            if any(k.kind == "nd" for k in ks):
                return NDFRESH
            if all(k.kind in ("scalar", "str", "none") for k in ks):
                return SCALAR
            return FRESH
        if isinstance(n, ast.IfExp):
            self.eval(n.test, env)
            return join(self.eval(n.body, env), self.eval(n.orelse, env))
        if isinstance(n, (ast.List, ast.Tuple, ast.Set)):
            es = []
            for e in n.elts:
                if isinstance(e, ast.Starred):
                    es.append(elem_of(self.eval(e.value, env)))
                else:
                    es.append(self.eval(e, env))
            kind = {"List": "list", "Tuple": "tuple", "Set": "set"}[type(n).__name__]
            if not es:
                return AV(kind=kind)
            e = joins(es)
            alias = AV(e.is_, e.elem, e.kind, e.cls, e.funcs)
            r = container(kind, alias)
            if kind == "tuple" and not any(isinstance(x, ast.Starred) for x in n.elts):
                r = replace(r, items=tuple(es))
            return r
        if isinstance(n, ast.Dict):
            vs = [self.eval(v, env) for v in n.values if v is not None]
            for k in n.keys:
                if k is not None:
                    self.eval(k, env)
            if not vs:
                return AV(kind="dict")
            e = joins(vs)
            return container("dict", AV(e.is_, e.elem, e.kind, e.cls, e.funcs))
        if isinstance(n, (ast.ListComp, ast.SetComp, ast.GeneratorExp, ast.DictComp)):
            e = Env(env)
            for g in n.generators:
                it = self.eval(g.iter, e)
                self._iter_call(it, g.iter, e)
                self.assign(g.target, self._for_elem(g.iter, it, e), e, None, n)
                for c in g.ifs:
                    self.eval(c, e)
            if isinstance(n, ast.DictComp):
                self.eval(n.key, e)
                el = self.eval(n.value, e)
                kind = "dict"
            else:
                el = self.eval(n.elt, e)
                kind = "set" if isinstance(n, ast.SetComp) else "list"
            return container(kind, AV(el.is_, el.elem, el.kind, el.cls, el.funcs))
        if isinstance(n, ast.Lambda):
            q = f"{self.fi.qualname}.<lambda>@{n.lineno}.{n.col_offset}"
            self.local_funcs[q] = n
            return AV(kind="func", funcs=frozenset([q]))
        if isinstance(n, ast.JoinedStr):
            for v in n.values:
                if isinstance(v, ast.FormattedValue):
                    self.eval(v.value, env)
            return AV(kind="str")
        if isinstance(n, ast.FormattedValue):
            self.eval(n.value, env)
            return AV(kind="str")
        if isinstance(n, ast.Slice):
            for x in (n.lower, n.upper, n.step):
                if x is not None:
                    self.eval(x, env)
            return SCALAR
        if isinstance(n, ast.Starred):
            return self.eval(n.value, env)
        if isinstance(n, ast.NamedExpr):
            v = self.eval(n.value, env)
            self.assign(n.target, v, env, n.value, n)
            return v
        if isinstance(n, (ast.Await, ast.Yield, ast.YieldFrom)):
            return self.eval(n.value, env) if getattr(n, "value", None) is not None else FRESH
        raise AnalysisError(f"OWN: unmodelled expression {type(n).__name__} at {self.fi.loc(n)}")

    def _global_name(self, name: str) -> AV:
        tgt = self.p.resolve_name(self.m, name)
        if tgt is None:
            return FRESH
        return self._global_value(self.p.canonical(tgt))

    def _global_value(self, tgt: str) -> AV:
        if tgt in self.p.functions:
            return AV(kind="func", funcs=frozenset([tgt]))
        if tgt in self.p.classes:
            return AV(kind="func", funcs=frozenset([tgt]))
        if tgt in self.p.modules:
            return AV(kind="obj")
        mod, _, name = tgt.rpartition(".")
        m = self.p.modules.get(mod)
        if m is not None and name in m.globals:
            val = m.globals[name]
            if self._mutable_literal(val):
                kind = "nd" if isinstance(val, ast.Call) else "list"
                if isinstance(val, ast.Call):
                    t_ = self.p.resolve(m, val.func) or ""
                    if t_ in _STD_CONTAINERS or t_ in ("builtins.dict", "builtins.list", "builtins.set", "builtins.bytearray"):
                        kind = _STD_CONTAINERS.get(t_, t_.rsplit(".", 1)[1] if t_.startswith("builtins.") else "dict")
                        if kind == "bytearray":
                            kind = "list"
                return AV(frozenset([Origin(f"global:{tgt}")]), None, kind)
            return SCALAR
        # external object (np.inf, np.pi, np.float32, plt, ...)
        if tgt.split(".")[0] in EXTERNAL_ROOTS:
            return AV(kind="func", funcs=frozenset([tgt]))
        return FRESH

    def load_attr(self, base: AV, attr: str, env: Env, node) -> AV:
        if attr in ND_ATTRS_SCALAR and not base.cls:
            return SCALAR
        if attr in ND_ATTRS_VIEW and not base.cls:
            return AV(base.is_, base.elem, base.kind)
        # property getter of a repo class
        outs = []
        handled = False
        for cq in base.cls:
            c = self.p.classes.get(cq)
            if c is None:
                continue
            m = c.lookup(attr, self.p)
            if m is not None and m.kind == "property":
                r = self.call_repo(m, [base], {}, node, env, receiver_bound=True)
                outs.append(r)
                handled = True
            elif m is not None:
                outs.append(AV(kind="func", funcs=frozenset([m.qualname])))
                handled = True
        if handled:
            return joins(outs)
        if base.funcs and not base.is_:
            # attribute of an external module object, e.g. np.random
            return AV(kind="func", funcs=frozenset(f"{f}.{attr}" for f in base.funcs))
        for o in base.is_:
            if (o, attr) in env.heap:
                outs.append(env.heap[(o, attr)])
            elif o.root.startswith("obj:"):
                outs.append(FRESH)
            else:
                outs.append(AV(frozenset([o.ext("." + attr)])))
        if not base.is_:
            return FRESH
        return joins(outs)

    def subscript(self, base: AV, slice_node, idx: AV, env: Env, node) -> AV:
        if base.cls:
            r = self.call_method_on(base, "__getitem__", [idx], {}, node, env)
            if r is not None:
                return r
        basic = is_basic_index(slice_node)
        if basic is None:
            basic = not (idx.kind in ("nd", "list"))
        if base.kind == "nd":
            if not basic:
                return NDFRESH
            return AV(base.is_, None, "nd" if isinstance(slice_node, (ast.Slice, ast.Tuple)) else "unknown")
        if base.kind in ("list", "tuple"):
            if isinstance(slice_node, ast.Slice):
                return container(base.kind, elem_of(base) if (base.is_ or base.elem) else None)
            if base.items and not base.is_ and isinstance(slice_node, ast.Constant) and isinstance(slice_node.value, int) \
                    and -len(base.items) <= slice_node.value < len(base.items):
                return base.items[slice_node.value]
            return elem_of(base)
        if base.kind == "dict":
            return elem_of(base)
        if base.kind in ("scalar", "str", "none"):
            return SCALAR
        # unknown kind: may be an ndarray view, or a list element / list slice
        if not basic:
            return join(NDFRESH, elem_of(base)) if base.elem is not None else AV(kind="unknown")
        e = elem_of(base)
        if isinstance(slice_node, ast.Slice):
            return AV(base.is_, e if (e.is_ or e.elem) else None, "unknown")
        return AV(base.is_ | e.is_, e.elem, "unknown", e.cls, e.funcs)

    def binop(self, n: ast.BinOp, l: AV, r: AV, env: Env) -> AV:
        names = {ast.Add: ("__add__", "__radd__"), ast.Sub: ("__sub__", "__rsub__"),
                 ast.Mult: ("__mul__", "__rmul__"), ast.Div: ("__truediv__", "__rtruediv__")}
        nm = names.get(type(n.op))
        if nm:
            if l.cls:
                res = self.call_method_on(l, nm[0], [r], {}, n, env)
                if res is not None:
                    return res
            if r.cls:
                res = self.call_method_on(r, nm[1], [l], {}, n, env)
                if res is not None:
                    return res
        if isinstance(n.op, ast.Add) and (l.kind == "list" or r.kind == "list") and "nd" not in (l.kind, r.kind):
            return container("list", join(elem_of(l) if (l.is_ or l.elem) else None,
                                          elem_of(r) if (r.is_ or r.elem) else None))
        if isinstance(n.op, ast.Mult) and (l.kind == "list" or r.kind == "list") and "nd" not in (l.kind, r.kind):
            x = l if l.kind == "list" else r
            return container("list", elem_of(x) if (x.is_ or x.elem) else None)
        if isinstance(n.op, ast.Mod) and l.kind == "str":
            return AV(kind="str")
        if l.kind == "nd" or r.kind == "nd":
            return NDFRESH
        if l.kind == "scalar" and r.kind == "scalar":
            return SCALAR
        return FRESH

    # ------------------------------------------------------------------ calls
    def _iter_call(self, it: AV, node, env: Env):
        if it.cls:
            self.call_method_on(it, "__iter__", [], {}, node, env) or \
                self.call_method_on(it, "__getitem__", [SCALAR], {}, node, env)

    def call_method_on(self, recv: AV, name: str, args: List[AV], kwargs: Dict[str, AV], node, env) -> Optional[AV]:
        targets = []
        for cq in sorted(recv.cls):
            c = self.p.classes.get(cq)
            if c is None:
                continue
            m = c.lookup(name, self.p)
            if m is not None and m not in targets:
                targets.append(m)
        if not targets:
            return None
        outs = []
        for m in targets:
            if m.kind == "staticmethod":
                outs.append(self.call_repo(m, args, kwargs, node, env))
            else:
                outs.append(self.call_repo(m, [recv] + args, kwargs, node, env, receiver_bound=True))
        return joins(outs)

    def call(self, n: ast.Call, env: Env) -> AV:
        self.summary_call_sites = getattr(self, "summary_call_sites", 0) + 1
        args = []
        for a in n.args:
            if isinstance(a, ast.Starred):
                args.append(("*", self.eval(a.value, env)))
            else:
                args.append(self.eval(a, env))
        kwargs = {}
        for k in n.keywords:
            v = self.eval(k.value, env)
            if k.arg is None:
                kwargs["**"] = v
            else:
                kwargs[k.arg] = v
        pos = [a for a in args if not isinstance(a, tuple)]
        star = [a[1] for a in args if isinstance(a, tuple)]

        f = n.func
        # super().m(...)
        if isinstance(f, ast.Attribute) and isinstance(f.value, ast.Call) and isinstance(f.value.func, ast.Name) \
                and f.value.func.id == "super" and self.fi.cls is not None:
            m = self.fi.cls.lookup_super(f.attr, self.p)
            selfv = env.get(self.fi.params[0]) if self.fi.params else FRESH
            if m is not None:
                return self.call_repo(m, [selfv] + pos, kwargs, n, env, receiver_bound=True, star=star)
            self.summary.ext_calls.append((f"super().{f.attr}", n))
            return FRESH
        # resolved global callee
        tgt = self.p.resolve(self.m, f, self._locals(env))
        if tgt is not None and isinstance(f, ast.Attribute):
            # a method of a module-level data object (`_CACHE.update(...)`, `_TABLE.items()`): a method call on that value
            base_t = self.p.resolve(self.m, f.value, self._locals(env))
            if base_t is not None:
                bm, _, bname = self.p.canonical(base_t).rpartition(".")
                mod = self.p.modules.get(bm)
                if mod is not None and bname in mod.globals and self.p.canonical(base_t) not in self.p.functions \
                        and self.p.canonical(base_t) not in self.p.classes:
                    recv = self._global_value(self.p.canonical(base_t))
                    if not recv.is_:
                        # immutable literal (tuple of constants, string, number): reading it has no effect
                        recv = AV(kind="tuple" if isinstance(mod.globals[bname], ast.Tuple) else recv.kind)
                    return self.method_call(recv, f.attr, pos, kwargs, n, env, star)
        if tgt is not None:
            ct = self.p.canonical(tgt)
            cm, _, cname = ct.rpartition(".")
            mod = self.p.modules.get(cm)
            if mod is not None and cname in mod.globals and ct not in self.p.functions and ct not in self.p.classes:
                gv = mod.globals[cname]
                if isinstance(gv, ast.Call) and self.p.resolve(mod, gv.func, ()) in ("collections.namedtuple", "typing.NamedTuple"):
                    # a namedtuple class: constructing one builds a fresh tuple holding the arguments
                    es = list(pos) + [v for k, v in kwargs.items() if k != "**"]
                    e = joins(es) if es else None
                    return container("tuple", AV(e.is_, e.elem, e.kind, e.cls, e.funcs) if e is not None else None)
            return self.call_target(tgt, pos, kwargs, n, env, star)
        # method call on a value
        if isinstance(f, ast.Attribute):
            recv = self.eval(f.value, env)
            return self.method_call(recv, f.attr, pos, kwargs, n, env, star)
        # call of a local callable value
        fv = self.eval(f, env)
        return self.call_value(fv, pos, kwargs, n, env, star)

    def call_value(self, fv: AV, pos, kwargs, n, env, star=()) -> AV:
        outs = []
        for t in sorted(fv.funcs):
            if t in self.local_funcs:
                outs.append(self.call_local(t, pos, kwargs, n, env))
            elif "<locals>" in t and t.rsplit(".", 1)[-1] in self.local_funcs:
                outs.append(self.call_local(t.rsplit(".", 1)[-1], pos, kwargs, n, env))
            else:
                outs.append(self.call_target(t, pos, kwargs, n, env, star))
        if not fv.funcs:
            # unknown callable (user-supplied weight / kernel, or a parameter): assumed pure by contract
            self.summary.ext_calls.append(("<callable value>", n))
            return FRESH
        return joins(outs)

    def call_local(self, name, pos, kwargs, n, env) -> AV:
        node = self.local_funcs[name]
        sub = FunctionInfo(f"{self.fi.qualname}.<locals>.{getattr(node, 'name', name)}", getattr(node, "name", "<lambda>"),
                           node, self.m, cls=None, parent=self.fi)
        key = ("local", id(node))
        if key in self.oa.in_progress:
            return FRESH
        self.oa.in_progress.add(key)
        try:
            fa = FunctionAnalysis(self.oa, sub, closure_env=env)
            fa.local_funcs = dict(self.local_funcs)
            s = fa.run()
        finally:
            self.oa.in_progress.discard(key)
        return self.apply_summary(s, sub, pos, kwargs, n, env)

    def call_target(self, tgt: str, pos, kwargs, n, env, star=()) -> AV:
        tgt = self.p.canonical(tgt)
        if tgt.endswith(".__new__") and tgt.rsplit(".", 1)[0] in self.p.classes and tgt not in self.p.functions:
            # C.__new__(C): a fresh instance with nothing set
            c = self.p.classes[tgt.rsplit(".", 1)[0]]
            return AV(frozenset([Origin(self.oa.new_site(n))]), None, "obj", frozenset([c.qualname]))
        if tgt in self.p.functions:
            return self.call_repo(self.p.functions[tgt], pos, kwargs, n, env, star=star)
        if tgt in self.p.classes:
            return self.construct(self.p.classes[tgt], pos, kwargs, n, env)
        return self.call_external(tgt, pos, kwargs, n, env, star)

    def construct(self, c: ClassInfo, pos, kwargs, n, env) -> AV:
        site = Origin(self.oa.new_site(n))
        obj = AV(frozenset([site]), None, "obj", frozenset([c.qualname]))
        init = c.lookup("__init__", self.p)
        if init is not None:
            self.call_repo(init, [obj] + pos, kwargs, n, env, receiver_bound=True, self_origin=site)
        return obj

    def call_repo(self, fi: FunctionInfo, pos, kwargs, n, env, receiver_bound=False, star=(), self_origin=None) -> AV:
        self.summary.repo_calls.append((fi.qualname, n))
        s = self.oa.summary(fi.qualname)
        r = self.apply_summary(s, fi, pos, kwargs, n, env, star=star, self_origin=self_origin)
        decos = [ast.unparse(d) for d in getattr(fi.node, "decorator_list", [])]
        if any(d.split("(")[0].rsplit(".", 1)[-1] in ("lru_cache", "cache", "cached", "memoize") for d in decos):
            # a memoised function hands the SAME objects to every caller with equal arguments: what it returns is shared,
            # module-level state (mutating it in place changes what later calls receive)
            g = Origin(f"global:{fi.qualname}.<memo>")

            def share(av, depth=0):
                if av is None or depth > 3:
                    return av
                if av.kind in ("scalar", "str", "none"):
                    return av
                items = tuple(share(x, depth + 1) for x in av.items) if av.items else ()
                return AV(av.is_ | frozenset([g]), share(av.elem, depth + 1), av.kind if av.kind != "unknown" else "nd",
                          av.cls, av.funcs, av.depth, items)
            r = share(r)
        return r

    def bind(self, fi: FunctionInfo, pos, kwargs, star=()) -> Dict[str, AV]:
        a = fi.node.args
        params = [x.arg for x in a.posonlyargs + a.args]
        b: Dict[str, AV] = {}
        for i, v in enumerate(pos):
            if i < len(params):
                b[params[i]] = v
            elif a.vararg:
                b[a.vararg.arg] = join(b.get(a.vararg.arg), container("tuple", v))
        names = set(params) | {x.arg for x in a.kwonlyargs}
        for k, v in kwargs.items():
            if k == "**":
                for pn in names:
                    if pn not in b:
                        b[pn] = join(b.get(pn), elem_of(v))
                continue
            if k in names:
                b[k] = v
            elif a.kwarg:
                b[a.kwarg.arg] = join(b.get(a.kwarg.arg), container("dict", v))
        for sv in star:
            for pn in params:
                if pn not in b:
                    b[pn] = elem_of(sv)
        return b

    @staticmethod
    def _arg_expr(fi: FunctionInfo, call, pname):
        """the argument expression bound to `pname` at this call (None when it cannot be told: *args, a method receiver)"""
        if not isinstance(call, ast.Call):
            return None
        a = fi.node.args
        names = [x.arg for x in a.posonlyargs + a.args]
        if fi.cls is not None and fi.kind not in ("staticmethod",) and isinstance(call.func, ast.Attribute) and names:
            if pname == names[0]:
                return call.func.value
            names = names[1:]
        for kw in call.keywords:
            if kw.arg == pname:
                return kw.value
        if a.vararg is not None and pname == a.vararg.arg:
            extra = call.args[len(names):]
            # every extra positional argument must be an outside object for the effect to reach the caller
            if extra and all(isinstance(x, (ast.Name, ast.Attribute)) for x in extra):
                return extra[0]
            return extra[0] if extra else None
        if pname in names:
            k = names.index(pname)
            if k < len(call.args) and not any(isinstance(x, ast.Starred) for x in call.args[:k + 1]):
                return call.args[k]
        return None

    def subst_origin(self, o: Origin, binding: Dict[str, AV]) -> List[Tuple[Origin, AV]]:
        """Map a callee origin to caller origins. Returns (origin, actual) pairs."""
        if not o.is_arg:
            return [(o, None)]
        actual = binding.get(o.param)
        if actual is None:
            return []
        return [(x, actual) for x in self._follow(actual, o.path)]

    def _follow(self, av: AV, path: Tuple[str, ...]) -> List[Origin]:
        if not path:
            return list(av.is_)
        outs = []
        cur = getattr(self, "_cur_env", None) or getattr(self, "env", None)
        heap = cur.heap if cur is not None else {}
        for o in av.is_:
            # an attribute of an object built in this function (a helper object constructed from the caller's data): the
            # heap knows what the attribute holds — the path continues on those objects, not on a name of the site
            hv = heap.get((o, path[0][1:])) if (path[0].startswith(".") and o.root.startswith("obj:")) else None
            if hv is not None:
                outs += self._follow(hv, path[1:])
            else:
                outs.append(o.ext(*path))
        if path[0] == "*" and av.elem is not None:
            outs += self._follow(av.elem, path[1:])
        return outs

    def subst_av(self, av: Optional[AV], binding: Dict[str, AV], depth=0) -> AV:
        if av is None:
            return FRESH
        outs = []
        rest = set()
        for o in av.is_:
            if o.is_arg:
                actual = binding.get(o.param)
                if actual is None:
                    continue
                if not o.path:
                    outs.append(actual)
                else:
                    rest |= set(self._follow(actual, o.path))
            else:
                rest.add(o)
        e = self.subst_av(av.elem, binding, depth + 1) if (av.elem is not None and depth < 3) else None
        base = AV(frozenset(rest), e if (e is not None and not (e.fresh and not e.cls)) else None, av.kind, av.cls, av.funcs)
        r = base
        for x in outs:
            r = join(r, x) if (r.is_ or r.elem or r.cls or r.funcs or r.kind != "unknown") else x
        if outs and not rest and av.elem is None:
            r = joins(outs)
            if av.kind != "unknown" and r.kind == "unknown":
                r = replace(r, kind=av.kind)
        if av.items and not outs and depth < 3:
            r = replace(r, items=tuple(self.subst_av(x, binding, depth + 1) for x in av.items))
        return r

    def apply_summary(self, s: Summary, fi: FunctionInfo, pos, kwargs, n, env, star=(), self_origin=None) -> AV:
        binding = self.bind(fi, pos, kwargs, star)
        self._cur_env = env
        site = f"{self.fi.qualname}@{self.fi.loc(n)}→{fi.qualname}"
        for ev in s.events:
            if ev.kind == "globalstore" or not ev.origin.is_arg:
                self.emit(ev.kind, ev.origin, ev.node, ev.how, attr=ev.attr, needs_nd=ev.needs_nd, func=ev.func,
                          chain=(site,) + ev.chain)
                continue
            if ev.kind == "flagset" and not self._same_object(self._arg_expr(fi, n, ev.origin.param)):
                continue      # the callee set the flag of an object the call site made for it (a view, a copy)
            for o, actual in self.subst_origin(ev.origin, binding):
                if ev.needs_nd and actual is not None and actual.kind in ("scalar", "str", "none") and not ev.origin.path:
                    continue
                self.emit(ev.kind, o, ev.node, ev.how, attr=ev.attr, needs_nd=ev.needs_nd, func=ev.func,
                          chain=(site,) + ev.chain)
        # heap effects of the callee on objects the caller can see
        for (o, attr), av in s.captures.items():
            for co, _ in self.subst_origin(o, binding):
                val = self.subst_av(av, binding)
                if (co, attr) in env.heap and not co.root.startswith("obj:"):
                    env.heap[(co, attr)] = join(env.heap[(co, attr)], val)
                else:
                    env.heap[(co, attr)] = val
        return self.subst_av(s.ret, binding) if s.ret is not None else AV(kind="none")

    def method_call(self, recv: AV, name: str, pos, kwargs, n, env, star=()) -> AV:
        # repo method by receiver class (or duck-typed candidates)
        if recv.cls:
            r = self.call_method_on(recv, name, pos, kwargs, n, env)
            if r is not None:
                return r
        # callable attribute held in the heap (self.weight(...))
        if recv.funcs and not recv.is_:
            outs = [self.call_target(f"{f}.{name}", pos, kwargs, n, env, star) for f in sorted(recv.funcs)]
            return joins(outs)
        if name not in MUTATOR_METHODS and name not in GENERIC_METHOD_NAMES and recv.kind not in ("nd", "scalar", "str"):
            cands = [c for c in self.p.classes.values() if name in c.methods]
            if cands:
                r = self.call_method_on(replace(recv, cls=frozenset(c.qualname for c in cands)), name, pos, kwargs, n, env)
                if r is not None:
                    return r
        self.summary.ext_calls.append((f"<method>.{name}", n))
        if "out" in kwargs:
            self.write_through(kwargs["out"], n, f"out= keyword of .{name}()")
        if name == "setflags":
            # the writeable flag belongs to the array OBJECT, not to the memory it shares: setting it on a fresh view
            # (`a[:, 0].setflags(...)`, `a.view().setflags(...)`) leaves the caller's array as it was.  On the caller's own
            # object it is an effect of its own kind ("flagset"): not a write into the data — whether it is put back is decided
            # by the flag rule (PU-FLAGS), not by the write rules
            if self._same_object(n.func.value if isinstance(n.func, ast.Attribute) else None):
                for o in recv.is_:
                    self.emit("flagset", o, n, "array flags changed with .setflags()")
            return AV(kind="none")
        if name in MUTATOR_METHODS:
            if name in ("pop", "get", "setdefault", "popitem", "popleft") :
                if name in ("pop", "popitem", "popleft", "setdefault"):
                    self.write_through(recv, n, f"mutator method .{name}()")
                return elem_of(recv)
            self.write_through(recv, n, f"mutator method .{name}()")
            if name in ("append", "add", "insert", "extend", "update", "appendleft") and pos:
                v = pos[-1]
                if name in ("extend", "update"):
                    v = elem_of(v)
                if isinstance(n.func, ast.Attribute):
                    self._weak_elem_update(n.func.value, recv, v, env)
            return AV(kind="none")
        if name == "_replace":
            # NamedTuple._replace: a new tuple holding the old fields and the given values (nothing is copied)
            return joins([recv] + list(kwargs.values()))
        if name == "copy":
            if recv.kind in ("list", "dict", "set") or (recv.kind == "unknown" and recv.elem is not None):
                return container(recv.kind, elem_of(recv) if (recv.is_ or recv.elem) else None)
            return AV(kind=recv.kind if recv.kind == "nd" else "unknown")
        if name == "astype":
            cp = n.keywords and [k for k in n.keywords if k.arg == "copy"]
            if cp and isinstance(cp[0].value, ast.Constant) and cp[0].value.value is False:
                return AV(recv.is_, None, "nd")
            return NDFRESH
        if name in VIEW_METHODS:
            if name in ("values", "items", "keys", "get", "setdefault", "__iter__", "__getitem__"):
                return elem_of(recv) if name in ("get", "setdefault", "__getitem__") else \
                    container("list", elem_of(recv) if (recv.is_ or recv.elem) else None)
            return AV(recv.is_, recv.elem, "nd")
        if name in ("flatten", "dot", "sum", "min", "max", "mean", "std", "cumsum", "argmax", "argmin", "tolist",
                    "round", "clip", "any", "all", "nonzero", "repeat", "take", "prod", "conj", "compress"):
            if name == "tolist":
                return AV(kind="list")
            return NDFRESH if name in ("flatten", "dot", "cumsum", "round", "clip", "repeat", "take") else FRESH
        if name in ("format", "join", "split", "strip", "lower", "upper", "startswith", "endswith", "replace"):
            return AV(kind="str")
        # unknown method on a value: external receiver (axes, figure, matching object, ...): returns FRESH
        return FRESH

    def call_external(self, tgt: str, pos, kwargs, n, env, star=()) -> AV:
        self.summary.ext_calls.append((tgt, n))
        root = tgt.split(".")[0]
        if "out" in kwargs:
            self.write_through(kwargs["out"], n, f"out= keyword of {tgt}")
        if tgt in MUTATING_FUNCS:
            i = MUTATING_FUNCS[tgt]
            if i < len(pos):
                self.write_through(pos[i], n, f"{tgt} writes its argument {i} in place")
        # library routines that may reuse their input's memory when asked to: overwrite=True / overwrite_a=True / copy=False /
        # check_finite … (only the overwrite family writes)
        for kw_ in getattr(n, "keywords", ()) or ():
            if kw_.arg and kw_.arg.startswith("overwrite") and not (isinstance(kw_.value, ast.Constant) and kw_.value.value in (False, None)):
                if pos:
                    roots = [o.root for o in pos[0].is_]
                    if any(r.startswith("obj:") for r in roots) and any(not r.startswith("obj:") for r in roots):
                        # a private copy on one path, the caller's object on another (typically: dense input is copied, sparse
                        # input is passed on, and the library overwrites dense input only): not decided here
                        continue
                    self.write_through(pos[0], n, f"{tgt}(..., {kw_.arg}={ast.unparse(kw_.value)}) may overwrite its input in place")
        if tgt in INPLACE_OPERATOR_FUNCS and pos:
            return pos[0]   # the in-place operators hand back their (mutated) first operand
        if tgt == "functools.reduce" and len(pos) >= 2:
            # reduce(f, xs[, init]): f(acc, x) with acc starting as init / the first element and then whatever f returned
            e = elem_of(pos[1])
            acc = pos[2] if len(pos) > 2 else e
            for _ in range(2):
                acc = joins([acc, self.call_value(pos[0], [acc, e], {}, n, env)])
            return acc
        if tgt in ("dataclasses.replace", "copy.replace") and pos:
            # a new record whose fields are the old record's fields and the given values (no copy of either)
            return joins([pos[0]] + list(kwargs.values()))
        if tgt in ("dataclasses.asdict", "dataclasses.astuple") and pos:
            return FRESH   # deep copies of the fields
        if tgt in ("dataclasses.field", "dataclasses.fields", "dataclasses.is_dataclass", "dataclasses.dataclass"):
            return FRESH
        if tgt in ("joblib.delayed",) and pos:
            return pos[0]
        if tgt == "joblib.Parallel":
            return AV(kind="func", funcs=frozenset(["joblib.Parallel.__call__"]))
        if tgt == "joblib.Parallel.__call__":
            return container("list", elem_of(pos[0]) if pos else None)
        if tgt in ("numpy.array", "numpy.asarray"):
            cp = [k for k in n.keywords if k.arg == "copy"]
            copies = COPY_KW_FUNCS[tgt]
            if cp:
                copies = bool(isinstance(cp[0].value, ast.Constant) and cp[0].value.value is True)
            if copies or not pos:
                # np.array(list_of_objects) keeps references to non-numeric elements (object arrays)
                a0 = pos[0] if pos else FRESH
                e = elem_of(a0) if (a0.elem is not None and a0.elem.cls) else None
                # a private copy made here: named, so that a value which is this copy on one path and the caller's array on
                # another can be told from one that is the caller's array on every path
                return AV(frozenset([Origin(self.oa.new_site(n))]), e if e is not None and e.cls else None, "nd")
            return AV(pos[0].is_, pos[0].elem, "nd")
        if tgt in VIEW_FUNCS:
            if pos:
                if tgt == "numpy.broadcast_arrays":
                    return container("list", joins([AV(a.is_, None, "nd") for a in pos]))
                return AV(pos[0].is_, pos[0].elem, "nd")
            return NDFRESH
        if tgt in SHALLOW_CONTAINER_FUNCS:
            kind = SHALLOW_CONTAINER_FUNCS[tgt]
            if not pos:
                return AV(kind=kind)
            if tgt in ("builtins.zip", "itertools.zip_longest", "itertools.product", "itertools.chain"):
                e = joins([elem_of(a) for a in pos])
                if tgt == "itertools.chain":
                    return container("list", e if (e.is_ or e.elem or e.cls) else None)
                return container("list", container("tuple", e if (e.is_ or e.elem or e.cls) else None))
            if tgt == "itertools.chain.from_iterable":
                e = elem_of(elem_of(pos[0]))
                return container("list", e if (e.is_ or e.elem or e.cls) else None)
            if tgt == "builtins.enumerate":
                e = elem_of(pos[0])
                return container("list", container("tuple", e if (e.is_ or e.elem or e.cls) else None))
            if tgt == "builtins.map":
                outs = self.call_value(pos[0], [elem_of(a) for a in pos[1:]], {}, n, env)
                return container("list", outs)
            if tgt == "builtins.sorted" and "key" in kwargs:
                self.call_value(kwargs["key"], [elem_of(pos[0])], {}, n, env)
            if tgt == "builtins.filter":
                e = elem_of(pos[1]) if len(pos) > 1 else FRESH
                return container("list", e if (e.is_ or e.elem or e.cls) else None)
            e = elem_of(pos[0])
            return container(kind, e if (e.is_ or e.elem or e.cls) else None)
        if tgt in ELEMENT_FUNCS:
            if tgt in ("builtins.max", "builtins.min") and "key" in kwargs and pos:
                self.call_value(kwargs["key"], [elem_of(pos[0])], {}, n, env)
            if len(pos) == 1:
                return elem_of(pos[0])
            return joins(pos) if pos else FRESH
        if tgt == "copy.deepcopy":
            a0 = pos[0] if pos else FRESH
            return AV(kind=a0.kind, cls=a0.cls)
        if tgt in SCALAR_FUNCS:
            return SCALAR
        if tgt in ("operator.itemgetter", "operator.attrgetter"):
            return AV(kind="func", funcs=frozenset([tgt + ".__call__"]))
        if tgt.endswith(".__call__") and tgt.startswith("operator."):
            return elem_of(pos[0]) if pos else FRESH
        if root == "numpy" or root == "scipy" or root == "sklearn":
            # constructors, element-wise functions, reductions, selections with copy semantics
            last = tgt.rsplit(".", 1)[-1]
            if last in ("max", "min", "sum", "argmax", "argmin", "any", "all", "prod", "mean", "isinf", "iinfo",
                        "issubdtype", "ceil", "log", "sqrt", "cos", "sin", "abs", "exp", "floor", "isfinite",
                        "arcsin", "erfc", "issparse"):
                if pos and pos[0].kind == "scalar":
                    return SCALAR
                return FRESH if last not in ("isinf", "isfinite", "abs", "sqrt", "exp", "log") else \
                    (NDFRESH if (pos and pos[0].kind == "nd") else FRESH)
            return NDFRESH
        if root in EXTERNAL_ROOTS:
            return FRESH
        # anything else: not resolvable into a known external package
        self.oa.unresolved_calls.append((tgt, self.fi.qualname, getattr(n, "lineno", 0)))
        return FRESH
