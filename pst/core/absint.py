"""Symbolic abstract interpreter over the Python/NumPy subset persim uses.

Evaluates a function on symbolic inputs to normal-form values (pst.core.sym / values), pruning branches the
configuration decides, folding additive loops into Σ terms, joining the rest into Choice/ITE values.
Everything it cannot represent becomes an `Unknown` (opaque, facets fail closed) and is logged; rules decide
whether such a value lies on a proof path (exit 2) or is irrelevant.
"""
from __future__ import annotations

import ast
from typing import Any, Dict, List, Optional, Tuple

from . import arrays, sym
from .arrays import ShapeError
from .loader import AnalysisError, FunctionInfo, Module, Project
from .sym import Expr
from .values import (CondSeq, PSet, is_bucket_family, bucket_root, bucket_handle, bucket_family_like, Opt, Alt, Arr, Bag, Blocks, Concat, DiagMat, DictV, FuncV, ModV, NoneV, ObjV, Sc, Seq, Space, StrV,
                     Unknown, Val, fix, fresh, generic_elem, rng, rows, shape_of, subspace)


class Config:
    def __init__(self, nonempty=(), finite_inputs=(), flags: Dict[str, Any] = None, max_depth=8,
                 assume_true=(), size_facts=()):
        self.nonempty = set(nonempty)  # space keys with size >= 1
        self.finite_inputs = set(finite_inputs)  # input tensor names whose entries are finite
        self.flags = flags or {}
        self.max_depth = max_depth
        self.assume_true = list(assume_true)
        self.size_facts = list(size_facts)  # (smaller_key, larger_key) strict
        # space keys with size == 0; `all_dropped`: parents every row of which fails every row filter (a diagram that holds
        # only points with infinite death), so that each of their sub-spaces is empty although they are not
        self.empty = _EmptyKeys(self.flags.get("empty", ()), self.flags.get("all_dropped", ()))


class _EmptyKeys(set):
    def __init__(self, keys, dropped=()):
        super().__init__(keys)
        self.dropped = set(dropped)

    def __contains__(self, key):
        if set.__contains__(self, key):
            return True
        if isinstance(key, tuple) and len(key) >= 2 and key[0] in ("sub", "slice"):
            if key[0] == "sub" and key[1] in self.dropped:
                return True
            return key[1] in self
        return False


# positional parameter names of external functions (so that keyword call style reaches the same primitive)
EXT_SIGNATURES = {
    "sklearn.metrics.pairwise_distances": ["X", "Y", "metric"], "sklearn.metrics.pairwise.pairwise_distances": ["X", "Y", "metric"],
    "scipy.spatial.distance.cdist": ["XA", "XB", "metric"], "scipy.spatial.distance.cityblock": ["u", "v"],
    "scipy.optimize.linear_sum_assignment": ["cost_matrix"],
    "numpy.dot": ["a", "b"], "numpy.outer": ["a", "b"], "numpy.multiply": ["x1", "x2"], "numpy.divide": ["x1", "x2"],
    "numpy.add": ["x1", "x2"], "numpy.subtract": ["x1", "x2"], "numpy.maximum": ["x1", "x2"], "numpy.minimum": ["x1", "x2"],
    "numpy.power": ["x1", "x2"], "numpy.where": ["condition", "x", "y"], "numpy.linspace": ["start", "stop", "num"],
    "numpy.interp": ["x", "xp", "fp"], "numpy.fill_diagonal": ["a", "val"], "numpy.array": ["object"], "numpy.asarray": ["a"], "numpy.asarray_chkfinite": ["a"],
    "numpy.zeros": ["shape"], "numpy.ones": ["shape"], "numpy.full": ["shape", "fill_value"], "numpy.sum": ["a", "axis"],
    "numpy.max": ["a", "axis"], "numpy.min": ["a", "axis"], "numpy.sort": ["a", "axis"], "numpy.unique": ["ar"],
    "numpy.abs": ["x"], "numpy.sqrt": ["x"], "numpy.exp": ["x"], "numpy.log": ["x"], "numpy.isfinite": ["x"], "numpy.isinf": ["x"],
    "numpy.copy": ["a"], "numpy.reshape": ["a", "newshape"], "numpy.pad": ["array", "pad_width"], "numpy.meshgrid": [],
    "numpy.clip": ["a", "a_min", "a_max"], "numpy.argmax": ["a", "axis"], "numpy.argmin": ["a", "axis"],
    "numpy.concatenate": ["arrays", "axis"], "numpy.vstack": ["tup"], "numpy.hstack": ["tup"], "numpy.tril_indices": ["n", "k"],
    "numpy.isclose": ["a", "b"], "numpy.array_equal": ["a1", "a2"], "numpy.any": ["a", "axis"], "numpy.all": ["a", "axis"],
    "builtins.sorted": ["iterable"], "builtins.len": ["obj"], "builtins.enumerate": ["iterable", "start"],
}


class Flow(Exception):
    pass


class Raised(Exception):
    """a callee raised on every path: the calling statement does not complete"""


class _ChainEnv:
    """the scopes a nested function can see, innermost first (its defining function's locals, then that function's own
    enclosing scopes): reads find the first scope that binds the name, writes go to the scope that holds it"""

    def __init__(self, *scopes):
        self.scopes = [s_ for s_ in scopes if s_ is not None]

    def _find(self, k):
        for s_ in self.scopes:
            if k in s_:
                return s_
        return None

    def __contains__(self, k):
        return self._find(k) is not None

    def __getitem__(self, k):
        s_ = self._find(k)
        if s_ is None:
            raise KeyError(k)
        return s_[k]

    def get(self, k, default=None):
        s_ = self._find(k)
        return s_[k] if s_ is not None else default

    def __setitem__(self, k, v):
        s_ = self._find(k)
        (s_ if s_ is not None else self.scopes[0])[k] = v

    def __iter__(self):
        seen = set()
        for s_ in self.scopes:
            for k in s_:
                if k not in seen:
                    seen.add(k)
                    yield k

    def keys(self):
        return list(iter(self))

    def items(self):
        return [(k, self[k]) for k in self]

    def values(self):
        return [self[k] for k in self]

    def __len__(self):
        return len(self.keys())


class Frame:
    def __init__(self, fi: FunctionInfo, env: Dict[str, Val], depth: int, parent_env=None):
        self.fi = fi
        self.env = env
        self.depth = depth
        self.returns: List[Tuple[List[Expr], Val]] = []
        self.loop_stack: List[dict] = []
        self.parent_env = parent_env
        self.path_base = 0
        self.nonlocals: set = set()
        self.nl_exits: List[Tuple[List[Expr], Dict[str, Val]]] = []


import os as _os
_CHAOS = set(filter(None, _os.environ.get("PST_CHAOS", "").split(",")))


def _chunk_constants(project) -> set:
    """qualified names of module-level integer constants (>= 8) that reach the step of a 3-argument range(): directly, or as
    the default of the parameter used as the step"""
    cache = project.__dict__.get("_chunk_consts")
    if cache is not None:
        return cache
    out = set()
    for q, fi in project.functions.items():
        nd = fi.node
        if not isinstance(nd, (ast.FunctionDef, ast.AsyncFunctionDef)):
            continue
        a = nd.args
        pos = a.posonlyargs + a.args
        defaults = dict(zip([x.arg for x in pos[len(pos) - len(a.defaults):]], a.defaults))
        defaults.update({x.arg: d for x, d in zip(a.kwonlyargs, a.kw_defaults) if d is not None})
        for n in ast.walk(nd):
            if isinstance(n, ast.Call) and isinstance(n.func, ast.Name) and n.func.id == "range" and len(n.args) == 3 \
                    and isinstance(n.args[2], ast.Name):
                nm = n.args[2].id
                src = defaults.get(nm) if nm in defaults else (n.args[2] if nm not in {x.arg for x in pos} else None)
                if isinstance(src, ast.Name) and src.id in fi.module.globals:
                    g = fi.module.globals[src.id]
                    if isinstance(g, ast.Constant) and isinstance(g.value, int) and not isinstance(g.value, bool) and g.value >= 8:
                        out.add(f"{fi.module.name}.{src.id}")
    project.__dict__["_chunk_consts"] = out
    return out


def _iter_rest(itv):
    src, k = itv.attrs["src"], itv.attrs["pos"]
    itv.attrs["pos"] = None  # exhausted by this loop
    if k == 0:
        return src
    if k is None:
        return Seq([], "list")
    if isinstance(src, Seq):
        return Seq(src.items[k:], src.kind)
    return arrays.index(src, [("slice", sym.Num(k), None, None)])


def _unbox_str(v):
    """an element of a list of rendered labels is the label itself"""
    if isinstance(v, Sc) and v.e is not None and v.e[0] == "opq" and v.e[1] == "strfmt":
        return StrV("<formatted>", arg=v.e[2][0])
    return v


def _own_walk(node):
    stack = list(ast.iter_child_nodes(node))
    while stack:
        n = stack.pop()
        yield n
        if isinstance(n, (ast.FunctionDef, ast.AsyncFunctionDef, ast.ClassDef, ast.Lambda)):
            continue
        stack.extend(ast.iter_child_nodes(n))


def _record_fields(project, c):
    """(kind, [(name, default expression or None, takes part in __init__)]) for a typing.NamedTuple subclass or a class
    decorated with @dataclass, from its annotated class-level names in declaration order; None for any other class"""
    kind = None
    if any(b in ("typing.NamedTuple",) or str(b).endswith("NamedTuple") for b in c.bases):
        kind = "namedtuple"
    for d in getattr(c.node, "decorator_list", []):
        t = d.func if isinstance(d, ast.Call) else d
        name = project.resolve(c.module, t) or ast.unparse(t)
        if name in ("dataclasses.dataclass", "dataclass") or name.endswith(".dataclass"):
            kind = "dataclass"
    if kind is None:
        return None
    fields = []
    for b in c.node.body:
        if isinstance(b, ast.AnnAssign) and isinstance(b.target, ast.Name):
            ann = ast.unparse(b.annotation)
            if ann.startswith("ClassVar") or ann.startswith("typing.ClassVar"):
                continue
            default, in_init = b.value, True
            if isinstance(b.value, ast.Call) and (project.resolve(c.module, b.value.func) or ast.unparse(b.value.func)).endswith("field"):
                default = None
                for kw in b.value.keywords:
                    if kw.arg == "init" and isinstance(kw.value, ast.Constant) and kw.value.value is False:
                        in_init = False
                    if kw.arg == "default":
                        default = kw.value
                    if kw.arg == "default_factory":
                        default = ast.Call(kw.value, [], [])
                        ast.copy_location(default, b.value)
                        ast.fix_missing_locations(default)
            fields.append((b.target.id, default, in_init))
    return kind, fields


def _counter_loops(fnode):
    """`i = lo` … `while i < hi: body; i += 1` is executed as `for i in range(lo, hi): body` (and `<=` as range(lo, hi + 1)):
    the counting loop of index-style code.  Only when the body neither rebinds the counter elsewhere nor contains a `continue`
    (which would skip the increment) nor a `break`, the bound is not rebound in the body, and the counter is not read after
    the loop before it is bound again (after the while it equals hi, after the for it would be hi − 1)."""
    if not isinstance(fnode, (ast.FunctionDef, ast.AsyncFunctionDef)):
        return fnode
    if not any(isinstance(n, ast.While) for n in _own_walk(fnode)):
        return fnode
    import copy as _copy
    new = _copy.deepcopy(fnode)
    changed = [False]

    def names_stored(nodes):
        out = set()
        for st in nodes:
            for x in ast.walk(st):
                if isinstance(x, ast.Name) and isinstance(x.ctx, (ast.Store, ast.Del)):
                    out.add(x.id)
        return out

    def _loads(node, name) -> bool:
        return any(isinstance(x, ast.Name) and x.id == name and isinstance(x.ctx, ast.Load) for x in ast.walk(node))

    def first_use(stmts, name) -> str:
        """'read' if `name` may be read before it is bound again on some path through stmts, 'stored' if every path binds it
        first, 'neither' if it is not touched"""
        for st in stmts:
            if isinstance(st, (ast.Assign, ast.AnnAssign, ast.AugAssign)):
                val = st.value
                if val is not None and _loads(val, name):
                    return "read"
                tg = st.targets if isinstance(st, ast.Assign) else [st.target]
                if isinstance(st, ast.AugAssign) and isinstance(st.target, ast.Name) and st.target.id == name:
                    return "read"
                if any(_loads(t, name) for t in tg):
                    return "read"
                if any(isinstance(x, ast.Name) and x.id == name for t in tg for x in ast.walk(t)):
                    return "stored"
                continue
            if isinstance(st, ast.If):
                if _loads(st.test, name):
                    return "read"
                r1, r2 = first_use(st.body, name), first_use(st.orelse, name)
                if "read" in (r1, r2):
                    return "read"
                if r1 == r2 == "stored":
                    return "stored"
                if "stored" in (r1, r2):
                    return "read" if _loads(ast.Module(body=stmts[stmts.index(st) + 1:], type_ignores=[]), name) else "neither"
                continue
            if isinstance(st, (ast.While, ast.For)):
                head = st.test if isinstance(st, ast.While) else st.iter
                if _loads(head, name):
                    return "read"
                if isinstance(st, ast.For) and any(isinstance(x, ast.Name) and x.id == name for x in ast.walk(st.target)):
                    continue   # bound by the loop when it runs; not bound when it does not: keep scanning
                if first_use(st.body, name) == "read":
                    return "read"
                continue       # a loop may run zero times: what follows still matters
            if isinstance(st, (ast.FunctionDef, ast.AsyncFunctionDef, ast.ClassDef)):
                if _loads(st, name):
                    return "read"
                continue
            if _loads(st, name):
                return "read"
            if any(isinstance(x, ast.Name) and x.id == name and isinstance(x.ctx, (ast.Store, ast.Del)) for x in ast.walk(st)):
                return "read"      # bound inside some other compound statement: be careful
        return "neither"

    def read_before_store(stmts, name) -> bool:
        return first_use(stmts, name) == "read"

    def convert(body, after_outer):
        """rewrite the while loops of one statement list in place; after_outer: statements that run after this list"""
        k = 0
        while k < len(body):
            st = body[k]
            rest = body[k + 1:] + after_outer
            for fld in ("body", "orelse", "finalbody"):
                sub = getattr(st, fld, None)
                if isinstance(sub, list) and sub and not isinstance(st, (ast.FunctionDef, ast.AsyncFunctionDef, ast.ClassDef)):
                    # statements after a loop body also include the loop itself (next trip)
                    convert(sub, ([st] if isinstance(st, (ast.While, ast.For)) else []) + rest)
            if isinstance(st, ast.Try):
                for h in st.handlers:
                    convert(h.body, rest)
            if isinstance(st, ast.While) and not st.orelse and isinstance(st.test, ast.Compare) and len(st.test.ops) == 1 \
                    and isinstance(st.test.ops[0], (ast.Lt, ast.LtE)) and isinstance(st.test.left, ast.Name) and st.body:
                i = st.test.left.id
                hi = st.test.comparators[0]
                last = st.body[-1]
                inc_ok = isinstance(last, ast.AugAssign) and isinstance(last.op, ast.Add) and isinstance(last.target, ast.Name) \
                    and last.target.id == i and isinstance(last.value, ast.Constant) and last.value.value == 1
                init = body[k - 1] if k > 0 else None
                init_ok = isinstance(init, ast.Assign) and len(init.targets) == 1 and isinstance(init.targets[0], ast.Name) \
                    and init.targets[0].id == i
                inner = st.body[:-1]
                hi_names = {x.id for x in ast.walk(hi) if isinstance(x, ast.Name)}
                clean = inc_ok and init_ok and i not in names_stored(inner) and not (hi_names & names_stored(st.body)) \
                    and i not in hi_names \
                    and not any(isinstance(x, (ast.Continue, ast.Break)) for b_ in inner for x in ast.walk(b_)
                                if not isinstance(b_, (ast.FunctionDef, ast.Lambda))) \
                    and not any(isinstance(x, (ast.Return,)) for b_ in inner for x in ast.walk(b_)) \
                    and not read_before_store(rest, i)
                if clean:
                    stop = hi if isinstance(st.test.ops[0], ast.Lt) else ast.BinOp(hi, ast.Add(), ast.Constant(1))
                    call = ast.Call(ast.Name("range", ast.Load()), [init.value, stop], [])
                    loop = ast.For(target=ast.Name(i, ast.Store()), iter=call, body=inner or [ast.Pass()], orelse=[])
                    ast.copy_location(loop, st)
                    ast.fix_missing_locations(loop)
                    body[k] = loop
                    changed[0] = True
            k += 1
    convert(new.body, [])
    return new if changed[0] else fnode


def _eager_generator(fnode):
    """A generator function is executed eagerly: `yield v` statements append to a hidden list that every `return` (and the
    end of the body) hands back.  The values produced and their order are those of the generator consumed to exhaustion;
    what is lost is the interleaving with the consumer, which only matters for side effects (the purity rules analyse the
    source, not this view).  Generators that use the value of a `yield` expression are left alone (not modelled)."""
    if not isinstance(fnode, (ast.FunctionDef, ast.AsyncFunctionDef)):
        return fnode
    ys = [n for n in _own_walk(fnode) if isinstance(n, (ast.Yield, ast.YieldFrom))]
    if not ys:
        return fnode
    stmt_vals = {id(n.value) for n in _own_walk(fnode) if isinstance(n, ast.Expr)}
    if any(id(y) not in stmt_vals for y in ys):
        return fnode
    import copy as _copy
    new = _copy.deepcopy(fnode)
    acc = "_yielded_"

    class T(ast.NodeTransformer):
        def visit_FunctionDef(self, n):
            return n if n is not new else self.generic_visit(n)
        visit_AsyncFunctionDef = visit_FunctionDef

        def visit_Lambda(self, n):
            return n

        def visit_ClassDef(self, n):
            return n

        def visit_Expr(self, n):
            v = n.value
            if isinstance(v, ast.Yield):
                arg = v.value if v.value is not None else ast.Constant(None)
                call = ast.Call(ast.Attribute(ast.Name(acc, ast.Load()), "append", ast.Load()), [arg], [])
                return ast.copy_location(ast.fix_missing_locations(ast.copy_location(ast.Expr(call), n)), n)
            if isinstance(v, ast.YieldFrom):
                call = ast.Call(ast.Attribute(ast.Name(acc, ast.Load()), "extend", ast.Load()), [v.value], [])
                return ast.copy_location(ast.fix_missing_locations(ast.copy_location(ast.Expr(call), n)), n)
            return n

        def visit_Return(self, n):
            return ast.copy_location(ast.Return(ast.copy_location(ast.Name(acc, ast.Load()), n)), n)
    T().visit(new)
    first = new.body[0]
    init = ast.Assign([ast.Name(acc, ast.Store())], ast.List([], ast.Load()))
    ast.copy_location(init, first)
    ast.fix_missing_locations(init)
    last = new.body[-1]
    fin = ast.Return(ast.Name(acc, ast.Load()))
    ast.copy_location(fin, last)
    ast.fix_missing_locations(fin)
    for extra in (init, fin):
        for sub in ast.walk(extra):
            if getattr(fnode, "_relpath", None) is not None:
                sub._relpath = fnode._relpath
    new.body = [init] + new.body + [fin]
    return new


class Interp:
    def __init__(self, project: Project, config: Config = None):
        self.p = project
        self.cfg = config or Config()
        self.log: List[dict] = []
        self.path: List[Expr] = []
        self.frames: List[Frame] = []
        self.unmodelled: List[dict] = []
        self.lossy: List[dict] = []
        self.ivspace: Dict[str, Space] = {}
        self.blocks: Dict[str, Blocks] = {}
        from . import prims
        self.prims = prims.TABLE
        self.method_prims = prims.METHODS

    # ------------------------------------------------------------------ logging
    def event(self, kind: str, node, **kw):
        fi = self.frames[-1].fi if self.frames else None
        rec = dict(kind=kind, node=node, fi=fi, path=list(self.path), reach=getattr(self, "cur_reach", sym.TRUE), **kw)
        rec["loops"] = list(getattr(self, "active_loops", ()))
        self.log.append(rec)
        return rec

    def unknown(self, tag: str, node=None, deps=()) -> Unknown:
        u = Unknown(tag, deps, node)
        fi = self.frames[-1].fi if self.frames else None
        self.unmodelled.append(dict(tag=tag, node=node, fi=fi, uid=u.e[3], pos=len(self.log)))
        return u

    def lose(self, why: str, node=None):
        """the evaluator knowingly dropped information here (a condition, an ordering): verdicts that argue from path
        conditions or from the absence of events must not be definite after this point"""
        fi = self.frames[-1].fi if self.frames else None
        self.lossy.append(dict(why=why, node=node, fi=fi, pos=len(self.log)))

    def clean_before(self, ev=None) -> bool:
        """nothing was unmodelled or knowingly lost before this event (or in the whole run when ev is None)"""
        k = self.log.index(ev) if ev is not None and ev in self.log else len(self.log) + 1
        return not any(u.get("pos", 0) <= k for u in self.unmodelled) and not any(l["pos"] <= k for l in self.lossy)

    # ------------------------------------------------------------------ deciding conditions
    def size_lb(self, key) -> int:
        if key in self.cfg.nonempty:
            return 1
        if key in self.cfg.empty:
            return 0
        if isinstance(key, tuple) and key and key[0] == "sub" and self.cfg.flags.get("sub_nonempty"):
            return 1
        return 0

    def decide(self, c: Expr) -> Optional[bool]:
        if c == sym.TRUE:
            return True
        if c == sym.FALSE:
            return False
        for a in self.cfg.assume_true:
            if sym.equal(a, c):
                return True
            if sym.equal(sym.Not(a), c):
                return False
        for f in self.path:
            if f == c:
                return True
            if sym.Not(f) == c:
                return False
        t = c[0]
        if t == "not":
            r = self.decide(c[1])
            return None if r is None else (not r)
        if t == "and":
            rs = [self.decide(x) for x in c[1]]
            if any(r is False for r in rs):
                return False
            if all(r is True for r in rs):
                return True
            return None
        if t == "or":
            rs = [self.decide(x) for x in c[1]]
            if any(r is True for r in rs):
                return True
            if all(r is False for r in rs):
                return False
            return None
        if t == "cmp":
            op, a, b = c[1], c[2], c[3]
            om = self.cfg.flags.get("order_model")
            if om:
                # symbols that stand for the members of one ordering class (a representative number each): a comparison
                # between two of them (or with a constant) is decided by the class, nothing else is
                def rep_(x):
                    if x[0] == "sym" and x[1] in om:
                        return om[x[1]]
                    if x[0] == "num":
                        return x[1]
                    return None

                def scaled(x):
                    """(k, atom) for k·atom with k a non-zero constant"""
                    if x[0] == "sym" and x[1] in om:
                        return 1.0, x
                    if x[0] == "lin" and x[2] == 0 and len(x[1]) == 1 and x[1][0][0][0] == "sym" and x[1][0][0][1] in om:
                        return float(x[1][0][1]), x[1][0][0]
                    return None

                def finite_(x):
                    return all(y[0] in ("lin", "mul", "div", "sym", "num") and (y[0] != "sym" or y[1] in om)
                               and (y[0] != "num" or abs(y[1]) != float("inf")) and (y[0] != "div" or (y[2][0] == "num" and y[2][1] != 0))
                               for y in sym.walk(x))
                ra, rb = rep_(a), rep_(b)
                if ra is not None and rb is not None and (a[0] == "sym" or b[0] == "sym"):
                    return {"<": ra < rb, "<=": ra <= rb, ">": ra > rb, ">=": ra >= rb, "==": ra == rb, "!=": ra != rb}[op]
                sa_, sb_ = scaled(a), scaled(b)
                if sa_ and sb_ and sa_[0] == sb_[0]:
                    # k·x against k·y: the order of x and y, reversed for negative k
                    xa, xb = om[sa_[1][1]], om[sb_[1][1]]
                    if sa_[0] < 0:
                        xa, xb = xb, xa
                    return {"<": xa < xb, "<=": xa <= xb, ">": xa > xb, ">=": xa >= xb, "==": xa == xb, "!=": xa != xb}[op]
                for x_, y_, flip in ((a, b, False), (b, a, True)):
                    if y_[0] == "num" and abs(y_[1]) == float("inf") and finite_(x_) and any(z[0] == "sym" for z in sym.walk(x_)):
                        pos_inf = y_[1] > 0
                        lt = pos_inf  # x < +inf, x > -inf
                        table = {"<": lt, "<=": lt, ">": not lt, ">=": not lt, "==": False, "!=": True}
                        if flip:
                            table = {"<": not lt, "<=": not lt, ">": lt, ">=": lt, "==": False, "!=": True}
                        return table[op]
            # finiteness assumptions on input atoms
            for x, y in ((a, b), (b, a)):
                if y[0] == "num" and (y[1] == float("inf") or y[1] == float("-inf")) and self._finite(x):
                    return {"==": False, "!=": True}.get(op)
            d = sym.sub(a, b)
            lo, hi = self._bounds(d)
            if lo is None and hi is None:
                return None
            if op == "<":
                if hi is not None and hi < 0:
                    return True
                if lo is not None and lo >= 0:
                    return False
            elif op == "<=":
                if hi is not None and hi <= 0:
                    return True
                if lo is not None and lo > 0:
                    return False
            elif op == ">":
                if lo is not None and lo > 0:
                    return True
                if hi is not None and hi <= 0:
                    return False
            elif op == ">=":
                if lo is not None and lo >= 0:
                    return True
                if hi is not None and hi < 0:
                    return False
            elif op == "==":
                if lo is not None and hi is not None and lo == hi == 0:
                    return True
                if (lo is not None and lo > 0) or (hi is not None and hi < 0):
                    return False
            elif op == "!=":
                if lo is not None and hi is not None and lo == hi == 0:
                    return False
                if (lo is not None and lo > 0) or (hi is not None and hi < 0):
                    return True
            return None
        if t == "fn" and c[1] == "isfinite":
            if self._finite(c[2][0]):
                return True
        if t == "red" and c[1] in ("all", "any") and self.cfg.flags.get("strict_sub") and isinstance(c[3], tuple) \
                and len(c[3]) == 2 and c[3][0] == "rows" and c[3][1] not in self.cfg.finite_inputs:
            # the configuration says: some rows of this diagram have an infinite death (they are what a filter drops).
            # `all(isfinite(death))` is therefore false, `any(~isfinite(death))` true — a filter applied only when needed is
            # applied in this configuration
            body = c[4]
            neg = False
            while body[0] == "not":
                body, neg = body[1], not neg
            fin = None
            if body[0] == "fn" and body[1] == "isfinite":
                fin = body[2][0]
            elif body[0] == "cmp" and body[1] == "!=" and body[3] == sym.INF:
                fin = body[2]
            elif body[0] == "cmp" and body[1] == "==" and body[3] == sym.INF:
                fin, neg = body[2], not neg
            elif body[0] == "fn" and body[1] == "isinf":
                fin, neg = body[2][0], not neg
            if fin is not None and fin[0] == "in" and fin[1] == c[3][1] and fin[2][1] == 1:
                if c[1] == "all" and not neg:
                    return False
                if c[1] == "any" and neg:
                    return True
        if t == "red" and c[1] in ("all", "any"):
            r = self.decide(c[4])
            if r is not None:
                if r is True and c[1] == "any":
                    return True if self.size_lb(c[3]) >= 1 else None
                if r is False and c[1] == "all":
                    return False if self.size_lb(c[3]) >= 1 else None
                return r
        return None

    def _finite(self, x: Expr) -> bool:
        ins = [y for y in sym.walk(x) if y[0] == "in"]
        if not ins and x[0] in ("num",):
            return x[1] not in (float("inf"), float("-inf")) and x[1] == x[1]
        if not ins:
            return False
        if any(y[0] in ("opq", "at", "div") for y in sym.walk(x)):
            return False
        return all(y[1] in self.cfg.finite_inputs for y in ins)

    def _sum_sign(self, t: Expr):
        """+1 / -1 when every term of the sum Σ_{i in S} body(i) is known (from a path fact all[i in S](body(i) > 0) or < 0)
        to have one strict sign and S is known to be non-empty; None otherwise"""
        iv, key, body = t[1], t[2], t[3]
        if self.size_lb(key) < 1:
            return None
        for f in self.path:
            if f[0] == "red" and f[1] == "all" and f[3] == key and f[4][0] == "cmp":
                op, a, b = f[4][1], f[4][2], f[4][3]
                fa = sym.subst_ivar(a, f[2], (iv, 0))
                fb = sym.subst_ivar(b, f[2], (iv, 0))
                if fb == sym.ZERO and fa == body:
                    if op == ">":
                        return 1
                    if op == "<":
                        return -1
                if fa == sym.ZERO and fb == body:
                    if op == "<":
                        return 1
                    if op == ">":
                        return -1
                # a > b with body = a - b
                if sym.sub(fa, fb) == body and op == ">":
                    return 1
                if sym.sub(fa, fb) == body and op == "<":
                    return -1
        return None

    def _bounds(self, d: Expr):
        """(lo, hi) bounds of an affine form over Size atoms (sizes are integers >= their lower bound)"""
        terms, c = sym.lin_parts(d)
        terms = {t: k for t, k in terms.items() if not (t[0] == "size" and t[1] in self.cfg.empty)}
        # |sub-space| <= |parent| (strictly smaller when the configuration says rows were dropped)
        if len(terms) == 2:
            (t1, k1), (t2, k2) = terms.items()
            if t1[0] == t2[0] == "size" and k1 == -k2:
                for (ts, ks), (tl, kl) in (((t1, k1), (t2, k2)), ((t2, k2), (t1, k1))):
                    if isinstance(ts[1], tuple) and ts[1] and ts[1][0] == "sub" and ts[1][1] == tl[1]:
                        gap = 1 if self.cfg.flags.get("strict_sub") else 0
                        # kl*(large - small) + c, large - small >= gap
                        if kl > 0:
                            return kl * gap + c, None
                        return None, kl * gap + c
        lo = hi = c
        for t, k in terms.items():
            if t[0] == "size":
                lb = self.size_lb(t[1])
                # strict sub-space facts: |sub| < |parent| handled by the caller's configuration via size_facts
                if k > 0:
                    lo = None if lo is None else lo + k * lb
                    hi = None
                else:
                    hi = None if hi is None else hi + k * lb
                    lo = None
            elif t[0] == "iv":
                if k > 0:
                    hi = None
                else:
                    lo = None
            elif t[0] == "sum" and self._sum_sign(t) is not None:
                # a sum over a non-empty space of terms that a path fact says are all positive (an `all(x > 0)` guard that
                # did not raise): strictly positive — recorded as the smallest positive number
                sg = self._sum_sign(t)
                tiny = 5e-324
                if (sg > 0) == (k > 0):
                    lo = None if lo is None else lo + tiny
                    hi = None
                else:
                    hi = None if hi is None else hi - tiny
                    lo = None
            elif t[0] == "mul" and all(f[0] == "size" for f in t[1]):
                # a product of sizes is at least the product of their lower bounds
                lb = 1
                for f in t[1]:
                    lb *= self.size_lb(f[1])
                if k > 0:
                    lo = None if lo is None else lo + k * lb
                    hi = None
                else:
                    hi = None if hi is None else hi + k * lb
                    lo = None
            else:
                return None, None
        # pairs of size atoms with a declared strict order
        for small, large in self.cfg.size_facts:
            ts, tl = sym.Size(small), sym.Size(large)
            if set(terms) == {ts, tl} and terms[ts] == -terms[tl]:
                k = terms[tl]
                # k*(large - small) + c with large - small >= 1
                if k > 0:
                    return k + c, None
                return None, k + c
        return lo, hi

    # ------------------------------------------------------------------ running functions
    def run(self, qualname: str, args: Dict[str, Val]) -> Val:
        fi = self.p.function(qualname)
        return self.call_function(fi, [], dict(args), None)

    def _exec_node(self, fi: FunctionInfo):
        """the definition that is executed: the function's own, except when it loops over a private generator helper of the
        repository — generators are not executed by this evaluator, so the helper-inlined view (core/inline.py turns
        `for t in _gen(...): body` into the generator's loop nest) is executed instead"""
        cache = self.__dict__.setdefault("_exec_cache", {})
        key = id(fi.node)   # per definition, not per name: every lambda is called "<lambda>"
        if key in cache:
            return cache[key]
        nd = fi.node
        uses_gen = False
        if isinstance(nd, (ast.FunctionDef, ast.AsyncFunctionDef)) and fi.qualname in self.p.functions:
            locs = None
            for n in ast.walk(nd):
                if isinstance(n, ast.For) and isinstance(n.iter, ast.Call) and isinstance(n.iter.func, (ast.Name, ast.Attribute)):
                    if locs is None:
                        locs = {x.id for x in ast.walk(nd) if isinstance(x, ast.Name) and isinstance(x.ctx, ast.Store)}
                    t = self.p.resolve(fi.module, n.iter.func, locs)
                    g = self.p.functions.get(t) if t else None
                    if g is not None and any(isinstance(y, (ast.Yield, ast.YieldFrom)) for y in ast.walk(g.node)):
                        uses_gen = True
        if uses_gen:
            from .inline import inlined
            try:
                nd = inlined(self.p, fi)
            except Exception:
                nd = fi.node
        nd = _eager_generator(nd)
        nd = _counter_loops(nd)
        cache[key] = nd
        return nd

    def _inplace_params(self, fi: FunctionInfo, depth=0) -> List[str]:
        """parameters of a package function that are the target of an augmented assignment (`p += x`: for an ndarray the
        caller's array changes) and are never re-bound by a plain assignment; directly, or by being handed on to such a
        function under their own name"""
        cache = self.__dict__.setdefault("_inplace_cache", {})
        key = fi.qualname if fi.qualname in self.p.functions else id(fi.node)
        if key in cache:
            return cache[key]
        cache[key] = []
        nd = fi.node
        out = []
        if isinstance(nd, (ast.FunctionDef, ast.AsyncFunctionDef)) and depth <= 3:
            a = nd.args
            params = [x.arg for x in a.posonlyargs + a.args + a.kwonlyargs]
            aug, plain = set(), set()
            for x in _own_walk(nd):
                if isinstance(x, ast.AugAssign) and isinstance(x.target, ast.Name):
                    aug.add(x.target.id)
                elif isinstance(x, ast.Name) and isinstance(x.ctx, ast.Store):
                    plain.add(x.id)
                elif isinstance(x, ast.Call):
                    g = self._callee_info(fi, x)
                    if g is not None and g is not fi:
                        inner = self._inplace_params(g, depth + 1)
                        if inner:
                            gp = g.params[1:] if (g.cls is not None and g.kind != "staticmethod" and isinstance(x.func, ast.Attribute)) \
                                else g.params
                            for k, arg in enumerate(x.args):
                                if isinstance(arg, ast.Name) and k < len(gp) and gp[k] in inner:
                                    aug.add(arg.id)
                            for kw in x.keywords:
                                if kw.arg in inner and isinstance(kw.value, ast.Name):
                                    aug.add(kw.value.id)
            # the targets of augmented assignments are Store names as well: count plain stores separately
            plain_only = set()
            for x in _own_walk(nd):
                if isinstance(x, (ast.Assign, ast.AnnAssign, ast.For, ast.With, ast.NamedExpr, ast.comprehension)):
                    tg = x.targets if isinstance(x, ast.Assign) else [getattr(x, "target", None)] if not isinstance(x, ast.With) \
                        else [i.optional_vars for i in x.items]
                    for t in tg:
                        if t is not None:
                            plain_only |= {y.id for y in ast.walk(t) if isinstance(y, ast.Name) and isinstance(y.ctx, ast.Store)}
            out = [p_ for p_ in params if p_ in aug and p_ not in plain_only]
        cache[key] = out
        return out

    def _callee_info(self, fi: FunctionInfo, call: ast.Call) -> Optional[FunctionInfo]:
        try:
            locs = self.__dict__.setdefault("_locs_cache", {})
            k = id(fi.node)
            if k not in locs:
                locs[k] = {x.id for x in ast.walk(fi.node) if isinstance(x, ast.Name) and isinstance(x.ctx, ast.Store)}
            t = self.p.resolve(fi.module, call.func, locs[k])
        except Exception:
            t = None
        if t is None and isinstance(call.func, ast.Attribute) and isinstance(call.func.value, ast.Name) \
                and call.func.value.id in ("self", "cls") and getattr(fi, "cls", None) is not None:
            m = fi.cls.lookup(call.func.attr, self.p)
            return m
        return self.p.functions.get(t) if t else None

    def _copy_out(self, fi: FunctionInfo, out_values: Dict[str, Val], call: ast.Call, env: dict, bound: bool):
        """`helper(img, ...)` where the helper does `img += ...` on an ndarray: the caller's `img` is that array"""
        ps = fi.params[1:] if bound else fi.params
        exprs = {}
        if any(isinstance(x, ast.Starred) for x in call.args):
            self.lose("an array is updated in place by a callee that receives it through *args", call)
            return
        for k, a_ in enumerate(call.args):
            if k < len(ps):
                exprs[ps[k]] = a_
        for kw in call.keywords:
            if kw.arg is not None:
                exprs[kw.arg] = kw.value
        for nm, v in out_values.items():
            e = exprs.get(nm)
            if isinstance(e, ast.Name):
                if env is None:
                    self.lose(f"`{e.id}` is updated in place by {fi.name}() in a context whose names are not followed", call)
                    continue
                self._rebind(e.id, env, call)[e.id] = v
            elif isinstance(e, ast.Attribute) and isinstance(e.value, ast.Name) and env is not None \
                    and isinstance(env.get(e.value.id), ObjV):
                env[e.value.id].attrs[e.attr] = v
            elif e is not None and isinstance(e, (ast.Subscript, ast.Call, ast.Attribute)):
                self.lose(f"{fi.name}() updates in place the array it is given as `{ast.unparse(e)[:40]}` (a view or an element): "
                          f"the owner of that memory is not followed", call)

    def _scopes(self, env):
        seen, out = set(), []
        for d in [env] + [fr.env for fr in self.frames] + [fr.parent_env for fr in self.frames if fr.parent_env is not None]:
            if d is not None and id(d) not in seen:
                seen.add(id(d))
                out.append(d)
        return out

    def _aliases(self, obj, env, name):
        """(holder, key) of every other binding of this very object: names of the scopes in sight, attributes of objects and
        items of lists / dicts held by those names (one level)"""
        out = []
        for d in self._scopes(env):
            for k, v in list(d.items()):
                if v is obj and not (d is env and k == name):
                    out.append((d, k))
                elif isinstance(v, ObjV):
                    out.extend((v.attrs, a) for a, w in v.attrs.items() if w is obj)
                elif type(v) is Seq:
                    out.extend((v.items, i) for i, w in enumerate(v.items) if w is obj)
                elif isinstance(v, DictV):
                    out.extend((v.d, a) for a, w in v.d.items() if w is obj)
        return out

    def _referenced(self, obj, env, name) -> bool:
        return bool(self._aliases(obj, env, name))

    def _oneshot(self, fi: FunctionInfo):
        cache = self.__dict__.setdefault("_oneshot_cache", {})
        if fi.qualname not in cache:
            hits = []
            if fi.qualname in self.p.functions and isinstance(fi.node, (ast.FunctionDef, ast.AsyncFunctionDef)):
                try:
                    from ..rules import oneshot
                    hits = oneshot.analyse(self.p, fi)
                except Exception:
                    hits = []
            cache[fi.qualname] = hits
        return cache[fi.qualname]

    def _enter_repo_cm(self, expr, env):
        """`with cm(args) as v:` for a generator-based context manager of the package (@contextlib.contextmanager): the part
        before its `yield` is executed now, v is what it yields, and the part after the yield (its `finally`) when the block
        is left.  None when `expr` is not such a call or the generator has another shape (then the expression is evaluated as
        any other)."""
        if not isinstance(expr, ast.Call) or not self.frames:
            return None
        tgt = self.p.resolve(self.frames[-1].fi.module, expr.func, set(env) | set(self.frames[-1].parent_env or ()))
        fi = self.p.functions.get(self.p.canonical(tgt)) if tgt else None
        if fi is None or not isinstance(fi.node, ast.FunctionDef):
            return None
        decos = [self.p.resolve(fi.module, d.func if isinstance(d, ast.Call) else d, ()) for d in fi.node.decorator_list]
        if not any(d in ("contextlib.contextmanager",) for d in decos if d):
            return None
        body = list(fi.node.body)
        if body and isinstance(body[0], ast.Expr) and isinstance(body[0].value, ast.Constant) and isinstance(body[0].value.value, str):
            body = body[1:]

        def yield_of(st_):
            v_ = st_.value if isinstance(st_, (ast.Expr, ast.Assign)) else None
            return v_ if isinstance(v_, ast.Yield) else None
        pre = post = yv = None
        for i, st_ in enumerate(body):
            if yield_of(st_) is not None:
                pre, yv, post = body[:i], yield_of(st_), body[i + 1:]
                break
            if isinstance(st_, ast.Try) and not st_.handlers and not st_.orelse and st_.body and yield_of(st_.body[-1]) is not None:
                pre, yv, post = body[:i] + st_.body[:-1], yield_of(st_.body[-1]), list(st_.finalbody) + body[i + 1:]
                break
        n_y = sum(1 for x in ast.walk(fi.node) if isinstance(x, (ast.Yield, ast.YieldFrom)))
        if yv is None or n_y != 1:
            self.lose(f"context manager {fi.qualname}: a generator of a shape that is not followed (its set-up / clean-up is not executed)", expr)
            return None
        # bind the arguments
        a = fi.node.args
        params = [x.arg for x in a.posonlyargs + a.args]
        cenv: Dict[str, Val] = {}
        for k_, e_ in enumerate(expr.args):
            if isinstance(e_, ast.Starred) or k_ >= len(params):
                return None
            cenv[params[k_]] = self.eval(e_, env)
        for kw_ in expr.keywords:
            if kw_.arg is None:
                return None
            cenv[kw_.arg] = self.eval(kw_.value, env)
        dflt = dict(zip(params[len(params) - len(a.defaults):], a.defaults))
        dflt.update({x.arg: d for x, d in zip(a.kwonlyargs, a.kw_defaults) if d is not None})
        for nm, d in dflt.items():
            if nm not in cenv:
                cenv[nm] = self._eval_in_module(fi.module, d)
        fr = Frame(fi, cenv, len(self.frames), None)
        fr.path_base = len(self.path)
        fr.outparams, fr.out_values = set(), {}

        def run(stmts):
            self.frames.append(fr)
            try:
                return self.exec_block(list(stmts), cenv)
            finally:
                self.frames.pop()
        run(pre)
        self.frames.append(fr)
        try:
            val = self.eval(yv.value, cenv) if yv.value is not None else NoneV()
        finally:
            self.frames.pop()
        return val, (lambda: run(post))

    def _bind_defaults(self, a: ast.arguments, env: dict) -> Dict[str, Val]:
        """default values are evaluated when the function object is created (`lambda x=x: ...` keeps the x of that moment;
        a free variable of the body is looked up when the body runs)"""
        ps = [x.arg for x in a.posonlyargs + a.args]
        out = {}
        for name, d in list(zip(ps[len(ps) - len(a.defaults):], a.defaults)) + \
                [(x.arg, d) for x, d in zip(a.kwonlyargs, a.kw_defaults) if d is not None]:
            out[name] = self.eval(d, env)
        return out

    def call_function(self, fi: FunctionInfo, pos: List[Val], kwargs: Dict[str, Val], node, closure_env=None,
                      default_vals=None, _raw=False) -> Val:
        if not _raw and closure_env is None and fi.qualname in self.p.functions and getattr(fi.node, "decorator_list", None):
            # an entry point a rule calls directly is reached through its decorators like any other call
            deco = self._decorated(FuncV("repo", fi.qualname))
            if deco is not None:
                return self.apply(deco, list(pos), dict(kwargs), node, {})
        depth = len(self.frames)
        if depth >= self.cfg.max_depth:
            return self.unknown("inlining-depth", node)
        fnode = self._exec_node(fi)
        # generators are read eagerly: where the code consumes a one-shot iterator twice that reading is not Python's
        hits = self._oneshot(fi)
        if hits:
            self.lose(hits[0]["why"], hits[0]["second"])
        env: Dict[str, Val] = {}
        a = fnode.args
        params = [x.arg for x in a.posonlyargs + a.args]
        defaults = [None] * (len(params) - len(a.defaults)) + list(a.defaults)
        for i, v in enumerate(pos):
            if i < len(params):
                env[params[i]] = v
            elif a.vararg:
                env.setdefault(a.vararg.arg, Seq([], "tuple")).items.append(v)
        extra = {}
        kwonly = {x.arg: d for x, d in zip(a.kwonlyargs, a.kw_defaults)}
        for k, v in kwargs.items():
            if k in params or k in kwonly:
                env[k] = v
            else:
                extra[k] = v
        if a.kwarg:
            env[a.kwarg.arg] = DictV(extra)
        elif extra:
            self.unknown("unexpected-keyword:" + ",".join(extra), node)
        if a.vararg and a.vararg.arg not in env:
            env[a.vararg.arg] = Seq([], "tuple")
        # the condition under which the caller reached this call (an arm of a branch inside a summarised loop) holds for
        # everything the callee does: events recorded there (a line drawn by a small helper) carry it
        cr_ = getattr(self, "cur_reach", sym.TRUE)
        if self.frames and cr_ != sym.TRUE and "$reach" not in env:
            env["$reach"] = Sc(cr_)
        fr = Frame(fi, env, depth, closure_env)
        fr.path_base = len(self.path)
        if closure_env is not None and not isinstance(fnode, ast.Lambda):
            # `nonlocal x`: x lives in the enclosing scope; it is followed in this frame (so that branches join as usual)
            # and written back, per exit path, when the call ends
            for st_ in fnode.body:
                for x_ in ast.walk(st_):
                    if isinstance(x_, ast.Nonlocal):
                        fr.nonlocals |= {nm for nm in x_.names if nm in closure_env}
            for nm in fr.nonlocals:
                if nm not in env:
                    env[nm] = closure_env[nm]
        # parameters updated in place (`p += x` on an ndarray): their final value goes back to the caller's name
        fr.outparams = {nm for nm in self._inplace_params(fi) if isinstance(env.get(nm), Arr) and env[nm].kind == "nd"}
        fr.out_values = {}
        fr.nonlocals |= fr.outparams
        self.frames.append(fr)
        survive: List[Expr] = []
        try:
            for name, d in list(zip(params, defaults)) + list(kwonly.items()):
                if name not in env:
                    if default_vals and name in default_vals:
                        env[name] = default_vals[name]
                    elif d is None:
                        env[name] = self.unknown("missing-argument:" + name, node)
                    else:
                        env[name] = self.eval(d, env)
            if isinstance(fnode, ast.Lambda):
                ret = self.eval(fnode.body, env)
            else:
                done = self.exec_block(fnode.body, env)
                if done is None and not fr.returns and self.frames[:-1]:
                    raise Raised(fi.qualname)
                exits = [c for c, _ in fr.returns]
                if done is not None:
                    exits.append(list(self.path[fr.path_base:]))
                    if fr.nonlocals:
                        fr.nl_exits.append((list(self.path[fr.path_base:]), {nm: done[nm] for nm in fr.nonlocals if nm in done}))
                if fr.nonlocals and (closure_env is not None or fr.outparams):
                    for nm in fr.nonlocals:
                        snaps = [(c_, d_[nm]) for c_, d_ in fr.nl_exits if nm in d_]
                        if not snaps:
                            continue
                        out_ = snaps[-1][1]
                        for c_, v_ in reversed(snaps[:-1]):
                            out_ = self.join_cond(sym.And(*c_) if c_ else sym.TRUE, v_, out_)
                        if nm in fr.outparams:
                            fr.out_values[nm] = out_
                        else:
                            closure_env[nm] = out_
                ret = self._join_returns(fr)
                # facts that hold on every normal exit of the callee (typically: its guards did not raise) stay known
                # to the caller
                if exits and self.frames[:-1]:
                    common = [c for c in exits[0] if all(any(c == d for d in e) for e in exits[1:])]
                    survive = common
        finally:
            self.frames.pop()
            del self.path[fr.path_base:]
        self._last_out = (fi, fr.out_values) if fr.out_values else None
        for c in survive:
            if not any(c == d for d in self.path):
                self.path.append(c)
        return ret

    def _join_returns(self, fr: Frame) -> Val:
        rs = fr.returns
        if not rs:
            return NoneV()
        out = rs[-1][1]
        for cond, v in reversed(rs[:-1]):
            c = sym.And(*cond) if cond else sym.TRUE
            out = self.join_cond(c, v, out)
        return out

    # ------------------------------------------------------------------ joins
    def join_cond(self, c: Expr, a: Val, b: Val) -> Val:
        if a is b:
            return a
        if isinstance(a, Sc) and isinstance(b, Sc):
            return Sc(sym.ITE(c, a.e, b.e))
        if isinstance(a, Arr) and isinstance(b, Arr) and a.ndim == b.ndim and a.kind == b.kind and \
                all(x[0].same_size(y[0]) for x, y in zip(a.axes, b.axes)):
            # (a python list and an ndarray with the same entries are different values: isinstance tells them apart)
            eb = b.elem
            for (sa, ia), (sb, ib) in zip(a.axes, b.axes):
                if ia != ib:
                    eb = sym.subst_ivar(eb, ib, (ia, 0))
            if a.elem == eb:
                return a
            return Arr(a.axes, sym.ITE(c, a.elem, eb), a.kind)
        if isinstance(a, PSet) and isinstance(b, PSet):
            return a if a.pred == b.pred else PSet(sym.ITE(c, a.pred, b.pred))
        if isinstance(a, DictV) and isinstance(b, DictV) and _same_abstract(a, b):
            return a  # a dictionary neither arm touched
        if isinstance(a, NoneV) and isinstance(b, NoneV):
            return a
        if isinstance(a, NoneV) and not isinstance(b, (Alt, Unknown)):
            if isinstance(b, Opt):
                return Opt(sym.Or(c, b.none_if), b.val)
            return Opt(c, b)
        if isinstance(b, NoneV) and not isinstance(a, (Alt, Unknown)):
            if isinstance(a, Opt):
                return Opt(sym.Or(sym.Not(c), a.none_if), a.val)
            return Opt(sym.Not(c), a)
        if isinstance(a, Opt) and isinstance(b, Opt):
            return Opt(sym.Or(sym.And(c, a.none_if), sym.And(sym.Not(c), b.none_if)), self.join_cond(c, a.val, b.val))
        if isinstance(a, Opt) and not isinstance(b, (Alt, Unknown)):
            return Opt(sym.And(c, a.none_if), self.join_cond(c, a.val, b))
        if isinstance(b, Opt) and not isinstance(a, (Alt, Unknown)):
            return Opt(sym.And(sym.Not(c), b.none_if), self.join_cond(c, a, b.val))
        if isinstance(a, StrV) and isinstance(b, StrV) and a.s == b.s:
            return a
        if isinstance(a, StrV) and isinstance(b, StrV):
            # two different literal strings chosen by a condition (a style, a label)
            return Sc(sym.ITE(c, sym.Str(a.s), sym.Str(b.s)))
        if isinstance(a, StrV) and isinstance(b, Sc) and b.e[0] == "ite" and any(x[0] == "str" for x in sym.walk(b.e)):
            return Sc(sym.ITE(c, sym.Str(a.s), b.e))
        if isinstance(b, StrV) and isinstance(a, Sc) and a.e[0] == "ite" and any(x[0] == "str" for x in sym.walk(a.e)):
            return Sc(sym.ITE(c, a.e, sym.Str(b.s)))
        if isinstance(a, _SeqAcc) and isinstance(b, _SeqAcc) and len(a.items) == len(b.items):
            n = _SeqAcc([self.join_cond(c, x, y) for x, y in zip(a.items, b.items)])
            n.appended, n.reaches = list(a.appended), list(a.reaches)
            for x, r in zip(b.appended, b.reaches):
                if not any(x is y for y in n.appended):
                    n.appended.append(x)
                    n.reaches.append(r)
            n.conditional = a.conditional or b.conditional
            return n
        if isinstance(a, Seq) and isinstance(b, Seq) and len(a.items) == len(b.items) and a.kind == b.kind:
            return Seq([self.join_cond(c, x, y) for x, y in zip(a.items, b.items)], a.kind)
        if isinstance(a, Bag) and isinstance(b, Bag):
            if a.elem == b.elem:
                return Bag(a.elem, None, a.is_sorted and b.is_sorted, a.src, a.parts)
            return Bag(sym.Choice([a.elem, b.elem]), None, False, a.src)
        if isinstance(a, FuncV) and isinstance(b, FuncV) and a.kind == b.kind and a.target == b.target:
            return a
        if isinstance(a, DictV) and isinstance(b, DictV) and set(a.d) == set(b.d) and a.generic is None and b.generic is None:
            return DictV({k: self.join_cond(c, a.d[k], b.d[k]) for k in a.d})
        if isinstance(a, ObjV) and isinstance(b, ObjV) and (a is b or (a.tag is not None and a.tag == b.tag
                                                                       and a.cls == b.cls)):
            return a
        if isinstance(a, ObjV) and isinstance(b, ObjV) and getattr(a, "_origin", a) is getattr(b, "_origin", b):
            root = getattr(a, "_origin", a)
            merged = {}
            for k in set(a.attrs) | set(b.attrs):
                x, y = a.attrs.get(k), b.attrs.get(k)
                merged[k] = x if y is None else (y if x is None else self.join_cond(c, x, y))
            root.attrs = merged
            return root
        vals = []
        for x in (a.vals if isinstance(a, Alt) else [a]) + (b.vals if isinstance(b, Alt) else [b]):
            if not any(_same_abstract(x, y) for y in vals):
                vals.append(x)
        if len(vals) == 1:
            return vals[0]
        out = Alt(vals)
        if isinstance(out, Alt) and not isinstance(a, Alt) and not isinstance(b, Alt) and len(vals) == 2 \
                and not (c[0] == "opq" and c[1] == "config"):
            # remember which alternative holds under which condition (callables chosen by a test, ...)
            out.conds = [c, sym.Not(c)] if vals[0] is a else [sym.Not(c), c]
        return out

    def join_envs(self, c: Expr, e1: Optional[dict], e2: Optional[dict]) -> Optional[dict]:
        if e1 is None:
            return e2
        if e2 is None:
            return e1
        out = {}
        for k in set(e1) | set(e2):
            a, b = e1.get(k), e2.get(k)
            if a is None:
                out[k] = b
            elif b is None:
                out[k] = a
            else:
                out[k] = self.join_cond(c, a, b)
        return out

    # ------------------------------------------------------------------ statements
    def exec_block(self, stmts, env: dict) -> Optional[dict]:
        """Executes statements, mutating env. Returns env, or None when every path left the block."""
        for st in stmts:
            r = self.exec_stmt(st, env)
            if r is None:
                return None
        return env

    def exec_stmt(self, st, env: dict) -> Optional[dict]:
        self._check_budget(st)
        try:
            return self._exec_stmt(st, env)
        except Raised:
            self.event("raise", st, propagated=True)
            return None

    def _exec_stmt(self, st, env: dict) -> Optional[dict]:
        fr = self.frames[-1]
        rc = env.get("$reach")
        self.cur_reach = rc.e if isinstance(rc, Sc) else sym.TRUE
        if isinstance(st, ast.Expr):
            self.eval(st.value, env)
            return env
        if isinstance(st, ast.Assign):
            v = self.eval(st.value, env)
            for t in st.targets:
                self.assign(t, v, env, st)
            return env
        if isinstance(st, ast.AnnAssign):
            if st.value is not None:
                self.assign(st.target, self.eval(st.value, env), env, st)
            return env
        if isinstance(st, ast.AugAssign):
            cur = self.eval(_load(st.target), env)
            rhs = self.eval(st.value, env)
            if type(cur) is Seq and cur.kind == "list" and isinstance(st.op, ast.Add) and type(rhs) is Seq \
                    and not hasattr(cur, "appended"):
                # `xs += [..]` on a list is xs.extend(..): the list object itself grows, every alias sees it
                cur.items.extend(rhs.items)
                return env
            try:
                v = self.binary(st.op, cur, rhs, st)
            except ShapeError as ex:
                self.event("shape-error", st, message=str(ex))
                v = self.unknown("shape-error", st)
            if isinstance(cur, Arr) and cur.kind == "nd" and isinstance(st.target, ast.Name):
                # an in-place operator on an ndarray changes the array object: other names bound to it change with it
                if getattr(cur, "view_of", None) is not None and self._referenced(cur.view_of, env, None):
                    self.lose(f"`{st.target.id}` is a view of another array that is still in use and is updated in place: the "
                              f"other array changes too", st)
                others = self._aliases(cur, env, st.target.id)
                if others and getattr(self, "active_loops", None):
                    self.lose(f"`{st.target.id}` is updated in place inside a loop while other names refer to the same array", st)
                for holder, key in others:
                    holder[key] = v
            self.assign(st.target, v, env, st, aug=True)
            return env
        if isinstance(st, ast.Return):
            v = self.eval(st.value, env) if st.value is not None else NoneV()
            fr.returns.append((list(self.path[fr.path_base:]), v))
            if fr.nonlocals:
                fr.nl_exits.append((list(self.path[fr.path_base:]), {nm: env[nm] for nm in fr.nonlocals if nm in env}))
            self.event("return", st, value=v)
            return None
        if isinstance(st, ast.Raise):
            self.event("raise", st)
            return None
        if isinstance(st, ast.If):
            return self.exec_if(st, env)
        if isinstance(st, (ast.For, ast.AsyncFor)):
            return self.exec_for(st, env)
        if isinstance(st, ast.While):
            return self.exec_while(st, env)
        if isinstance(st, ast.Continue):
            if fr.loop_stack:
                ls = fr.loop_stack[-1]
                ls["continues"].append((list(self.path[ls["path_base"]:]), dict(env)))
            return None
        if isinstance(st, ast.Break):
            if fr.loop_stack:
                ls = fr.loop_stack[-1]
                ls["breaks"].append((list(self.path[ls["path_base"]:]), dict(env)))
            return None
        if isinstance(st, ast.Try):
            # the repo's try blocks guard capability probes; evaluate body, join handlers as alternatives
            snap = dict(env)
            r = self.exec_block(st.body, env)
            if r is not None and st.orelse:
                r = self.exec_block(st.orelse, env)
            outs = [r] if r is not None else []
            # exception paths are explored only when the configuration asks for them: on the symbolic
            # (non-empty, well-typed) inputs analysed, the probes in persim's try blocks do not raise
            for h in (st.handlers if self.cfg.flags.get("exceptions") else []):
                eh = dict(snap)
                if h.name:
                    eh[h.name] = ObjV(None, tag="exception")
                rh = self.exec_block(h.body, eh)
                if rh is not None:
                    outs.append(rh)
            if not outs:
                return None
            res = outs[0]
            for o in outs[1:]:
                res = self.join_envs(sym.Opq("config", (), "exception-raised"), res, o)
            if res is not env:
                snap2 = dict(res)
                env.clear()
                env.update(snap2)
            if st.finalbody:
                return self.exec_block(st.finalbody, env)
            return env
        if isinstance(st, (ast.With, ast.AsyncWith)):
            resumes = []
            for item in st.items:
                cm = self._enter_repo_cm(item.context_expr, env)
                if cm is not None:
                    v, resume = cm
                    resumes.append(resume)
                else:
                    v = self.eval(item.context_expr, env)
                if item.optional_vars is not None:
                    self.assign(item.optional_vars, v, env, st)
            out = self.exec_block(st.body, env)
            for resume in reversed(resumes):
                resume()   # what follows the `yield` of the package's context manager (its clean-up) runs when the block is left
            return out
        if isinstance(st, (ast.FunctionDef, ast.AsyncFunctionDef)):
            outer_ = self.frames[-1].parent_env if self.frames else None
            fv_ = FuncV("local", st, closure=_ChainEnv(env, outer_) if outer_ is not None else env)
            fv_.home = self.frames[-1].fi if self.frames else None   # the function (hence the module) it was defined in
            fv_.default_vals = self._bind_defaults(st.args, env)
            env[st.name] = fv_
            return env
        if isinstance(st, ast.Global):
            self.lose("a `global` statement: assignments to module-level names are not followed across calls", st)
            return env
        if isinstance(st, ast.Nonlocal) and not (set(st.names) <= fr.nonlocals):
            self.lose("a `nonlocal` name that is not bound in the enclosing scope the evaluator follows", st)
            return env
        if isinstance(st, (ast.Pass, ast.Import, ast.ImportFrom, ast.Nonlocal)):
            return env
        if isinstance(st, ast.Assert):
            return env
        if isinstance(st, ast.Delete):
            for t in st.targets:
                if isinstance(t, ast.Name):
                    env.pop(t.id, None)
            return env
        self.unknown("statement-" + type(st).__name__, st)
        return env

    def exec_if(self, st: ast.If, env: dict) -> Optional[dict]:
        tv = self.eval(st.test, env)
        self.note_truth(tv, st.test)
        c = self.truth(tv)
        self.event("branch", st, cond=c)
        d = self.decide(c)
        if d is True:
            return self.exec_block(st.body, env)
        if d is False:
            return self.exec_block(st.orelse, env) if st.orelse else env
        e1, e2 = _clone_env(env), _clone_env(env)
        rc = env.get("$reach")
        rc = rc.e if isinstance(rc, Sc) else sym.TRUE
        e1["$reach"] = Sc(sym.And(rc, c))
        e2["$reach"] = Sc(sym.And(rc, sym.Not(c)))
        # `if x is None:` / `if x is not None:` on an optional value narrows it in both arms
        t = st.test
        if isinstance(t, ast.Compare) and len(t.ops) == 1 and isinstance(t.ops[0], (ast.Is, ast.IsNot, ast.Eq, ast.NotEq)) \
                and isinstance(t.left, ast.Name) and isinstance(t.comparators[0], ast.Constant) \
                and t.comparators[0].value is None and isinstance(env.get(t.left.id), Opt):
            none_arm, val_arm = (e1, e2) if isinstance(t.ops[0], (ast.Is, ast.Eq)) else (e2, e1)
            none_arm[t.left.id] = NoneV()
            val_arm[t.left.id] = env[t.left.id].val
        n = len(self.path)
        self.path.append(c)
        r1 = self.exec_block(st.body, e1)
        del self.path[n:]
        self.path.append(sym.Not(c))
        r2 = self.exec_block(st.orelse, e2) if st.orelse else e2
        del self.path[n:]
        if r1 is None and r2 is None:
            return None
        if r1 is None:
            # the fall-through path knows the negated condition from here on
            self.path.append(sym.Not(c))
            env.clear()
            env.update(_commit_objects(r2))
            return env
        if r2 is None:
            self.path.append(c)
            env.clear()
            env.update(_commit_objects(r1))
            return env
        j = self.join_envs(c, r1, r2)
        j["$reach"] = Sc(sym.Or(r1["$reach"].e, r2["$reach"].e)) if (
            isinstance(r1.get("$reach"), Sc) and isinstance(r2.get("$reach"), Sc)) else Sc(rc)
        env.clear()
        env.update(j)
        return env

    def note_truth(self, v: Val, node):
        """remember what kind of value is truth-tested at this place: a test that sees None on one visit and a number that
        derives from the data on another treats a legitimate 0 as 'nothing there'"""
        if node is None:
            return
        kind = None
        if isinstance(v, NoneV):
            kind = "none"
        elif isinstance(v, Sc) and v.e is not None and v.e[0] not in ("cmp", "bool", "and", "or", "not") \
                and not (v.e[0] == "red" and v.e[1] in ("all", "any")):
            om = self.cfg.flags.get("order_model") or {}
            kind = "data-number" if any(x[0] == "in" or (x[0] == "sym" and x[1] in om) for x in sym.walk(v.e)) else "number"
        if kind is None:
            return
        tk = self.__dict__.setdefault("truth_kinds", {})
        rec = tk.setdefault(id(node), dict(node=node, kinds=set(), fi=self.frames[-1].fi if self.frames else None, example=None))
        rec["kinds"].add(kind)
        if kind == "data-number" and rec["example"] is None:
            rec["example"] = v.e

    def truth(self, v: Val) -> Expr:
        if isinstance(v, Sc):
            e = v.e
            if e[0] in ("cmp", "bool", "and", "or", "not"):
                return e
            if e[0] == "num":
                return sym.Bool(e[1] != 0)
            if e[0] == "red" and e[1] in ("all", "any"):
                return e
            if e[0] in ("ite", "choice", "opq", "fn", "sym"):
                return sym.Cmp("!=", e, sym.ZERO) if e[0] not in ("opq", "sym") else \
                    sym.Expr(("cmp", "!=", e, sym.ZERO))
            return sym.Cmp("!=", e, sym.ZERO)
        if isinstance(v, NoneV):
            return sym.FALSE
        if isinstance(v, StrV):
            return sym.Bool(bool(v.s))
        if isinstance(v, Seq):
            return sym.Bool(bool(v.items))
        if isinstance(v, DictV):
            if v.generic is None:
                return sym.Bool(bool(v.d))
        if isinstance(v, ObjV) and v.cls:
            # truth of an instance of a repository class: __bool__, else __len__ != 0, else True
            c = self.p.classes.get(v.cls)
            for dn in ("__bool__", "__len__"):
                m = c.lookup(dn, self.p) if c is not None else None
                if m is not None:
                    r = self.call_function(m, [v], {}, None)
                    if isinstance(r, ObjV):
                        break
                    return self.truth(r)
        if isinstance(v, (FuncV, ObjV, ModV)):
            return sym.TRUE
        if isinstance(v, Arr):
            if v.kind == "list":
                sp = v.axes[0][0]
                return sym.Cmp(">", sp.size, sym.ZERO)
            return sym.Opq("truth-of-array", (v.elem,), fresh("u"))
        if isinstance(v, Bag):
            return sym.Opq("config", (), fresh("nonempty-bag"))
        if isinstance(v, Concat):
            return sym.Opq("config", (), fresh("nonempty-list"))
        if isinstance(v, Alt):
            return sym.Opq("config", (), fresh("truth-alt"))
        return sym.Opq("truth", (generic_elem(v),), fresh("u"))

    # ------------------------------------------------------------------ loops
    def _assigned_names(self, body) -> List[str]:
        names = []
        for st in body:
            for n in ast.walk(st):
                tgt = None
                if isinstance(n, ast.Name) and isinstance(n.ctx, ast.Store):
                    tgt = n.id
                elif isinstance(n, (ast.Subscript, ast.Attribute)) and isinstance(n.ctx, ast.Store):
                    b = n
                    while isinstance(b, (ast.Subscript, ast.Attribute)):
                        b = b.value
                    if isinstance(b, ast.Name):
                        tgt = b.id
                elif isinstance(n, ast.Call) and isinstance(n.func, ast.Attribute) and isinstance(n.func.value, ast.Name) \
                        and n.func.attr in ("append", "extend", "insert", "pop", "add", "update", "remove"):
                    tgt = n.func.value.id
                if tgt and tgt not in names:
                    names.append(tgt)
                if isinstance(n, ast.Call) and self.frames and (n.args or n.keywords):
                    # a helper that updates its parameter in place (`img += ...`): the caller's name changes with it
                    g = self._callee_info(self.frames[-1].fi, n)
                    inner = self._inplace_params(g) if g is not None else []
                    if inner:
                        gp = g.params[1:] if (g.cls is not None and g.kind != "staticmethod" and isinstance(n.func, ast.Attribute)) \
                            else g.params
                        for k, arg in enumerate(n.args):
                            if isinstance(arg, ast.Name) and k < len(gp) and gp[k] in inner and arg.id not in names:
                                names.append(arg.id)
                        for kw in n.keywords:
                            if kw.arg in inner and isinstance(kw.value, ast.Name) and kw.value.id not in names:
                                names.append(kw.value.id)
        return names

    def iteration(self, it: Val, node) -> Tuple[Optional[Space], Optional[str], Any]:
        """returns (space, ivar, elem_fn) or (None, None, list_of_items) for concrete unrolling"""
        if isinstance(it, Seq):
            return None, None, list(it.items)
        if isinstance(it, ObjV) and it.tag == "range":
            lo, hi = it.attrs["lo"], it.attrs["hi"]
            size = sym.sub(hi.e, lo.e)
            if size[0] == "num" and lo.e[0] == "num" and float(size[1]).is_integer() and size[1] <= 12:
                return None, None, [Sc(sym.Num(int(lo.e[1]) + k)) for k in range(int(size[1]))]
            sp = rng(size)
            iv = fresh()
            self.ivspace[iv] = sp
            if lo.e == sym.ZERO:
                return sp, iv, lambda: Sc(sym.IV(iv))
            if lo.e[0] == "num" and float(lo.e[1]).is_integer():
                return sp, iv, lambda: Sc(sym.IV(iv, int(lo.e[1])))
            return sp, iv, lambda: Sc(sym.add(sym.IV(iv), lo.e))
        if isinstance(it, ObjV) and it.tag == "lazy-map":
            from .prims import _realise_map
            items = _realise_map(self, it, node)
            if items is not None:
                return None, None, items
            if len(it.attrs["iterables"]) == 1 and not it.attrs["star"]:
                # map(f, xs) over a sequence of symbolic length: f of the generic element
                sp, iv, elem = self.iteration(it.attrs["iterables"][0], node)
                if sp is not None:
                    f_ = it.attrs["f"]
                    return sp, iv, (lambda: self.apply(f_, [elem()], {}, node, {}))
        if isinstance(it, ObjV) and it.tag == "strided-range":
            lo, hi, st = it.attrs["lo"].e, it.attrs["hi"].e, it.attrs["step"].e
            if all(x[0] == "num" for x in (lo, hi, st)) and (hi[1] - lo[1]) / st[1] <= 24:
                return None, None, [Sc(sym.Num(float(k))) for k in range(int(lo[1]), int(hi[1]), int(st[1]))]
            # trips k = 0 .. ceil((hi-lo)/step)-1, the loop variable is lo + k*step
            count = sym.fn("ceil", sym.div(sym.sub(hi, lo), st))
            sp = Space(("strided", lo, hi, st), count)
            iv = fresh()
            self.ivspace[iv] = sp
            return sp, iv, lambda: Sc(sym.add(lo, sym.mul(sym.IV(iv), st)))
        if isinstance(it, ObjV) and it.tag == "enumerate":
            sp, iv, f = self.iteration(it.attrs["inner"], node)
            k0 = it.attrs.get("start", 0)
            if sp is None:
                return None, None, [Seq([Sc(sym.Num(k)), x], "tuple") for k, x in enumerate(f, k0)]
            return sp, iv, lambda: Seq([Sc(sym.add(sym.IV(iv), sym.Num(k0)) if k0 else sym.IV(iv)), f()], "tuple")
        if isinstance(it, ObjV) and it.tag == "zip":
            inners = [self.iteration(x, node) for x in it.attrs["items"]]
            if all(i[0] is None for i in inners):
                n = min(len(i[2]) for i in inners)
                return None, None, [Seq([i[2][k] for i in inners], "tuple") for k in range(n)]
            syms_ = [i for i in inners if i[0] is not None]
            if len(syms_) != len(inners):
                return rng(sym.Opq("len", ())), fresh(), lambda: self.unknown("zip-mixed", node)
            # sequences over a row space and over a mask-selected part of it are not aligned row by row: position k of
            # the selected rows is not row k
            def _masks(sp_):
                """(base key, [masks with index variables renamed to one name]) of a possibly mask-selected space"""
                k_, ms = sp_.key, []
                while isinstance(k_, tuple) and len(k_) == 3 and k_[0] == "sub":
                    m_ = k_[2]
                    if isinstance(m_, tuple) and m_ and isinstance(m_[0], str):
                        for iv_ in sorted(sym.free_ivars(m_)):
                            m_ = sym.subst_ivar(m_, iv_, ("$r", 0))
                    ms.append(m_)
                    k_ = k_[1]
                return k_, ms
            infos = [_masks(x[0]) for x in syms_]
            if any(ms for _, ms in infos) and not all(ms == infos[0][1] for _, ms in infos):
                one_sided = any(not ms for _, ms in infos)
                if one_sided or len({len(ms) for _, ms in infos}) > 1:
                    # a definite misalignment: one sequence went through a row selection the other did not go through
                    self.event("zip-misaligned", node, spaces=[x[0].key for x in syms_])
                self.lose("zip of sequences that went through different row selections: paired by position, not by row", node)
                u = self.unknown("zip-misaligned", node)
                return rng(sym.Opq("len", ())), fresh("b"), lambda: u
            # sequences of lengths that cannot be compared (all the rows against one block of them): zip pairs them by
            # position counted from the start of each, and stops at the shortest
            sizes_ = [x[0].size for x in syms_]
            comparable = all(sym.sub(z, sizes_[0])[0] == "num" for z in sizes_[1:])
            if not comparable:
                def _start(sp_):
                    k_ = sp_.key
                    if isinstance(k_, tuple) and len(k_) == 4 and k_[0] == "slice":
                        return k_[2]       # a slice keeps the numbering of the space it was cut from
                    if isinstance(k_, tuple) and k_ and k_[0] in ("rows", "range", "n"):
                        return sym.ZERO
                    return None
                starts = [_start(x[0]) for x in syms_]
                if any(st_ is None for st_ in starts):
                    self.lose("zip of sequences whose lengths cannot be compared", node)
                    u = self.unknown("zip-lengths", node)
                    return rng(sym.Opq("len", ())), fresh("b"), lambda: u
                cut = [x[0].key for x, st_ in zip(syms_, starts) if st_ != sym.ZERO]
                whole = [x[0].key for x, st_ in zip(syms_, starts) if st_ == sym.ZERO]
                if any(c_[1] == w_ for c_ in cut for w_ in whole):
                    # a block of the rows of P (from a start that is not 0 in general) against all the rows of P: entry j of the
                    # block is row start+j, entry j of the other is row j — a definite misalignment beyond the first block
                    self.event("zip-misaligned", node, spaces=[x[0].key for x in syms_])
                jv = fresh()
                jsp = rng(sym.fn("min", *sizes_))
                self.ivspace[jv] = jsp
                fs2 = [(iv_k, f_k, st_) for (sp_k, iv_k, f_k), st_ in zip(inners, starts)]

                def elem_rel():
                    out = []
                    for iv_k, f_k, st_ in fs2:
                        v_ = f_k()
                        if st_ == sym.ZERO:
                            out.append(_rename_val(v_, iv_k, jv))
                        else:
                            r_ = _subst_val_expr(v_, iv_k, sym.add(st_, sym.IV(jv)))
                            if r_ is None:
                                self.lose("zip over a block: an entry could not be re-indexed by its position in the block", node)
                                r_ = self.unknown("zip-block-entry", node)
                            out.append(r_)
                    return Seq(out, "tuple")
                return jsp, jv, elem_rel
            # common length = the smallest size (sizes differ by constants in the repo: zip(l, l[1:]))
            best = syms_[0]
            for s in syms_[1:]:
                d = sym.sub(s[0].size, best[0].size)
                if d[0] == "num" and d[1] < 0:
                    best = s
            iv = fresh()
            self.ivspace[iv] = best[0]
            fs = []
            for sp_k, iv_k, f_k in inners:
                fs.append((iv_k, f_k))

            def elem():
                out = []
                for iv_k, f_k in fs:
                    out.append(_rename_val(f_k(), iv_k, iv))
                return Seq(out, "tuple")
            return best[0], iv, elem
        if is_bucket_family(it):
            sp = it.axes[0][0]
            iv = fresh()
            self.ivspace[iv] = sp
            return sp, iv, lambda: bucket_handle(it, sym.IV(iv))
        a = arrays.to_arr(it) if not isinstance(it, Arr) else it
        if isinstance(a, (Blocks, DiagMat)):
            a = arrays.densify(a)
        if isinstance(a, Arr):
            a = a.renamed()
            sp, iv = a.axes[0]
            if sp.concrete is not None and sp.concrete <= 8:
                return None, None, [arrays.index(a, [("int", k)]) for k in range(sp.concrete)]
            self.ivspace[iv] = sp
            rest = a.axes[1:]
            if rest:
                return sp, iv, lambda: Arr(rest, a.elem, "nd")
            return sp, iv, lambda: _unbox_str(Sc(a.elem))
        if isinstance(it, Bag):
            iv = fresh("b")
            return rng(it.size if it.size is not None else sym.Opq("len", ())), iv, lambda: Sc(it.elem)
        if isinstance(it, Concat):
            iv = fresh("b")
            return rng(sym.Opq("len", ())), iv, lambda: Sc(generic_elem(it))
        if isinstance(it, DictV):
            return None, None, [StrV(k) if isinstance(k, str) else Sc(sym.Num(k)) for k in it.d]
        if isinstance(it, ObjV) and it.cls:
            # an object without __iter__ is iterated through __getitem__(0), (1), … until IndexError: follow __getitem__ at a
            # generic position; the positions are those of the array attribute the result is a row of
            c = self.p.classes.get(it.cls)
            busy = self.__dict__.setdefault("_iter_dunder_busy", set())
            if c is not None and c.lookup("__iter__", self.p) is not None and id(it) not in busy:
                # __iter__ of a repository class (a generator method is executed eagerly): iterate over what it returns
                busy.add(id(it))
                try:
                    got = self.call_function(c.lookup("__iter__", self.p), [it], {}, node)
                finally:
                    busy.discard(id(it))
                if isinstance(got, ObjV) and got.tag == "iter":
                    got = _iter_rest(got)   # `return iter(self._items)`
                if not (isinstance(got, ObjV) and got.cls):
                    return self.iteration(got, node)
            if c is not None and c.lookup("__iter__", self.p) is None:
                g = c.lookup("__getitem__", self.p)
                if g is not None:
                    # the old iteration protocol: obj[0], obj[1], … until IndexError.  When the object holds a list of known
                    # length behind __getitem__, that is this list of items
                    n_um, n_log = len(self.unmodelled), len(self.log)
                    items, ended = [], False
                    for k_ in range(17):
                        try:
                            r_ = self.call_function(g, [it, Sc(sym.Num(k_))], {}, node)
                        except Raised:
                            ended = True
                            break
                        if isinstance(r_, Unknown):
                            ended = r_.tag == "index-out-of-range"
                            if ended:
                                del self.unmodelled[n_um + sum(1 for u_ in self.unmodelled[n_um:] if u_.get("tag") != "index-out-of-range"):]
                            break
                        n_um = len(self.unmodelled)
                        items.append(r_)
                    if ended and len(self.unmodelled) == n_um:
                        return None, None, items
                    del self.unmodelled[n_um:]
                    iv = fresh()
                    r = self.call_function(g, [it, Sc(sym.IV(iv))], {}, node)
                    for a_ in it.attrs.values():
                        if isinstance(a_, Arr) and a_.ndim >= 2 and isinstance(r, Arr) and r.ndim == a_.ndim - 1:
                            row = arrays.index(a_, [("expr", sym.IV(iv))])
                            if isinstance(row, Arr) and _same_abstract(row, r):
                                sp = a_.axes[0][0]
                                self.ivspace[iv] = sp
                                return sp, iv, (lambda r=r: r)
        iv = fresh("b")
        u = self.unknown("iteration-over-" + type(it).__name__, node, (generic_elem(it),))
        return rng(sym.Opq("len", ())), iv, lambda: u

    def _live_source(self, it: Val, node) -> Val:
        """an object of the package whose __iter__ hands out `iter(<its list>)` is iterated over that very list (so that popping
        from the list inside the loop shifts what the next position holds); `iter(list(xs))` walks a private copy"""
        if isinstance(it, ObjV) and it.cls:
            c = self.p.classes.get(it.cls)
            m = c.lookup("__iter__", self.p) if c is not None else None
            busy = self.__dict__.setdefault("_iter_dunder_busy", set())
            if m is not None and id(it) not in busy and not any(
                    isinstance(y, (ast.Yield, ast.YieldFrom)) for y in ast.walk(m.node)):
                busy.add(id(it))
                try:
                    got = self.call_function(m, [it], {}, node)
                finally:
                    busy.discard(id(it))
                if isinstance(got, ObjV) and got.tag == "iter" and got.attrs.get("pos") == 0 and isinstance(got.attrs.get("src"), Seq):
                    return got.attrs["src"]
                if isinstance(got, Seq):
                    return got
        return it

    def exec_for(self, st: ast.For, env: dict) -> Optional[dict]:
        it = self.eval(st.iter, env)
        if self.cfg.flags.get("live_lists"):
            it = self._live_source(it, st.iter)
            if isinstance(it, ObjV) and it.tag == "enumerate":
                inner = self._live_source(it.attrs["inner"], st.iter)
                if inner is not it.attrs["inner"]:
                    it = ObjV(None, dict(it.attrs, inner=inner), tag="enumerate")
        if isinstance(it, CondSeq) and not st.orelse:
            # every item in turn, its body under the condition that the item is in the list at all
            cache = self.__dict__.setdefault("_condfor", {})
            for k, (item, cond) in enumerate(zip(it.items, it.conds)):
                if cond == sym.TRUE:
                    self.assign(st.target, item, env, st)
                    r = self.exec_block(st.body, env)
                    if r is None:
                        return None
                    continue
                key = (id(st), k)
                if key not in cache:
                    tst = ast.Name(id=f"$cond{k}", ctx=ast.Load())
                    asg = ast.Assign(targets=[st.target], value=ast.Name(id=f"$item{k}", ctx=ast.Load()))
                    node = ast.If(test=tst, body=[asg] + list(st.body), orelse=[])
                    for x_ in (tst, asg, node):
                        ast.copy_location(x_, st)
                    ast.fix_missing_locations(node)
                    cache[key] = node
                env[f"$cond{k}"] = Sc(cond)
                env[f"$item{k}"] = item
                if any(isinstance(x_, (ast.Break, ast.Continue)) for b_ in st.body for x_ in ast.walk(b_)):
                    self.lose("break/continue in a loop over a conditionally filled list", st)
                r = self.exec_if(cache[key], env)
                env.pop(f"$cond{k}", None)
                env.pop(f"$item{k}", None)
                if r is None:
                    return None
                if r is not env:
                    snap = dict(r)
                    env.clear()
                    env.update(snap)
            return env
        if isinstance(it, ObjV) and it.tag == "iter":
            # the rest of an iterator over an array: rows consumed so far are skipped
            it = _iter_rest(it)
        sp, iv, elem = self.iteration(it, st.iter)
        if sp is None:
            # concrete unrolling
            live = None
            if self.cfg.flags.get("live_lists"):
                # python iterates a list by position over the *current* contents: popping inside the loop shifts what the
                # next position holds
                if isinstance(it, Seq) and it.kind == "list":
                    live = (it, False)
                elif isinstance(it, ObjV) and it.tag == "enumerate" and isinstance(it.attrs["inner"], Seq) \
                        and it.attrs["inner"].kind == "list":
                    live = (it.attrs["inner"], True)

            def items_():
                if live is None:
                    yield from elem
                    return
                k_ = 0
                while k_ < len(live[0].items):
                    x_ = live[0].items[k_]
                    yield Seq([Sc(sym.Num(k_ + (it.attrs.get("start", 0) if live[1] else 0))), x_], "tuple") if live[1] else x_
                    k_ += 1
            for item in items_():
                self.assign(st.target, item, env, st)
                fr = self.frames[-1]
                ls = dict(continues=[], breaks=[], path_base=len(self.path))
                fr.loop_stack.append(ls)
                n = len(self.path)
                r = self.exec_block(st.body, env)
                if r is None or ls["continues"] or ls["breaks"]:
                    del self.path[n:]
                # else: what the body established on its way through (an `if c: raise` that did not raise) stays known — the
                # items are concrete, so these are facts about this run, not about a generic trip
                fr.loop_stack.pop()
                res = r
                for cond, e2 in ls["continues"]:
                    res = self.join_envs(sym.And(*cond) if cond else sym.TRUE, e2, res)
                if res is None and not ls["breaks"]:
                    return None
                if res is not None and res is not env:
                    snap = dict(res)
                    env.clear()
                    env.update(snap)
                if ls["breaks"]:
                    be = None
                    for cond, e2 in ls["breaks"]:
                        be = self.join_envs(sym.And(*cond) if cond else sym.TRUE, e2, be)
                    j = self.join_envs(sym.Opq("config", (), "loop-broke"), be, res)
                    env.clear()
                    env.update(j)
                    break
            if st.orelse:
                return self.exec_block(st.orelse, env)
            return env
        return self.symbolic_loop(st, env, sp, iv, elem)

    def exec_while(self, st: ast.While, env: dict) -> Optional[dict]:
        if self.cfg.flags.get("unroll_while"):
            r = self._unrolled_while(st, env, int(self.cfg.flags["unroll_while"]))
            if r is not NotImplemented:
                return r
        return self.symbolic_loop(st, env, None, None, None)

    def _unrolled_while(self, st: ast.While, env: dict, bound: int):
        """a while loop whose test is decided at every trip (concrete list lengths, members of a fixed ordering class) is
        followed trip by trip; NotImplemented when the very first test is not decided"""
        fr = self.frames[-1]
        for trip in range(bound + 1):
            c = self.truth(self.eval(st.test, env))
            d = self.decide(c)
            if d is None:
                if trip == 0:
                    return NotImplemented
                self.lose("a loop test stopped being decidable after some trips", st)
                return self.symbolic_loop(st, env, None, None, None)
            if d is False:
                return self.exec_block(st.orelse, env) if st.orelse else env
            if trip == bound:
                raise AnalysisError(f"{fr.fi.qualname}: loop still running after {bound} decided trips" +
                                    (" (the run is not exact: unmodelled values or dropped conditions precede it)"
                                     if (self.unmodelled or self.lossy) else ""))
            ls = dict(continues=[], breaks=[], path_base=len(self.path))
            fr.loop_stack.append(ls)
            n = len(self.path)
            r = self.exec_block(st.body, env)
            del self.path[n:]
            fr.loop_stack.pop()
            if ls["breaks"] or ls["continues"]:
                # break/continue under decided conditions only
                if r is None and ls["breaks"] and not ls["continues"] and all(not cond for cond, _ in ls["breaks"]):
                    e2 = ls["breaks"][-1][1]
                    env.clear()
                    env.update(e2)
                    return env
                if r is None and ls["continues"] and not ls["breaks"] and all(not cond for cond, _ in ls["continues"]):
                    e2 = ls["continues"][-1][1]
                    env.clear()
                    env.update(e2)
                    continue
                self.lose("break/continue under an undecided condition in an unrolled loop", st)
                return self.symbolic_loop(st, env, None, None, None)
            if r is None:
                return None
            if r is not env:
                snap = dict(r)
                env.clear()
                env.update(snap)
        return env

    def symbolic_loop(self, st, env: dict, sp: Optional[Space], iv: Optional[str], elem) -> Optional[dict]:
        fr = self.frames[-1]
        carried = [n for n in self._assigned_names(st.body) if n in env]
        is_for = isinstance(st, ast.For)
        loop_rec = self.event("loop", st, space=sp, ivar=iv, carried={}, loop_kind="for" if is_for else "while")
        if not hasattr(self, "active_loops"):
            self.active_loops = []
        self.active_loops.append(loop_rec)
        try:
            return self._symbolic_loop_body(st, env, sp, iv, elem, fr, carried, is_for, loop_rec)
        finally:
            self.active_loops.pop()

    def _symbolic_loop_body(self, st, env, sp, iv, elem, fr, carried, is_for, loop_rec):
        init = {n: env[n] for n in carried}
        place: Dict[str, Expr] = {}
        cur = dict(env)
        # numeric carried scalars/arrays get a placeholder so additive folds can be recognised
        for n in carried:
            v = env[n]
            if isinstance(v, Sc) and v.e[0] not in ("bool", "str"):
                # placeholder for "value at the start of an iteration": facets of the initial value (the final
                # join of initial value and update checks the inductive step)
                ph = sym.Opq("carry", (v.e,), f"{n}:{fresh('c')}")
                place[n] = ph
                cur[n] = Sc(ph)
            elif isinstance(v, Arr) and v.kind == "nd":
                ph = sym.Opq("carry", (v.elem,) + tuple(sym.IV(i) for _, i in v.axes), f"{n}:{fresh('c')}")
                place[n] = ph
                cur[n] = Arr(v.axes, ph, "nd", v.uid)
            elif isinstance(v, Seq) and v.kind == "list":
                cur[n] = _SeqAcc(v.items)
            elif is_bucket_family(v):
                pass  # per-position lists: appends and re-bindings of single positions are recorded as events
            elif (isinstance(v, Arr) and v.kind == "list") or isinstance(v, Concat):
                # a list that an earlier loop filled and this loop keeps appending to
                acc0 = _SeqAcc([])
                acc0.prefix = v
                cur[n] = acc0
        for rounds in range(4):
            body_env = dict(cur)
            body_env["$reach"] = Sc(sym.TRUE)
            ls = dict(continues=[], breaks=[], path_base=len(self.path))
            fr.loop_stack.append(ls)
            n0 = len(self.path)
            n_log = len(self.log)
            if not is_for:
                tv = self.eval(st.test, body_env)
                c = self.truth(tv)
                self.event("branch", st, cond=c, loop_test=True)
                self.path.append(c)
            else:
                self.assign(st.target, elem(), body_env, st)
            r = self.exec_block(st.body, body_env)
            del self.path[n0:]
            fr.loop_stack.pop()
            res = r
            for cond, e2 in ls["continues"]:
                res = self.join_envs(sym.And(*cond) if cond else sym.TRUE, e2, res)
            if res is None:
                res = dict(body_env)
                for cond, e2 in ls["breaks"]:
                    res = self.join_envs(sym.And(*cond) if cond else sym.TRUE, e2, res)
            # classify carried variables
            stable = True
            post: Dict[str, Val] = {}
            for n in carried:
                new = res.get(n)
                old_init = init[n]
                if n in place:
                    ph = place[n]
                    # was the variable updated through a store at the position of this very loop (`A[k] += f(k)` for the loop
                    # variable k)?  Then the store already speaks for every position of that axis: one update, not one per trip
                    positional = False
                    if iv is not None and isinstance(new, Arr):
                        for ev_ in self.log[n_log:]:
                            if ev_["kind"] == "store" and isinstance(ev_.get("target"), ast.Subscript) \
                                    and isinstance(ev_["target"].value, ast.Name) and ev_["target"].value.id == n \
                                    and any(it_[0] == "expr" and it_[1][0] == "iv" and it_[1][1] == iv for it_ in (ev_.get("idx") or ())):
                                positional = True
                    kind, val = self._fold(n, ph, old_init, new, sp, iv, is_for, positional=positional)
                    loop_rec["carried"][n] = dict(kind=kind, init=old_init, update=new, placeholder=ph)
                    if kind in ("unchanged", "fold", "overwrite", "pointwise"):
                        post[n] = val
                    else:
                        # generic join: substitute the placeholder by the current approximation and iterate
                        approx = self._subst_placeholder(new, ph, cur_approx.get(n, old_init) if rounds else old_init) \
                            if False else None
                        post[n] = val
                elif isinstance(cur[n], _SeqAcc):
                    acc = new if isinstance(new, _SeqAcc) else None
                    prefix = getattr(cur[n], "prefix", None)
                    if acc is not None and len(acc.appended) == 1 and is_for and not acc.conditional:
                        item = acc.appended[0]
                        reach = acc.reaches[0] if acc.reaches else sym.TRUE
                        space = sp if self.decide(reach) is True or reach == sym.TRUE else subspace(sp, reach)
                        arr = self._list_from_items(item, space, iv)
                        post[n] = arr if not acc.items else Concat([Seq(acc.items), arr])
                        if prefix is not None:
                            post[n] = Concat((list(prefix.parts) if isinstance(prefix, Concat) else [prefix]) +
                                             (list(post[n].parts) if isinstance(post[n], Concat) else [post[n]]))
                        loop_rec["carried"][n] = dict(kind="list-append", elem=item)
                    elif acc is not None and not acc.appended:
                        post[n] = Seq(acc.items) if prefix is None else prefix
                    else:
                        if prefix is not None:
                            self.lose("irregular appends to a list that an earlier loop filled", st)
                        parts = acc.appended if acc is not None else []
                        post[n] = Bag(sym.Choice([generic_elem(x) for x in parts]) if parts else sym.Opq("empty", ()),
                                      None, False, None) if parts else self.unknown("list-in-loop:" + n, st)
                        if acc is not None and acc.items:
                            post[n] = Concat([Seq(acc.items), post[n]])
                        loop_rec["carried"][n] = dict(kind="list-append-irregular", elems=parts)
                else:
                    if new is cur[n] or _same_abstract(new, cur[n]):
                        post[n] = cur[n]
                    elif isinstance(new, DictV) and isinstance(cur[n], DictV) and not cur[n].d and not new.d:
                        # a dictionary filled under computed keys inside the loop (a copy of it, if the body branched): its
                        # generic entry already stands for 'whatever some trip stored'
                        post[n] = new
                        loop_rec["carried"][n] = dict(kind="dict-fill", value=new)
                    else:
                        j = self.join_cond(sym.Opq("config", (), "loop-ran"), new, cur[n])
                        if not _same_abstract(j, cur[n]):
                            stable = False
                        post[n] = j
                        loop_rec["carried"][n] = dict(kind="join", value=j)
            # variables first bound inside the loop stay visible afterwards (last iteration's value)
            for k, v in res.items():
                if k not in env and k not in post:
                    post[k] = _forget_iv(v, iv) if iv else v
            # the loop's own target names keep the last item after the loop (or what they held before, when no round ran)
            if is_for:
                for t_ in ast.walk(st.target):
                    if isinstance(t_, ast.Name) and t_.id in env and t_.id in res and t_.id not in post and t_.id not in carried:
                        last_ = None
                        if iv and sp is not None and isinstance(res[t_.id], Sc) and res[t_.id].e is not None:
                            e_last = sym.subst_ivar_expr(res[t_.id].e, iv, sym.sub(sp.size, sym.ONE))   # the item of the last round
                            if e_last is not None:
                                last_ = Sc(e_last)
                        if last_ is None:
                            last_ = _forget_iv(res[t_.id], iv) if iv else res[t_.id]
                        ran = sym.Cmp(">=", sp.size, sym.ONE) if sp is not None else sym.Opq("config", (), "loop-ran")
                        d_ = self.decide(ran)
                        post[t_.id] = last_ if d_ is True else (env[t_.id] if d_ is False else self.join_cond(ran, last_, env[t_.id]))
            if stable or rounds == 3:
                break
            for n, v in post.items():
                if n in carried and n not in place and not isinstance(cur[n], _SeqAcc):
                    cur[n] = v
            del self.log[n_log:]
        post.pop("$reach", None)
        env.update(post)
        # an iteration that raises (or returns) ends the loop: after the loop, no iteration did
        me = fr.fi
        for ev in self.log[n_log:]:
            if ev["kind"] not in ("raise", "return") or ev["fi"] is not me:
                continue
            rel = list(ev["path"][n0:])
            if not rel:
                continue
            cnd = sym.And(*rel)
            uses_carry = any(x[0] == "opq" and x[1] in ("carry", "config") for x in sym.walk(cnd))
            if is_for and sp is not None and iv is not None and not uses_carry:
                self.path.append(sym.Red("all", iv, sp, sym.Not(cnd)))
            else:
                self.lose(f"a {ev['kind']} inside a loop under a condition that could not be turned into a fact", ev["node"])
        if isinstance(st, (ast.For, ast.While)) and st.orelse:
            return self.exec_block(st.orelse, env)
        return env

    def _list_from_items(self, item: Val, sp: Space, iv: str) -> Val:
        if isinstance(item, ObjV) and item.tag == "bucket" and item.attrs["index"] == sym.IV(iv) \
                and sp.same_size(item.attrs["base"].axes[0][0]):
            return bucket_family_like(item.attrs["base"], item.attrs.get("order"))
        if isinstance(item, Sc):
            return Arr([(sp, iv)], item.e, "list")
        if isinstance(item, StrV) and item.s in ("<formatted>", "<f-string>") and getattr(item, "arg", None) is not None:
            # a list of labels rendered from numbers (`["{}".format(i) for i in range(n)]`): position k holds str(arg(k))
            return Arr([(sp, iv)], sym.Opq("strfmt", (item.arg,), None), "list")
        if isinstance(item, Arr):
            return Arr([(sp, iv)] + list(item.axes), item.elem, "list")
        a = arrays.to_arr(item)
        if isinstance(a, Arr):
            return Arr([(sp, iv)] + list(a.axes), a.elem, "list")
        return Bag(generic_elem(item), sp.size, False, None)

    def _fold(self, name, ph: Expr, init: Val, new: Val, sp, iv, is_for, positional=False):
        """classify the update of a numeric carried variable"""
        if isinstance(new, Sc):
            e = new.e
        elif isinstance(new, Arr) and isinstance(init, Arr):
            e = new.elem
            for (s0, i0), (s1, i1) in zip(init.axes, new.axes):
                if i0 != i1:
                    e = sym.subst_ivar(e, i1, (i0, 0))
        else:
            return "other", Alt([init, new]) if new is not None else init
        if e == ph:
            return "unchanged", init
        if ph not in set(sym.walk(e)):
            if isinstance(new, Arr) and isinstance(init, Arr) and is_for and sp is not None and new.ndim >= 1 \
                    and new.axes[0][0].same_size(sp):
                # element-wise definition: the loop visits every position of the array's first axis and stores there
                ax_iv = init.axes[0][1]
                e2 = sym.subst_ivar(e, iv, (ax_iv, 0)) if iv in sym.free_ivars(e) else e
                return "pointwise", Arr(init.axes, e2, "nd", init.uid)
            # overwritten every iteration: afterwards it is the initial value (zero trips) or the last value
            v = _forget_iv(new, iv) if iv else new
            return "overwrite", self.join_cond(sym.Opq("config", (), "loop-ran"), v, init)
        term = _pull(e, ph)
        init_e = init.e if isinstance(init, Sc) else init.elem
        if term is not None and positional and isinstance(init, Arr) and is_for and iv not in sym.free_ivars(term):
            # A[k] += f(k) over every k of the loop: position by position, each entry receives its own term once
            if any(s0.same_size(sp) for s0, _ in init.axes):
                return "pointwise", Arr(init.axes, sym.add(init_e, term), "nd", init.uid)
            return "other", Unknown("positional-update-over-part-of-an-axis", (init_e,))
        if term is not None:
            if is_for and sp is not None:
                total = sym.add(init_e, sym.Sum(iv, sp, term))
            else:
                total = sym.add(init_e, sym.mul(sym.Opq("count", (), fresh("trips")), term)) \
                    if not sym.free_ivars(term) else sym.Opq("unmodelled:while-fold", (term,), fresh("u"))
            if isinstance(init, Sc):
                return "fold", Sc(total)
            return "fold", Arr(init.axes, total, "nd", init.uid)
        # generic: value is one of {init, update applied to one of ...}: iterate the substitution to a fix-point
        approx = init_e
        for _ in range(3):
            nxt = sym.Choice([approx, _forget_iv_expr(sym.subst(e, {ph: approx}), iv)])
            nxt = _collapse(nxt)
            if nxt == approx:
                break
            approx = nxt
        else:
            approx = sym.Opq("unmodelled:loop-widening", (approx,), fresh("u"))
        if isinstance(init, Sc):
            return "join", Sc(approx)
        return "join", Arr(init.axes, approx, "nd", init.uid)

    # ------------------------------------------------------------------ assignment
    def assign(self, target, v: Val, env: dict, st, aug=False):
        if isinstance(target, ast.Name):
            env[target.id] = v
            self.event("assign", st, name=target.id, value=v)
            return
        if isinstance(target, (ast.Tuple, ast.List)):
            items = self.unpack(v, len(target.elts), st)
            for t, x in zip(target.elts, items):
                self.assign(t, x, env, st)
            return
        if isinstance(target, ast.Subscript):
            inner = target.value
            if isinstance(inner, ast.Subscript) and not isinstance(inner.slice, (ast.Tuple, ast.Slice)) \
                    and not isinstance(target.slice, ast.Tuple):
                # A[i][j] = v on an nd-array: A[i] is a view of row i, so this is A[i, j] = v
                root = self.eval(inner.value, env)
                i0 = self.eval(inner.slice, env)
                if isinstance(root, Arr) and root.kind == "nd" and root.ndim >= 2 and isinstance(i0, Sc) and i0.e is not None \
                        and i0.e[0] not in ("cmp", "bool", "and", "or", "not"):
                    t2 = ast.Subscript(value=inner.value, slice=ast.Tuple(elts=[inner.slice, target.slice], ctx=ast.Load()),
                                       ctx=ast.Store())
                    ast.copy_location(t2, target)
                    ast.fix_missing_locations(t2)
                    self.store_subscript(t2, root, v, env, st)
                    return
            base = self.eval(target.value, env)
            self.store_subscript(target, base, v, env, st)
            return
        if isinstance(target, ast.Attribute):
            base = self.eval(target.value, env)
            self.set_attribute(base, target.attr, v, st)
            return
        if isinstance(target, ast.Starred):
            self.assign(target.value, v, env, st)
            return
        self.unknown("assign-target-" + type(target).__name__, st)

    def set_attribute(self, base: Val, attr: str, v: Val, st):
        """`base.attr = v` (also reached through setattr(base, "attr", v)): property setters of repo classes are run"""
        self.event("attrstore", st, base=base, attr=attr, value=v)
        if isinstance(base, ObjV):
            setter = None
            if base.cls:
                c = self.p.classes.get(base.cls)
                setter = c.lookup_setter(attr, self.p) if c else None
            if setter is not None:
                self.call_function(setter, [base, v], {}, st)
            else:
                base.attrs[attr] = v

    def unpack(self, v: Val, n: int, node) -> List[Val]:
        if isinstance(v, Seq) and len(v.items) == n:
            return list(v.items)
        if isinstance(v, ObjV) and getattr(v, "record", None) and v.record[0] == "namedtuple" and len(v.record[1]) == n:
            return [v.attrs[k] for k in v.record[1]]
        if isinstance(v, ObjV) and v.tag == "lazy-map":
            from .prims import _realise_map
            items = _realise_map(self, v, node)
            if items is not None and len(items) == n:
                return items
        if isinstance(v, ObjV) and v.tag == "zip" and v.attrs["items"] and all(
                isinstance(x, Seq) and len(x.items) >= n for x in v.attrs["items"]) \
                and min(len(x.items) for x in v.attrs["items"]) == n:
            # a, b, ... = zip(s1, s2, ...) of concrete sequences: the k-th name gets the tuple of the k-th entries
            return [Seq([x.items[k] for x in v.attrs["items"]], "tuple") for k in range(n)]
        if isinstance(v, Alt):
            parts = [self.unpack(x, n, node) for x in v.vals]
            return [Alt([p[k] for p in parts]) for k in range(n)]
        a = arrays.to_arr(v) if not isinstance(v, Arr) else v
        if isinstance(a, Arr):
            sp, iv = a.axes[0]
            if sp.concrete == n:
                return [arrays.index(a, [("int", k)]) for k in range(n)]
            if sp.concrete is None:
                # unpacking a symbolic-length axis into n names: positional use
                return [arrays.index(a, [("int", k)]) for k in range(n)]
        if isinstance(v, Unknown):
            return [Unknown(f"unpack{k}-of-{v.tag}", (v.e,)) for k in range(n)]
        if isinstance(v, Sc) and v.e[0] in ("opq", "choice", "at"):
            return [Sc(sym.Opq("unmodelled:unpack", (v.e,), fresh("u"))) for _ in range(n)]
        return [self.unknown("unpack", node, (generic_elem(v),)) for _ in range(n)]

    def _rebind(self, name: str, env: dict, st) -> dict:
        """the scope in which `name` is bound for a store through it: the local scope, or — for a free variable of a nested
        function (a closure writing into an array of its enclosing function) — the enclosing scope that holds it"""
        if name in env:
            return env
        fr = self.frames[-1] if self.frames else None
        ce = fr.parent_env if fr is not None else None
        if ce is not None and name in ce:
            return ce
        self.lose(f"a store through `{name}`, which is bound in no scope the evaluator follows (a module-level object?)", st)
        return env

    def store_subscript(self, target: ast.Subscript, base: Val, v: Val, env: dict, st):
        idx = self.index_items(target.slice, env)
        if isinstance(base, Arr) and getattr(base, "view_of", None) is not None and self._referenced(base.view_of, env, None):
            self.lose("a store through a view (a slice / row / transpose) of an array that is still in use: the array it was "
                      "taken from changes too, which is not followed", st)
        self.event("store", st, base=base, idx=idx, value=v, target=target)
        name = target.value.id if isinstance(target.value, ast.Name) else None
        holder = None
        if name is None and isinstance(target.value, ast.Attribute) and isinstance(target.value.value, ast.Name):
            # `obj.field[...] = v`: the array sits in an attribute of an object of the analysed code
            ob = env.get(target.value.value.id)
            if isinstance(ob, ObjV) and ob.attrs.get(target.value.attr) is base:
                holder = (ob, target.value.attr)

        def put(nv):
            if name:
                self._rebind(name, env, st).__setitem__(name, nv)
            elif holder is not None:
                holder[0].attrs[holder[1]] = nv
        if isinstance(base, DictV):
            key = idx[0]
            if key[0] == "str" and key[1] in ("<formatted>", "<f-string>"):
                # a key rendered from a value: one entry per value, all described by the generic entry
                base.generic = v if base.generic is None or _same_abstract(base.generic, v) else Alt([base.generic, v])
            elif key[0] == "str":
                base.d[key[1]] = v
            elif key[0] == "int":
                base.d[key[1]] = v
            else:
                base.generic = v if base.generic is None else Alt([base.generic, v])
            return
        if is_bucket_family(base) and len(idx) == 1 and idx[0][0] in ("expr", "int") and isinstance(v, ObjV) and v.tag == "bucket":
            pos_e = idx[0][1] if idx[0][0] == "expr" else sym.Num(idx[0][1])
            loops = getattr(self, "active_loops", [])
            if v.attrs["root"] is bucket_root(base) and v.attrs["index"] == pos_e and loops and loops[-1]["ivar"] is not None \
                    and pos_e == sym.IV(loops[-1]["ivar"]) and loops[-1]["space"] is not None \
                    and loops[-1]["space"].same_size(base.axes[0][0]):
                # every position is re-bound to its own list in the given order
                base.bucket_order = v.attrs.get("order")
                self.event("bucket-reorder", st, base=base, order=v.attrs.get("order"))
                return
            self.lose("a per-position list is replaced by another position's list, or only some positions are re-ordered", st)
            base.bucket_order = "mixed"
            return
        if isinstance(base, (Seq, _SeqAcc)) and len(idx) == 1 and idx[0][0] == "int":
            k = idx[0][1]
            if -len(base.items) <= k < len(base.items):
                base.items[k] = v
                return
        # 2-d slice stores assemble a block matrix
        if len(idx) == 2 and all(it[0] in ("slice", "full") for it in idx) and isinstance(base, (Arr, Blocks)) \
                and (isinstance(base, Blocks) or (base.ndim == 2 and all(sp.concrete is None for sp, _ in base.axes))):
            if isinstance(base, Arr):
                b = Blocks((base.axes[0][0].size, base.axes[1][0].size), base.elem, [], base.uid)
            else:
                b = base
            bounds = []
            for k, it in enumerate(idx):
                full = b.shape[k]
                if it[0] == "full":
                    bounds += [sym.ZERO, full]
                else:
                    lo = it[1] if it[1] is not None else sym.ZERO
                    hi = it[2] if it[2] is not None else full
                    bounds += [lo, hi]
            vshape = shape_of(v)
            b.stores.append(dict(r0=bounds[0], r1=bounds[1], c0=bounds[2], c1=bounds[3], val=v, node=st,
                                 vshape=vshape))
            self.blocks[b.uid] = b
            put(b)
            return
        # D[a + k, b + k] = vals[k] (two index arrays walking a diagonal together): a diagonal block
        if len(idx) == 2 and all(it[0] == "fancy" for it in idx) and isinstance(base, (Arr, Blocks)) \
                and (isinstance(base, Blocks) or (base.ndim == 2 and (all(sp.concrete is None for sp, _ in base.axes) or
                                                                      not sym.free_ivars(base.elem)))):
            b = self._paired_diag_store(base, idx, v, st)
            if b is not None:
                s0 = b.stores[0] if len(b.stores) == 1 else None
                if (name or holder) and s0 is not None and isinstance(s0["val"], DiagMat) and s0["r0"] == sym.ZERO and s0["c0"] == sym.ZERO \
                        and sym.equal(s0["r1"], b.shape[0]) and sym.equal(s0["c1"], b.shape[1]) and s0["val"].off == b.base:
                    # the walk covers the whole main diagonal of a square array that held one value everywhere: that is a
                    # diagonal matrix (np.full + fill_diagonal written with index arrays)
                    put(s0["val"])
                    return
                self.blocks[b.uid] = b
                put(b)
                return
        if isinstance(base, Blocks):
            base.opaque_stores = getattr(base, "opaque_stores", []) + [st]
        # column / masked / element stores on an array: rebuild the generic element
        if isinstance(base, Arr):
            nv = self._store_into_arr(base, idx, v, st)
            if nv is not None:
                # numpy stores are in place: every alias of this array object sees the new contents
                base.axes, base.elem = nv.axes, nv.elem
                return
        u = self.unknown("subscript-store", st, (generic_elem(base), generic_elem(v)))
        if name or holder is not None:
            put(u)
        elif isinstance(base, Arr):
            # a store through an attribute / element that is not modelled: the array object (and every alias) now holds
            # something unknown — never silently the old contents
            base.elem = u.e
        else:
            self.lose("a subscript store on an object reached through an attribute or element was not modelled", st)
        return

    def _paired_diag_store(self, base, idx, v: Val, st):
        ra, ca = idx[0][1], idx[1][1]
        if not (isinstance(ra, Arr) and isinstance(ca, Arr) and ra.ndim == 1 and ca.ndim == 1):
            return None
        (rsp, riv), (csp, civ) = ra.axes[0], ca.axes[0]
        if not rsp.same_size(csp):
            return None
        a = sym.sub(ra.elem, sym.IV(riv))
        c = sym.sub(ca.elem, sym.IV(civ))
        if riv in sym.free_ivars(a) or civ in sym.free_ivars(c) or sym.free_ivars(a) or sym.free_ivars(c):
            return None
        n = rsp.size
        if isinstance(v, Sc) and v.e is not None:
            on = v.e
        else:
            va = arrays.to_arr(v) if not isinstance(v, Arr) else v
            if not (isinstance(va, Arr) and va.ndim == 1 and va.axes[0][0].same_size(rsp)):
                return None
            on = sym.subst_ivar(va.elem, va.axes[0][1], (riv, 0))
        if isinstance(base, Arr):
            b = Blocks((base.axes[0][0].size, base.axes[1][0].size), base.elem, [], base.uid)
        else:
            b = base
        r0, r1, c0, c1 = a, sym.add(a, n), c, sym.add(c, n)

        def le(x, y):  # x <= y for every non-negative value of the sizes
            terms, const = sym.lin_parts(sym.sub(y, x))
            return const >= 0 and all(k >= 0 and t[0] == "size" for t, k in terms.items())
        off = b.base
        for s0 in b.stores:
            if not (le(s0["r1"], r0) or le(r1, s0["r0"]) or le(s0["c1"], c0) or le(c1, s0["c0"])):
                off = sym.Opq("earlier-contents", (), fresh("u"))  # the cells off the walked diagonal keep what was there
        if sym.free_ivars(off):
            return None
        b.stores.append(dict(r0=r0, r1=r1, c0=c0, c1=c1, val=DiagMat(n, riv, on, off), node=st, vshape=(n, n)))
        return b

    def _store_into_arr(self, base: Arr, idx, v: Val, st) -> Optional[Val]:
        if len(idx) == base.ndim >= 2 and all(it[0] == "fancy" for it in idx):
            # A[rows, cols] = values with index arrays of known integers: one cell after the other (later wins)
            poss = [arrays.concrete_positions(it) for it in idx]
            if all(p is not None for p in poss) and len({len(p) for p in poss}) == 1:
                L = len(poss[0])
                va = v if isinstance(v, (Sc, Arr)) else arrays.to_arr(v)
                cur = base
                for t in range(L):
                    if isinstance(va, Sc):
                        vt = va
                    elif isinstance(va, Arr) and va.ndim == 1 and va.axes[0][0].concrete in (L, 1):
                        vt = Sc(sym.subst_ivar(va.elem, va.axes[0][1], t if va.axes[0][0].concrete == L else 0))
                    else:
                        return None
                    nxt = self._store_into_arr(cur, [("int", p[t]) for p in poss], vt, st)
                    if nxt is None:
                        return None
                    cur = nxt
                return cur
        n_real = len([i for i in idx if i[0] != "new"])
        items = [i for i in idx if i[0] != "new"] + [("full",)] * (base.ndim - n_real)
        if len(items) != base.ndim:
            return None
        e_old = base.elem
        if isinstance(v, Sc):
            ve, vaxes = v.e, []
        else:
            a = arrays.to_arr(v) if not isinstance(v, Arr) else v
            if not isinstance(a, Arr):
                return None
            a = a.renamed()
            ve, vaxes = a.elem, list(a.axes)
        # axes of the indexed region, in order
        region = []
        for (sp, iv), it in zip(base.axes, items):
            if it[0] == "full":
                region.append(("full", sp, iv, None))
            elif it[0] == "int" and sp.concrete is not None:
                region.append(("int", sp, iv, [it[1] % sp.concrete]))
            elif it[0] == "slice" and sp.concrete is not None and all(
                    b_ is None or (b_[0] == "num" and float(b_[1]).is_integer()) for b_ in it[1:4]):
                K = list(range(sp.concrete))[slice(None if it[1] is None else int(it[1][1]),
                                                   None if it[2] is None else int(it[2][1]),
                                                   None if it[3] is None else int(it[3][1]))]
                region.append(("slice", sp, iv, K))
            elif it[0] == "mask" and isinstance(it[1], Arr) and it[1].ndim == 1:
                region.append(("mask", sp, iv, it[1]))
            elif it[0] == "mask" and isinstance(it[1], Arr) and it[1].ndim == base.ndim and len(idx) == 1:
                me = it[1].elem
                for (s0, i0), (s1, i1) in zip(base.axes, it[1].axes):
                    me = sym.subst_ivar(me, i1, (i0, 0))
                if vaxes:
                    return None
                return Arr(base.axes, sym.ITE(me, ve, e_old), base.kind, base.uid)
            elif it[0] == "expr" and it[1][0] == "iv":
                region.append(("pos", sp, iv, it[1]))
            else:
                return None
        # value axes align (from the right) with the region axes that keep a dimension
        keep = [r for r in region if r[0] in ("full", "slice", "mask")]
        if len(vaxes) > len(keep):
            return None
        pairs = list(zip(reversed(keep), reversed(vaxes)))
        vmap = {}
        for r, (vsp, viv) in pairs:
            kind, sp, iv, data = r
            if kind == "full":
                if not vsp.same_size(sp) and vsp.concrete != 1:
                    raise ShapeError(f"could not broadcast value axis of size {sym.show(vsp.size)} into axis of size "
                                     f"{sym.show(sp.size)}")
                ve = sym.subst_ivar(ve, viv, (iv, 0) if vsp.concrete != 1 or sp.concrete == 1 else 0)
            elif kind == "slice":
                if vsp.concrete not in (len(data), 1):
                    raise ShapeError(f"could not broadcast {vsp.concrete} values into {len(data)} positions")
                vmap[iv] = (viv, vsp.concrete)
            elif kind == "mask":
                # A[m] = B[m]: the values were selected by the same mask on an axis of the same length, so the k-th selected
                # value lands on the k-th selected position — position-wise where(m, B, A)
                msp, miv = data.axes[0]
                mcond = sym.subst_ivar(data.elem, miv, (iv, 0))
                if vsp.key[0] == "sub" and vsp.parent is not None and vsp.parent.same_size(sp) \
                        and any(sym.subst_ivar(vsp.key[2], x_, (iv, 0)) == mcond for x_ in sorted(sym.free_ivars(vsp.key[2]))):
                    ve = sym.subst_ivar(ve, viv, (iv, 0))
                else:
                    return None  # masked assignment of an array of values selected some other way is not modelled
        cond = sym.TRUE
        for kind, sp, iv, data in region:
            if kind == "mask":
                msp, miv = data.axes[0]
                if not msp.same_size(sp):
                    raise ShapeError(f"boolean index of size {sym.show(msp.size)} on axis of size {sym.show(sp.size)}")
                cond = sym.And(cond, sym.subst_ivar(data.elem, miv, (iv, 0)))
            elif kind == "pos":
                ve = sym.subst_ivar(ve, data[1], (iv, -data[2]))
        conc = [(iv, data, sp.concrete) for kind, sp, iv, data in region if kind in ("int", "slice")]

        def build(level, ve_cur, old_cur):
            if level == len(conc):
                return sym.ITE(cond, ve_cur, old_cur) if cond != sym.TRUE else ve_cur
            iv, K, n = conc[level]
            alts = []
            for j in range(n):
                oj = sym.subst_ivar(old_cur, iv, j)
                if j in K:
                    vj = ve_cur
                    if iv in vmap:
                        viv, vn = vmap[iv]
                        vj = sym.subst_ivar(vj, viv, K.index(j) if vn != 1 else 0)
                    alts.append(build(level + 1, vj, oj))
                else:
                    alts.append(oj)
            return sym.Sel(iv, tuple(alts))

        return Arr(base.axes, build(0, ve, e_old), base.kind, base.uid)

    def _store_uncond(self, st) -> bool:
        return True

    def _value_elem(self, v: Val, kept_axes) -> Optional[Expr]:
        if isinstance(v, Sc):
            return v.e
        a = arrays.to_arr(v) if not isinstance(v, Arr) else v
        if isinstance(a, Arr):
            if a.ndim != len(kept_axes):
                return None
            e = a.elem
            for (sp0, iv0), (sp1, iv1) in zip(kept_axes, a.axes):
                if not sp0.same_size(sp1) and sp1.concrete != 1:
                    raise ShapeError(f"could not broadcast value of size {sym.show(sp1.size)} into axis of size "
                                     f"{sym.show(sp0.size)}")
                e = sym.subst_ivar(e, iv1, (iv0, 0))
            return e
        return None

    # ------------------------------------------------------------------ expressions
    def index_items(self, sl, env) -> list:
        elts = sl.elts if isinstance(sl, ast.Tuple) else [sl]
        out = []
        for x in elts:
            if isinstance(x, ast.Slice):
                lo = self._scalar(self.eval(x.lower, env)) if x.lower is not None else None
                hi = self._scalar(self.eval(x.upper, env)) if x.upper is not None else None
                stp = self._scalar(self.eval(x.step, env)) if x.step is not None else None
                if lo is None and hi is None and stp is None:
                    out.append(("full",))
                else:
                    out.append(("slice", lo, hi, stp))
                continue
            if isinstance(x, ast.Constant) and x.value is None:
                out.append(("new",))
                continue
            if isinstance(x, ast.Constant) and x.value is Ellipsis:
                out.append(("ellipsis",))
                continue
            v = self.eval(x, env)
            if isinstance(v, Seq) and v.kind == "tuple" and len(elts) == 1 and len(v.items) >= 2 \
                    and any(isinstance(y, ObjV) and y.tag == "slice" for y in v.items) \
                    and all((isinstance(y, ObjV) and y.tag == "slice" and len(y.attrs.get("items") or ()) == 1) or
                            (isinstance(y, Sc) and y.e is not None and y.e[0] not in ("cmp", "bool", "and", "or", "not"))
                            for y in v.items):
                # A[t] with t a tuple of slice objects / integers held in a variable or returned by a call
                for y in v.items:
                    if isinstance(y, ObjV):
                        out.extend(y.attrs["items"])
                    elif y.e[0] == "num" and float(y.e[1]).is_integer():
                        out.append(("int", int(y.e[1])))
                    else:
                        out.append(("expr", y.e))
                continue
            if isinstance(v, Seq) and v.kind == "tuple" and len(elts) == 1 and len(v.items) >= 2 \
                    and all((isinstance(y, Arr) and not _is_bool(y.elem)) or
                            (isinstance(y, Seq) and y.items and all(isinstance(z, Sc) for z in y.items)) for y in v.items):
                # A[idx] with idx a tuple of index arrays (np.diag_indices, np.nonzero, ...): the same as A[idx[0], idx[1]]
                out.extend(("fancy", y) for y in v.items)
                continue
            if isinstance(v, ObjV) and v.tag == "slice" and v.attrs.get("items"):
                out.extend(v.attrs["items"])   # a slice object held in a variable
                continue
            if isinstance(v, NoneV):
                out.append(("new",))
            elif isinstance(v, StrV):
                out.append(("str", v.s, v.arg))
            elif isinstance(v, Sc) and v.e is None:
                out.append(("new",))
            elif isinstance(v, Sc):
                e = v.e
                if e[0] == "num" and float(e[1]).is_integer():
                    out.append(("int", int(e[1])))
                elif e[0] in ("cmp", "bool", "and", "or", "not"):
                    out.append(("mask", v))
                else:
                    out.append(("expr", e))
            elif isinstance(v, Arr):
                if _is_bool(v.elem):
                    out.append(("mask", v))
                else:
                    out.append(("fancy", v))
            elif isinstance(v, Bag) and _is_bool(v.elem):
                out.append(("mask", v))
            else:
                out.append(("fancy", v))
        return out

    def _scalar(self, v: Val) -> Optional[Expr]:
        if isinstance(v, Sc):
            return v.e
        if isinstance(v, NoneV):
            return None
        return sym.Opq("unmodelled:non-scalar-bound", (generic_elem(v),), fresh("u"))

    def _check_budget(self, node):
        import time as _time
        if getattr(self, "_t0", None) is None:
            self._t0 = _time.monotonic()
        elif _time.monotonic() - self._t0 > float(self.cfg.flags.get("time_budget", 45.0)):
            where = " > ".join(f.fi.name for f in self.frames[-4:])
            raise AnalysisError(f"symbolic execution exceeded its time budget in {where} "
                                f"(line {getattr(node, 'lineno', '?')}): the construct is not decided")

    def eval(self, n, env: dict) -> Val:
        self._n_eval = getattr(self, "_n_eval", 0) + 1
        if self._n_eval % 500 == 0:
            self._check_budget(n)
        try:
            return self._eval(n, env)
        except ShapeError as ex:
            self.event("shape-error", n, message=str(ex))
            return self.unknown("shape-error", n)

    def lookup(self, name: str, env: dict, node) -> Val:
        if name in env:
            return env[name]
        # closures
        fr = self.frames[-1] if self.frames else None
        ce = fr.parent_env if fr else None
        if ce is not None and name in ce:
            return ce[name]
        m = fr.fi.module if fr else None
        if m is None:
            return self.unknown("name:" + name, node)
        tgt = self.p.resolve_name(m, name)
        if tgt is None:
            return self.unknown("name:" + name, node)
        return self.global_value(self.p.canonical(tgt), node)

    def global_value(self, tgt: str, node) -> Val:
        if tgt in self.p.functions:
            f_ = self.p.functions[tgt]
            if f_.kind == "classmethod" and f_.cls is not None:
                owner = tgt.rsplit(".", 1)[0]
                if owner in self.p.classes:
                    return FuncV("repo", tgt, bound_self=FuncV("class", owner))
            return FuncV("repo", tgt)
        if tgt in self.p.classes:
            return FuncV("class", tgt)
        if tgt in self.p.modules:
            return ModV(tgt)
        from . import prims
        if tgt in prims.CONSTANTS:
            return Sc(prims.CONSTANTS[tgt])
        if tgt in self.prims:
            return FuncV("prim", tgt)
        mod, _, name = tgt.rpartition(".")
        m = self.p.modules.get(mod)
        if m is not None and name in m.globals:
            if tgt in _chunk_constants(self.p):
                # a module-level integer used as the step of a strided range (a block size for chunked processing): the
                # result must not depend on its value, so it is followed as a positive integer symbol — small diagrams
                # then span several blocks when the derived expressions are evaluated
                return Sc(sym.Sym("$chunk:" + name))
            fr_save = self.frames
            return self.eval(m.globals[name], {})
        mod2, _, name2 = mod.rpartition(".")
        m2 = self.p.modules.get(mod2)
        if m2 is not None and name2 in m2.globals and isinstance(m2.globals[name2], ast.Call):
            # an attribute of an object built at module level (`logger = logging.getLogger(__name__)`; `logger.debug`)
            holder = self.global_value(mod, node)
            if isinstance(holder, ObjV) and holder.cls is None and holder.tag:
                return self.attribute(holder, name, node, {})
            if isinstance(holder, (Arr, Seq, Blocks, DiagMat)):
                return self.attribute(holder, name, node, {})   # `_R.T`, `_TABLE.shape` of a module-level array
        if tgt.split(".")[0] in ("numpy", "scipy", "sklearn", "matplotlib", "builtins", "warnings", "itertools",
                                 "operator", "copy", "bisect", "hopcroftkarp", "joblib", "math", "typing", "numbers",
                                 "functools", "collections", "dataclasses", "logging", "time", "inspect", "contextlib"):
            if tgt in prims.TYPES:
                return FuncV("prim", tgt)
            return FuncV("prim", tgt)
        return self.unknown("global:" + tgt, node)

    def _eval(self, n, env: dict) -> Val:
        if n is None:
            return NoneV()
        if isinstance(n, ast.Constant):
            v = n.value
            if v is None:
                return NoneV()
            if isinstance(v, bool):
                return Sc(sym.Bool(v))
            if isinstance(v, (int, float)):
                return Sc(sym.Num(v))
            if isinstance(v, str):
                return StrV(v)
            return self.unknown("constant", n)
        if isinstance(n, ast.Name):
            v = self.lookup(n.id, env, n)
            # an optional value used as a value: the None case would raise, so the payload is meant
            return v.val if isinstance(v, Opt) else v
        if isinstance(n, ast.Attribute):
            fr = self.frames[-1] if self.frames else None
            if fr is not None:
                tgt = self.p.resolve(fr.fi.module, n, set(env) | set(fr.parent_env or ()))
                if tgt is not None:
                    return self.global_value(tgt, n)
            base = self.eval(n.value, env)
            return self.attribute(base, n.attr, n, env)
        if isinstance(n, ast.Subscript):
            base = self.eval(n.value, env)
            idx = self.index_items(n.slice, env)
            return _unbox_str(self.subscript(base, idx, n))
        if isinstance(n, ast.Call):
            return self.call(n, env)
        if isinstance(n, ast.BinOp):
            return self.binary(n.op, self.eval(n.left, env), self.eval(n.right, env), n)
        if isinstance(n, ast.UnaryOp):
            v = self.eval(n.operand, env)
            if isinstance(n.op, ast.USub):
                return arrays.unop(sym.neg, v)
            if isinstance(n.op, ast.UAdd):
                return v
            if isinstance(n.op, ast.Not):
                self.note_truth(v, n.operand)
                return Sc(sym.Not(self.truth(v)))
            if isinstance(n.op, ast.Invert):
                return arrays.unop(sym.Not, v)
        if isinstance(n, ast.Compare):
            left = self._eval_raw(n.left, env)
            out = None
            for op, cn in zip(n.ops, n.comparators):
                right = self._eval_raw(cn, env)
                c = self.compare(op, left, right, n)
                out = c if out is None else arrays.binop(lambda a, b: sym.And(a, b), out, c)
                left = right
            return out
        if isinstance(n, ast.BoolOp):
            # short-circuit: operands after one that decides the outcome are not evaluated (they may not even be defined:
            # `len(a) == 0 or a[0][0] > ...`)
            vals = []
            for vn in n.values:
                v = self.eval(vn, env)
                vals.append(v)
                if isinstance(v, Sc) and v.e is not None and _is_bool(v.e):
                    d_ = self.decide(v.e)
                    if (isinstance(n.op, ast.Or) and d_ is True) or (isinstance(n.op, ast.And) and d_ is False):
                        if all(isinstance(x, Sc) and x.e is not None and _is_bool(x.e) for x in vals):
                            return Sc(sym.TRUE if isinstance(n.op, ast.Or) else sym.FALSE)
                        break
            if len(vals) < len(n.values):
                # decided by a later operand after value-like ones: fall back to evaluating everything
                vals = [self.eval(v, env) for v in n.values]
            if all(isinstance(v, Sc) and _is_bool(v.e) for v in vals):
                f = sym.And if isinstance(n.op, ast.And) else sym.Or
                return Sc(f(*[v.e for v in vals]))
            # value-returning and/or: `ax or plt.gca()`
            out = vals[-1]
            for v, vn in zip(reversed(vals[:-1]), reversed(n.values[:-1])):
                self.note_truth(v, vn)
                t = self.truth(v)
                d = self.decide(t)
                if isinstance(n.op, ast.Or):
                    out = v if d is True else (out if d is False else self.join_cond(t, v, out))
                else:
                    out = out if d is True else (v if d is False else self.join_cond(t, out, v))
            return out
        if isinstance(n, ast.NamedExpr) and isinstance(n.target, ast.Name):
            # `(x := e)`: binds in the enclosing function scope and is the value itself
            v = self._eval_raw(n.value, env)
            env[n.target.id] = v
            return v.val if isinstance(v, Opt) else v
        if isinstance(n, ast.IfExp):
            tv_ = self.eval(n.test, env)
            self.note_truth(tv_, n.test)
            c = self.truth(tv_)
            d = self.decide(c)
            if d is True:
                return self.eval(n.body, env)
            if d is False:
                return self.eval(n.orelse, env)
            k = len(self.path)
            self.path.append(c)
            a = self.eval(n.body, env)
            del self.path[k:]
            self.path.append(sym.Not(c))
            b = self.eval(n.orelse, env)
            del self.path[k:]
            return self.join_cond(c, a, b)
        if isinstance(n, (ast.List, ast.Tuple)):
            items = []
            parts = []      # [*a, x, *b] with a part of unknown length: list(a) + [x] + list(b)
            for e in n.elts:
                if isinstance(e, ast.Starred):
                    v = self.eval(e.value, env)
                    if isinstance(v, Seq):
                        items.extend(v.items)
                    elif isinstance(n, ast.List) and isinstance(v, (Arr, Concat)):
                        self.log.append({"kind": "call", "target": "builtins.list", "node": e})
                        try:
                            lv = self.prims["builtins.list"](self, e, [v], {})
                        finally:
                            self.log.pop()
                        if isinstance(lv, Seq):
                            items.extend(lv.items)
                        elif _is_pylist(lv):
                            if items:
                                parts.append(Seq(items, "list"))
                                items = []
                            parts.append(lv)
                        else:
                            items.append(self.unknown("starred", e))
                    else:
                        items.append(self.unknown("starred", e))
                else:
                    items.append(self.eval(e, env))
            if parts:
                if items:
                    parts.append(Seq(items, "list"))
                out = parts[0]
                for q in parts[1:]:
                    out = self.binary(ast.Add(), out, q, n)
                return out
            return Seq(items, "list" if isinstance(n, ast.List) else "tuple")
        if isinstance(n, ast.Dict):
            d = {}
            for k, v in zip(n.keys, n.values):
                kv = self.eval(k, env) if k is not None else None
                vv = self.eval(v, env)
                if isinstance(kv, StrV):
                    d[kv.s] = vv
                elif isinstance(kv, Sc) and kv.e[0] == "num":
                    d[kv.e[1]] = vv
                elif isinstance(kv, Sc) and kv.e[0] == "bool":
                    d["$True" if kv.e[1] else "$False"] = vv     # a table keyed by the outcome of a test
                elif kv is None and isinstance(vv, DictV):
                    d.update(vv.d)
                else:
                    return self.unknown("dict-key", n)
            return DictV(d)
        if isinstance(n, (ast.ListComp, ast.GeneratorExp, ast.SetComp)):
            return self.comprehension(n, env)
        if isinstance(n, ast.DictComp):
            if len(n.generators) != 1 or n.generators[0].ifs:
                return self.unknown("dictcomp", n)
            g = n.generators[0]
            it = self.eval(g.iter, env)
            sp, iv, elem = self.iteration(it, g.iter)
            sub = dict(env)
            if sp is None:
                d = {}
                for item in elem:
                    self.assign(g.target, item, sub, n)
                    kv = self.eval(n.key, sub)
                    vv = self.eval(n.value, sub)
                    if isinstance(kv, StrV):
                        d[kv.s] = vv
                    elif isinstance(kv, Sc) and kv.e[0] == "num":
                        d[kv.e[1]] = vv
                    else:
                        return self.unknown("dictcomp-key", n)
                return DictV(d)
            self.assign(g.target, elem(), sub, n)
            kv = self.eval(n.key, sub)
            vv = self.eval(n.value, sub)
            dv = DictV({}, generic=vv)
            dv.key_kind = "str" if isinstance(kv, StrV) else "other"
            if isinstance(kv, Sc) and isinstance(vv, Sc) and kv.e is not None and vv.e is not None and iv is not None:
                dv.keymap = (kv.e, vv.e, iv, sp)
            self.event("store", n, base=dv, idx=[("str", "<formatted>", kv.arg)] if isinstance(kv, StrV) else [("expr", generic_elem(kv))],
                       value=vv, target=None, comp_ivar=iv, comp_space=sp)
            return dv
        if isinstance(n, ast.Lambda):
            fr = self.frames[-1]
            outer_ = self.frames[-1].parent_env if self.frames else None
            fv_ = FuncV("lambda", n, closure=_ChainEnv(env, outer_) if outer_ is not None else env)
            fv_.home = self.frames[-1].fi if self.frames else None
            fv_.default_vals = self._bind_defaults(n.args, env)
            return fv_
        if isinstance(n, ast.JoinedStr):
            if len(n.values) == 1 and isinstance(n.values[0], ast.FormattedValue) and n.values[0].format_spec is None \
                    and n.values[0].conversion in (-1, 115):
                v = self.eval(n.values[0].value, env)
                if isinstance(v, Sc) and v.e is not None:
                    return StrV("<f-string>", arg=v.e)
            # several pieces: the literal text and the values rendered into it are kept (a label that names a depth, a title)
            parts, vals_ = [], []
            for piece in n.values:
                if isinstance(piece, ast.Constant):
                    parts.append(("lit", str(piece.value)))
                elif isinstance(piece, ast.FormattedValue):
                    v = self.eval(piece.value, env)
                    e_ = v.e if isinstance(v, Sc) and v.e is not None else None
                    parts.append(("val", e_))
                    vals_.append(e_)
            out_ = StrV("<f-string>")
            out_.parts = parts
            return out_
        if isinstance(n, ast.Set):
            return Bag(sym.Choice([generic_elem(self.eval(e, env)) for e in n.elts]) if n.elts else sym.Opq("empty", ()),
                       None, False, None)
        if isinstance(n, ast.Starred):
            return self.eval(n.value, env)
        return self.unknown("expr-" + type(n).__name__, n)

    def comprehension(self, n, env: dict) -> Val:
        if len(n.generators) >= 2 and isinstance(n, (ast.ListComp, ast.GeneratorExp)) and not n.generators[0].ifs:
            # [e for a in A for b in B(a)] over a known outer sequence: the inner lists, one after the other
            g0 = n.generators[0]
            it0 = self.eval(g0.iter, env)
            if isinstance(it0, ObjV) and it0.tag == "lazy-map":
                from .prims import _realise_map
                items0 = _realise_map(self, it0, g0.iter)
                it0 = Seq(items0, "list") if items0 is not None else it0
            sp0, iv0, elem0 = self.iteration(it0, g0.iter)
            if sp0 is None:
                inner = ast.copy_location(ast.ListComp(elt=n.elt, generators=n.generators[1:]), n)
                out = []
                ok = True
                for item in elem0:
                    sub = dict(env)
                    self.assign(g0.target, item, sub, n)
                    r = self.comprehension(inner, sub)
                    if isinstance(r, Seq):
                        out.extend(r.items)
                    else:
                        ok = False
                        break
                if ok:
                    return Seq(out, "list")
        if len(n.generators) != 1:
            return self.unknown("nested-comprehension", n)
        g = n.generators[0]
        it = self.eval(g.iter, env)
        if isinstance(it, Concat) and isinstance(n, (ast.ListComp, ast.GeneratorExp)) and not g.ifs and len(it.parts) >= 2 \
                and "__concat_part" not in env:
            # [f(x) for x in a + b] is [f(x) for x in a] + [f(x) for x in b]: the parts may hold items of different make
            # (rows of an array, python pairs), which one generic item would blur
            tmp = ast.copy_location(ast.Name("__concat_part", ast.Load()), g.iter)
            g2 = ast.comprehension(target=g.target, iter=tmp, ifs=[], is_async=0)
            n2 = ast.copy_location(ast.ListComp(elt=n.elt, generators=[g2]), n)
            outs = []
            for part in it.parts:
                sub2 = dict(env)
                sub2["__concat_part"] = part
                outs.append(self.comprehension(n2, sub2))
            if all(_is_pylist(o) for o in outs):
                acc = outs[0]
                for o in outs[1:]:
                    acc = self.binary(ast.Add(), acc, o, n)
                return acc
        sp, iv, elem = self.iteration(it, g.iter)
        sub = dict(env)
        if sp is None:
            items = []
            pending = []
            for item in elem:
                self.assign(g.target, item, sub, n)
                keep = True
                open_ = []
                for c in g.ifs:
                    tv_ = self.eval(c, sub)
                    self.note_truth(tv_, c)
                    tc = self.truth(tv_)
                    d = self.decide(tc)
                    if d is False:
                        keep = False
                    elif d is None:
                        open_.append(tc)
                if keep:
                    k0 = len(self.path)
                    self.path.extend(open_)
                    items.append(self.eval(n.elt, sub))
                    del self.path[k0:]
                    pending.append(sym.And(*open_) if open_ else sym.TRUE)
            if any(c != sym.TRUE for c in pending):
                if isinstance(n, ast.ListComp):
                    return CondSeq(items, pending)
                return self.unknown("filtered-comprehension", n)
            if isinstance(n, ast.SetComp):
                if all(isinstance(x, Sc) and x.e is not None for x in items):
                    # a set of known scalars: membership is equality with one of them
                    return PSet(sym.Or(*[sym.Cmp("==", sym.IV(PSet.VAR), x.e) for x in items]) if items else sym.FALSE)
                return Bag(sym.Choice([generic_elem(x) for x in items]) if items else sym.Opq("empty", ()), None, False, None)
            return Seq(items, "list")
        self.assign(g.target, elem(), sub, n)
        conds = [self.truth(self.eval(c, sub)) for c in g.ifs]
        k = len(self.path)
        for c in conds:
            self.event("branch", c and n, cond=c, comprehension=True)
            self.path.append(c)
        v = self.eval(n.elt, sub)
        del self.path[k:]
        if isinstance(n, ast.SetComp) and isinstance(n.elt, ast.Name) and isinstance(g.target, ast.Name) \
                and n.elt.id == g.target.id and isinstance(it, ObjV) and it.tag == "range" and iv is not None \
                and it.attrs["lo"].e == sym.ZERO:
            # {j for j in range(n) if c(j)}: the set of positions below n on which c holds
            e_ = sym.IV(PSet.VAR)
            pred = sym.And(sym.Cmp(">=", e_, sym.ZERO), sym.Cmp("<", e_, it.attrs["hi"].e),
                           *[sym.subst_ivar(c, iv, (PSet.VAR, 0)) for c in conds])
            return PSet(pred)
        if isinstance(n, ast.SetComp) and isinstance(n.elt, ast.Name) and isinstance(g.target, ast.Name) \
                and n.elt.id == g.target.id and iv is not None:
            # {j for j in positions if c(j)}: membership predicate of the iterable, narrowed by the filters
            from .prims import _pset_of
            p0 = _pset_of(self, it)
            ev_ = elem()
            if p0 is not None and isinstance(ev_, Sc) and ev_.e == sym.IV(iv):
                return PSet(sym.And(p0, *[sym.subst_ivar(c, iv, (PSet.VAR, 0)) for c in conds]))
        conds = [c for c in conds if self.decide(c) is not True]
        if conds or isinstance(n, ast.SetComp):
            cond = sym.And(*conds) if conds else sym.TRUE
            return Bag(generic_elem(v), None, False, None) if not conds else \
                Bag(generic_elem(v), sym.Opq("count", (cond,), fresh("n")), False, None)
        return self._list_from_items(v, sp, iv)

    # ------------------------------------------------------------------ operators
    def binary(self, op, a: Val, b: Val, node) -> Val:
        # python list algebra
        if isinstance(op, ast.Add) and _is_pylist(a) and _is_pylist(b):
            if isinstance(a, Seq) and isinstance(b, Seq):
                return Seq(a.items + b.items, a.kind)
            return Concat(_parts(a) + _parts(b))
        if isinstance(op, ast.Mult) and (_is_pylist(a) or _is_pylist(b)):
            lst, k = (a, b) if _is_pylist(a) else (b, a)
            if isinstance(lst, Seq) and isinstance(k, Sc) and k.e[0] == "num" and float(k.e[1]).is_integer():
                return Seq(lst.items * int(k.e[1]), lst.kind)
            return self.unknown("list-repeat", node)
        if isinstance(op, ast.Mod) and isinstance(a, StrV):
            return StrV("<formatted>")
        if isinstance(op, ast.Add) and isinstance(a, StrV) and isinstance(b, StrV):
            return StrV(a.s + b.s)
        # operator overloading on repo objects
        for x, y, names in ((a, b, _DUNDER), (b, a, _RDUNDER)):
            if isinstance(x, ObjV) and x.cls and type(op) in names:
                c = self.p.classes.get(x.cls)
                m = c.lookup(names[type(op)], self.p) if c else None
                if m is not None:
                    return self.call_function(m, [x, y], {}, node)
        f = {ast.Add: sym.add, ast.Sub: sym.sub, ast.Mult: sym.mul, ast.Div: sym.div, ast.Pow: sym.power,
             ast.FloorDiv: lambda x, y: sym.fn("floor", sym.div(x, y)),
             ast.Mod: lambda x, y: sym.Opq("mod", (x, y), None),
             ast.BitAnd: lambda x, y: sym.And(x, y), ast.BitOr: lambda x, y: sym.Or(x, y)}.get(type(op))
        if isinstance(op, ast.MatMult) and not isinstance(a, Sc) and not isinstance(b, Sc):
            from . import prims
            A_, B_ = (x if isinstance(x, Arr) else arrays.to_arr(x) for x in (a, b))
            if isinstance(A_, Arr) and isinstance(B_, Arr) and A_.ndim <= 2 and B_.ndim <= 2:
                return prims.dot(self, node, a, b)   # `@` on vectors / matrices is numpy.dot
        if f is None:
            return self.unknown("binop-" + type(op).__name__, node)
        if isinstance(op, ast.Pow):
            self.event("pow", node, base=a, exponent=b)
        if isinstance(op, (ast.Div, ast.FloorDiv)):
            self.event("div", node, num=a, den=b)
        return arrays.binop(f, a, b)

    def _eval_raw(self, n, env) -> Val:
        """like eval, but a plain name keeps its optional wrapper (for `x is None` tests)"""
        if isinstance(n, ast.Name):
            return self.lookup(n.id, env, n)
        if isinstance(n, ast.NamedExpr) and isinstance(n.target, ast.Name):
            v = self._eval_raw(n.value, env)
            env[n.target.id] = v
            return v
        return self.eval(n, env)

    def compare(self, op, a: Val, b: Val, node) -> Val:
        if isinstance(op, (ast.Is, ast.IsNot, ast.Eq, ast.NotEq)) and (
                (isinstance(a, Opt) and isinstance(b, NoneV)) or (isinstance(b, Opt) and isinstance(a, NoneV))):
            o = a if isinstance(a, Opt) else b
            return Sc(o.none_if if isinstance(op, (ast.Is, ast.Eq)) else sym.Not(o.none_if))
        if isinstance(a, Opt):
            a = a.val
        if isinstance(b, Opt):
            b = b.val
        # the dtype of an array of numbers is not `object` (object arrays — arrays OF diagrams — are not values of this evaluator)
        if isinstance(op, (ast.Eq, ast.NotEq)):
            for x_, y_ in ((a, b), (b, a)):
                if isinstance(x_, ObjV) and x_.tag == "dtype" and (
                        (isinstance(y_, FuncV) and y_.target in ("builtins.object", "numpy.object_"))
                        or (isinstance(y_, StrV) and y_.s in ("object", "O"))):
                    return Sc(sym.Bool(isinstance(op, ast.NotEq)))
        # rich comparison methods of the package's own classes: a == b is a.__eq__(b), a != b its negation unless __ne__ exists,
        # x in obj is obj.__contains__(x), x in [objects] is `is` or == against every item
        if isinstance(op, (ast.Eq, ast.NotEq)) and isinstance(a, ObjV) and a.cls and not isinstance(b, NoneV):
            c_ = self.p.classes.get(a.cls)
            m_ = c_.lookup("__ne__" if isinstance(op, ast.NotEq) else "__eq__", self.p) if c_ else None
            neg = False
            if m_ is None and isinstance(op, ast.NotEq) and c_ is not None:
                m_, neg = c_.lookup("__eq__", self.p), True
            if m_ is not None:
                if a is b and not neg and isinstance(op, ast.Eq) and False:
                    return Sc(sym.TRUE)
                r_ = self.call_function(m_, [a, b], {}, node)
                t_ = self.truth(r_)
                return Sc(sym.Not(t_) if neg else t_)
        if isinstance(op, (ast.In, ast.NotIn)) and isinstance(b, ObjV) and b.cls:
            c_ = self.p.classes.get(b.cls)
            m_ = c_.lookup("__contains__", self.p) if c_ else None
            if m_ is not None:
                t_ = self.truth(self.call_function(m_, [b, a], {}, node))
                return Sc(t_ if isinstance(op, ast.In) else sym.Not(t_))
        if isinstance(op, (ast.In, ast.NotIn)) and isinstance(a, ObjV) and a.cls and isinstance(b, Seq) \
                and all(isinstance(x, ObjV) for x in b.items):
            c_ = self.p.classes.get(a.cls)
            m_ = c_.lookup("__eq__", self.p) if c_ else None
            if m_ is not None or not b.items:
                parts = []
                for x in b.items:
                    if x is a:
                        parts = [sym.TRUE]
                        break
                    parts.append(self.truth(self.call_function(m_, [x, a], {}, node)))
                t_ = sym.Or(*parts) if parts else sym.FALSE
                d_ = self.decide(t_)
                if d_ is not None:
                    t_ = sym.Bool(d_)
                return Sc(t_ if isinstance(op, ast.In) else sym.Not(t_))
        if isinstance(op, (ast.Is, ast.IsNot)):
            # a value that is "one of these, possibly None" (an item of a list whose entries were merged into one generic
            # element): whether THIS item is None is not known — and which entries are None has been lost with the merge
            for x_, y_ in ((a, b), (b, a)):
                if isinstance(y_, NoneV) and not isinstance(x_, NoneV):
                    ex_ = x_.e if isinstance(x_, Sc) else getattr(x_, "elem", None)
                    if ex_ is not None and any(t_[0] == "opq" and t_[1] == "none" for t_ in sym.walk(ex_)):
                        self.lose("an item of a list that holds None in some places and values in others is tested against None: "
                                  "which places hold None was not kept", node)
                        return Sc(sym.Opq("config", (), fresh("is")))
            same = (isinstance(a, NoneV) and isinstance(b, NoneV))
            known = isinstance(a, (NoneV, Sc, Arr, Seq, StrV, DictV, FuncV, ObjV, Blocks, Bag)) and \
                isinstance(b, (NoneV, Sc, Arr, Seq, StrV, DictV, FuncV, ObjV, Blocks, Bag))
            if isinstance(a, NoneV) != isinstance(b, NoneV) and known:
                return Sc(sym.Bool(isinstance(op, ast.IsNot)))
            if same:
                return Sc(sym.Bool(isinstance(op, ast.Is)))
            if isinstance(a, Sc) and isinstance(b, Sc) and a.e[0] == "bool" and b.e[0] == "bool":
                return Sc(sym.Bool((a.e == b.e) == isinstance(op, ast.Is)))
            if isinstance(a, Sc) and isinstance(b, Sc) and b.e[0] == "bool" and a.e[0] in ("sym",):
                return Sc(sym.Expr(("cmp", "==" if isinstance(op, ast.Is) else "!=", a.e, b.e)))
            return Sc(sym.Opq("config", (), fresh("is")))
        if isinstance(op, (ast.In, ast.NotIn)):
            if isinstance(a, Sc) and a.e is not None and isinstance(b, ObjV) and b.tag == "range" \
                    and isinstance(b.attrs.get("lo"), Sc) and isinstance(b.attrs.get("hi"), Sc):
                # k in range(lo, hi) for an integer k: lo <= k < hi
                c = sym.And(sym.Cmp(">=", a.e, b.attrs["lo"].e), sym.Cmp("<", a.e, b.attrs["hi"].e))
                d = self.decide(c)
                if d is not None:
                    c = sym.Bool(d)
                return Sc(c if isinstance(op, ast.In) else sym.Not(c))
            if isinstance(a, StrV) and isinstance(b, Seq) and all(isinstance(x, StrV) for x in b.items):
                r = a.s in [x.s for x in b.items]
                return Sc(sym.Bool(r if isinstance(op, ast.In) else not r))
            if isinstance(a, StrV) and isinstance(b, DictV) and b.generic is None:
                r = a.s in b.d
                return Sc(sym.Bool(r if isinstance(op, ast.In) else not r))
            if isinstance(a, Sc) and a.e is not None and a.e[0] == "num" and isinstance(b, DictV) and b.generic is None \
                    and all(isinstance(k_, (int, float)) and not isinstance(k_, bool) for k_ in b.d):
                # a known number against the known numeric keys of a dictionary
                r = any(float(k_) == float(a.e[1]) for k_ in b.d)
                return Sc(sym.Bool(r if isinstance(op, ast.In) else not r))
            if isinstance(a, Sc) and a.e is not None and isinstance(b, PSet):
                # membership in a set given by its predicate
                c = sym.subst_ivar_expr(b.pred, PSet.VAR, a.e)
                if c is not None:
                    d = self.decide(c)
                    if d is not None:
                        c = sym.Bool(d)
                    return Sc(c if isinstance(op, ast.In) else sym.Not(c))
            if isinstance(a, Sc) and a.e is not None and isinstance(b, Seq) and all(isinstance(x, Sc) and x.e is not None for x in b.items):
                c = sym.Or(*[sym.Cmp("==", a.e, x.e) for x in b.items]) if b.items else sym.FALSE
                d = self.decide(c)
                if d is not None:
                    c = sym.Bool(d)
                return Sc(c if isinstance(op, ast.In) else sym.Not(c))
            return Sc(sym.Opq("config", (), fresh("in")))
        name = {ast.Lt: "<", ast.LtE: "<=", ast.Gt: ">", ast.GtE: ">=", ast.Eq: "==", ast.NotEq: "!="}.get(type(op))
        if name is None:
            return self.unknown("compare-" + type(op).__name__, node)
        if isinstance(a, StrV) and isinstance(b, StrV):
            return Sc(sym.Bool((a.s == b.s) == (name == "==")))
        if isinstance(a, Seq) and isinstance(b, Seq) and name in ("==", "!="):
            # tuples / lists compare element by element, nested ones too
            def flat(x, y):
                if isinstance(x, Seq) and isinstance(y, Seq):
                    if len(x.items) != len(y.items):
                        return False
                    out_ = []
                    for p_, q_ in zip(x.items, y.items):
                        r_ = flat(p_, q_)
                        if r_ is False or r_ is None:
                            return r_
                        out_ += r_
                    return out_
                if isinstance(x, Sc) and isinstance(y, Sc) and x.e is not None and y.e is not None:
                    return [(x.e, y.e)]
                if isinstance(x, NoneV) and isinstance(y, NoneV):
                    return []
                if isinstance(x, NoneV) != isinstance(y, NoneV) and isinstance(x, (NoneV, Sc, Seq)) and isinstance(y, (NoneV, Sc, Seq)):
                    return False
                return None
            pairs_ = flat(a, b)
            if pairs_ is False:
                return Sc(sym.Bool(name == "!="))
            if pairs_ is not None:
                eq = sym.And(*[sym.Cmp("==", x, y) for x, y in pairs_]) if pairs_ else sym.TRUE
                d = self.decide(eq)
                if d is not None:
                    eq = sym.Bool(d)
                return Sc(eq if name == "==" else sym.Not(eq))
        if isinstance(a, Seq) and isinstance(b, Seq) and name in ("==", "!=") and all(isinstance(x, Sc) for x in a.items + b.items):
            if len(a.items) != len(b.items):
                return Sc(sym.Bool(name == "!="))
            eq = sym.And(*[sym.Cmp("==", x.e, y.e) for x, y in zip(a.items, b.items)])
            d = self.decide(eq)
            if d is not None:
                eq = sym.Bool(d)
            return Sc(eq if name == "==" else sym.Not(eq))
        if isinstance(a, FuncV) and isinstance(b, FuncV) and name in ("==", "!="):
            return Sc(sym.Bool((a.target == b.target) == (name == "==")))
        if isinstance(a, NoneV) or isinstance(b, NoneV):
            both = isinstance(a, NoneV) and isinstance(b, NoneV)
            if name in ("==", "!="):
                return Sc(sym.Bool(both == (name == "==")))
        if isinstance(a, (FuncV, ObjV, StrV)) or isinstance(b, (FuncV, ObjV, StrV)):
            return Sc(sym.Opq("config", (), fresh("cmp")))
        raw = arrays.binop(lambda x, y: sym.Cmp(name, x, y), a, b)
        self.event("compare", node, op=name, lhs=a, rhs=b, result=raw)

        def simp(x, y):
            c = sym.Cmp(name, x, y)
            if c[0] == "cmp":
                d = self.decide(c)
                if d is not None:
                    return sym.Bool(d)
            return c
        return arrays.binop(simp, a, b)

    # ------------------------------------------------------------------ attribute / subscript / call
    def attribute(self, base: Val, attr: str, node, env) -> Val:
        if isinstance(base, Alt):
            conds = getattr(base, "conds", None)
            if conds and len(conds) == len(base.vals) == 2:
                a_, b_ = (self.attribute(x, attr, node, env) for x in base.vals)
                return self.join_cond(conds[0], a_, b_)
            return Alt([self.attribute(x, attr, node, env) for x in base.vals])
        if isinstance(base, ModV):
            return self.global_value(self.p.canonical(f"{base.name}.{attr}"), node)
        if isinstance(base, FuncV) and base.kind == "prim":
            return self.global_value(f"{base.target}.{attr}", node)
        if isinstance(base, ObjV) and base.tag == "super":
            m = base.attrs["cls"].lookup_super(attr, self.p)
            if m is not None:
                return FuncV("repo", m.qualname, bound_self=base.attrs["self"])
            return FuncV("prim", "builtins.object." + attr)
        if isinstance(base, ObjV):
            if attr in base.attrs:
                return base.attrs[attr]
            if attr == "__class__" and base.cls and base.cls in self.p.classes:
                return FuncV("class", base.cls)
            if base.cls:
                c = self.p.classes.get(base.cls)
                m = c.lookup(attr, self.p) if c else None
                if m is not None:
                    if m.kind == "property":
                        return self.call_function(m, [base], {}, node)
                    if m.kind == "staticmethod":
                        return FuncV("repo", m.qualname)
                    if m.kind == "classmethod":
                        return FuncV("repo", m.qualname, bound_self=FuncV("class", base.cls))
                    return FuncV("repo", m.qualname, bound_self=base)
            if base.cls is None:
                return FuncV("method", attr, bound_self=base)
            cv = self._class_attr(base.cls, attr)
            if cv is not None:
                return cv
            if getattr(base, "record", None) and attr in ("_replace", "_asdict", "_fields"):
                return FuncV("method", attr, bound_self=base)
            return self.unknown(f"attribute:{attr}", node)
        if isinstance(base, FuncV) and base.kind == "class":
            c = self.p.classes.get(base.target)
            m = c.lookup(attr, self.p) if c else None
            if m is not None and m.kind == "classmethod":
                return FuncV("repo", m.qualname, bound_self=base)   # cls is bound to the class the method is reached through
            if m is not None:
                return FuncV("repo", m.qualname)
            cv = self._class_attr(base.target, attr)
            if cv is not None:
                return cv
        h = self.method_prims.get(attr)
        if attr in ("shape", "size", "T", "ndim", "dtype", "real", "imag"):
            from . import prims
            return prims.array_attr(self, base, attr, node)
        if h is not None:
            return FuncV("method", attr, bound_self=base)
        return FuncV("method", attr, bound_self=base)

    _TRANSPARENT_DECOS = {"builtins.staticmethod", "builtins.classmethod", "builtins.property", "functools.wraps", "functools.lru_cache",
                          "functools.cache", "functools.cached_property", "abc.abstractmethod", "typing.overload", "typing.final",
                          "deprecated.deprecated", "deprecated.classic.deprecated", "deprecated.sphinx.deprecated",
                          "numpy.deprecate", "typing.no_type_check", "functools.singledispatch", "contextlib.contextmanager"}

    def _decorated(self, fv: FuncV) -> Optional[Val]:
        """what the decorators of a repository function turn it into (None: nothing that changes a call).  A decorator defined
        in the package is applied for real — `deco(func)` is evaluated and its result (usually a closure around `func`) is what
        a call reaches; a decorator that cannot be followed makes the run inexact."""
        fi = self.p.functions.get(fv.target)
        node = getattr(fi, "node", None)
        decos = list(getattr(node, "decorator_list", []) or [])
        if not decos:
            return None
        cache = self.__dict__.setdefault("_deco_cache", {})
        if fv.target in cache:
            return cache[fv.target]
        cache[fv.target] = None   # (re-entrance while the decorator itself runs reaches the raw function)
        locs = ()
        cur: Val = FuncV("repo", fv.target)
        cur.raw = True
        changed = False
        for d in reversed(decos):
            head = d.func if isinstance(d, ast.Call) else d
            tgt = self.p.resolve(fi.module, head, locs)
            tgt = self.p.canonical(tgt) if tgt else None
            if tgt in self._TRANSPARENT_DECOS or (isinstance(head, ast.Attribute) and head.attr in ("setter", "getter", "deleter")):
                continue
            dv = None
            if tgt is not None and tgt in self.p.functions:
                dv = FuncV("repo", tgt)
            if dv is None:
                self.lose(f"decorator `{ast.unparse(d)[:60]}` of {fv.target} is not followed: the function is executed as written", node)
                continue
            try:
                if isinstance(d, ast.Call):
                    # a decorator factory: deco(args)(func)
                    fr_env: dict = {}
                    a_ = [self._eval_in_module(fi.module, x) for x in d.args]
                    k_ = {k.arg: self._eval_in_module(fi.module, k.value) for k in d.keywords if k.arg}
                    dv = self.apply(dv, a_, k_, d, fr_env)
                cur = self.apply(dv, [cur], {}, d, {})
                changed = True
            except AnalysisError:
                raise
            except Exception as ex:   # pragma: no cover
                self.lose(f"decorator `{ast.unparse(d)[:60]}` of {fv.target} could not be applied ({type(ex).__name__})", node)
        cache[fv.target] = cur if changed else None
        return cache[fv.target]

    def _eval_in_module(self, module, expr) -> Val:
        """an expression of module level (a decorator argument): constants and module-level names"""
        if isinstance(expr, ast.Constant):
            return self._eval(expr, {})
        tgt = self.p.resolve(module, expr, ())
        if tgt is not None:
            return self.global_value(self.p.canonical(tgt), expr)
        return self.unknown("decorator-argument", expr)

    def _class_attr(self, cls: str, attr: str, depth=0) -> Optional[Val]:
        """a name assigned in the class body (a constant table, a rotation matrix) read through the class or an instance;
        names of the same class body used by its expression are evaluated the same way"""
        c = self.p.classes.get(cls)
        if c is None or depth > 4:
            return None
        cache = self.__dict__.setdefault("_class_attr_cache", {})
        for k in c.mro(self.p):
            e = k.class_attrs.get(attr)
            if e is None:
                continue
            if (k.qualname, attr) in cache:
                return cache[(k.qualname, attr)]   # the class holds ONE object: every instance sees what another one appended
            env = {}
            for n in ast.walk(e):
                if isinstance(n, ast.Name) and n.id in k.class_attrs and n.id != attr and n.id not in env:
                    v = self._class_attr(k.qualname, n.id, depth + 1)
                    if v is not None:
                        env[n.id] = v
            cache[(k.qualname, attr)] = self.eval(e, env)
            return cache[(k.qualname, attr)]
        return None

    def subscript(self, base: Val, idx: list, node) -> Val:
        if isinstance(base, Alt):
            outs = []
            for x in base.vals:
                if isinstance(x, DictV) and not x.d and x.generic is None:
                    continue  # KeyError path: raises, yields no value
                if isinstance(x, NoneV):
                    continue  # TypeError path: raises, yields no value
                outs.append(self.subscript(x, idx, node))
            if len(outs) == 1:
                return outs[0]
            return Alt(outs) if outs else self.unknown("dict-lookup", node)
        if isinstance(base, ObjV) and getattr(base, "record", None) and base.record[0] == "namedtuple" and len(idx) == 1 \
                and idx[0][0] == "int":
            # a NamedTuple record read by position: axis[0] is its first field
            fields = base.record[1]
            k_ = idx[0][1]
            if -len(fields) <= k_ < len(fields):
                return base.attrs[fields[k_]]
        if isinstance(base, DictV):
            k = idx[0]
            km = getattr(base, "keymap", None)
            if km is not None and k[0] in ("expr", "int") and not base.d:
                hit = self._keymap_lookup(km, k[1] if k[0] == "expr" else sym.Num(k[1]))
                if hit is not None:
                    return Sc(hit)
                return self.unknown("dict-lookup-key-not-a-table-entry", node)
            if k[0] in ("str", "int") and k[1] in base.d:
                return base.d[k[1]]
            if k[0] == "mask" and isinstance(k[1], Sc) and k[1].e is not None and "$True" in base.d and "$False" in base.d:
                # table[test]: the entry for the outcome of the test
                c = k[1].e
                dcd = self.decide(c)
                if dcd is not None:
                    return base.d["$True" if dcd else "$False"]
                a_, b_ = base.d["$True"], base.d["$False"]
                if isinstance(a_, FuncV) or isinstance(b_, FuncV) or not isinstance(a_, Sc):
                    out = Alt([a_, b_])
                    if isinstance(out, Alt) and len(out.vals) == 2:
                        out.conds = [c, sym.Not(c)]
                    return out
                return self.join_cond(c, a_, b_)
            if base.generic is not None:
                return base.generic
            if base.d and k[0] not in ("str", "int"):
                return Alt(list(base.d.values()))
            return self.unknown("dict-lookup", node)
        if isinstance(base, _SeqAcc):
            base = Seq(base.items)
        if is_bucket_family(base) and len(idx) == 1 and idx[0][0] in ("expr", "int"):
            # one of a list of (initially empty) lists, picked by position: what is appended to it is recorded with the position
            pos_e = idx[0][1] if idx[0][0] == "expr" else sym.Num(idx[0][1])
            return bucket_handle(base, pos_e)
        if isinstance(base, ObjV) and base.tag == "bucket" and len(idx) == 1 and idx[0][0] in ("expr", "int"):
            k_e = idx[0][1] if idx[0][0] == "expr" else sym.Num(idx[0][1])
            return Sc(sym.Opq("bucket-item:" + str(base.attrs.get("order")), (base.attrs["index"], k_e),
                              base.attrs["root"].uid or id(base.attrs["root"])))
        if isinstance(base, ObjV) and base.cls:
            c = self.p.classes.get(base.cls)
            m = c.lookup("__getitem__", self.p) if c else None
            if m is not None:
                return self.call_function(m, [base, self._idx_val(idx)], {}, node)
        if isinstance(base, ObjV) and base.tag in ("hk_matching",):
            k = idx[0]
            key = k[2] if (k[0] == "str" and len(k) > 2 and k[2] is not None) else (k[1] if k[0] == "expr" else None)
            if key is None:
                key = sym.Opq("unknown-key", (), fresh("k"))
            # the library's matching maps both ways: str(row) -> column and column (an int) -> str(row)
            return Sc(sym.Opq("hk_partner" if k[0] == "str" else "hk_owner", tuple(base.attrs.get("deps", ())) + (key,), None))
        if any(it[0] == "str" for it in idx):
            return self.unknown("string-index", node)
        r = arrays.index(base, idx, self)
        if isinstance(r, Unknown):
            self.unmodelled.append(dict(tag=r.tag, node=node, fi=self.frames[-1].fi if self.frames else None, uid=r.e[3]))
        elif isinstance(r, Arr) and r is not base and isinstance(base, Arr) and base.kind == "nd" \
                and all(it[0] in ("slice", "full", "int", "new", "ellipsis", "expr") for it in idx):
            # basic indexing of an ndarray gives a view: a store through it would change the array it was taken from
            r.view_of = getattr(base, "view_of", None) or base
            r.view_idx = idx if getattr(base, "view_of", None) is None else None   # where in the base (first-level views only)
        return r

    def _keymap_lookup(self, km, key: Expr) -> Optional[Expr]:
        """d = {K(t): V(t) for t in space}; d[key] with key = K(x) for an index-valued sub-expression x of key is V(x)
        (the table is assumed to have distinct keys: a grid, an enumeration)"""
        kexpr, vexpr, iv, sp = km
        if key[0] == "at" and len(key[3]) == 1 and isinstance(key[3][0], Expr):
            # the key was read from a table at a known position: if that table's formula is the key formula, invert
            c = key[3][0]
            k2 = sym.subst_ivar_expr(kexpr, iv, c)
            if k2 is not None and (sym.equal(k2, key[2]) or (k2[0] == "at" and sym.equal(k2[2], key[2]))):
                return sym.subst_ivar_expr(vexpr, iv, c)
        cands = [sym.IV(i) for i in sorted(sym.free_ivars(key))]
        for x in sym.walk(key):
            if x[0] == "red" and x[1] in ("argmin", "argmax"):
                cands.append(x)
            elif x[0] == "opq" and x[1] in ("index", "argmin", "argmax"):
                cands.append(x)
            elif x[0] == "fn" and x[1] in ("round", "rint", "floor", "ceil", "int"):
                cands.append(x)
        seen = set()
        for c in cands:
            if c in seen:
                continue
            seen.add(c)
            k2 = sym.subst_ivar_expr(kexpr, iv, c)
            if k2 is not None and sym.equal(k2, key):
                return sym.subst_ivar_expr(vexpr, iv, c)
        return None

    def _idx_val(self, idx) -> Val:
        it = idx[0]
        if it[0] == "int":
            return Sc(sym.Num(it[1]))
        if it[0] == "expr":
            return Sc(it[1])
        return ObjV(None, dict(items=idx), tag="slice")

    def call(self, n: ast.Call, env: dict) -> Val:
        if isinstance(n.func, ast.Attribute) and n.func.attr == "__new__" and len(n.args) == 1 and not n.keywords:
            # C.__new__(C) / cls.__new__(cls) / object.__new__(cls): an instance of the class with nothing set yet
            cv = self.eval(n.args[0], env)
            if isinstance(cv, FuncV) and cv.kind == "class" and cv.target in self.p.classes \
                    and self.p.classes[cv.target].lookup("__new__", self.p) is None:
                return ObjV(cv.target, {})
        fv = self.eval(n.func, env)
        pos = []
        for a in n.args:
            if isinstance(a, ast.Starred):
                v = self.eval(a.value, env)
                if isinstance(v, Seq):
                    pos.extend(v.items)
                else:
                    va = v if isinstance(v, Arr) else arrays.to_arr(v)
                    if isinstance(va, Arr) and va.ndim == 2 and va.axes[1][0].concrete is not None \
                            and isinstance(fv, FuncV) and fv.kind == "prim" and fv.target == "builtins.zip" and len(n.args) == 1:
                        # zip(*rows): the columns of a table of k-tuples, one tuple per column
                        k = va.axes[1][0].concrete
                        cols = [Arr([va.axes[0]], sym.subst_ivar(va.elem, va.axes[1][1], j), "list").renamed() for j in range(k)]
                        self.event("zip-star", n, table=va)
                        return Seq(cols, "tuple")
                    if isinstance(va, Arr) and va.axes[0][0].concrete is not None and va.axes[0][0].concrete <= 8:
                        # f(*rows) of an array with a known number of rows
                        pos.extend(arrays.index(va, [("int", k)]) for k in range(va.axes[0][0].concrete))
                        continue
                    pos.append(self.unknown("star-arg", a))
            else:
                pos.append(self.eval(a, env))
        kwargs = {}
        for k in n.keywords:
            v = self.eval(k.value, env)
            if k.arg is None:
                if isinstance(v, DictV):
                    kwargs.update({kk: vv for kk, vv in v.d.items() if isinstance(kk, str)})
                else:
                    self.unknown("star-star-arg", n)
            else:
                kwargs[k.arg] = v
        return self.apply(fv, pos, kwargs, n, env)

    def apply(self, fv: Val, pos: List[Val], kwargs: Dict[str, Val], n, env) -> Val:
        if isinstance(fv, Alt):
            conds = getattr(fv, "conds", None)
            if conds and len(conds) == len(fv.vals) == 2:
                outs = []
                for cnd, x in zip(conds, fv.vals):
                    k = len(self.path)
                    self.path.append(cnd)
                    try:
                        outs.append(self.apply(x, pos, kwargs, n, env))
                    finally:
                        del self.path[k:]
                return self.join_cond(conds[0], outs[0], outs[1])
            self.lose("call of one of several callables chosen under an unknown condition", n)
            return Alt([self.apply(x, pos, kwargs, n, env) for x in fv.vals])
        if isinstance(fv, ObjV) and fv.tag == "itemgetter" and len(pos) == 1 and fv.attrs.get("k") is not None:
            return _unbox_str(self.subscript(pos[0], [("int", fv.attrs["k"])], n))
        if isinstance(fv, ObjV) and fv.tag == "itemgetter" and len(pos) == 1 and fv.attrs.get("keys"):
            got = [_unbox_str(self.subscript(pos[0], [k_], n)) for k_ in fv.attrs["keys"]]
            return got[0] if len(got) == 1 else Seq(got, "tuple")
        if isinstance(fv, ObjV) and fv.tag == "attrgetter" and len(pos) == 1 and fv.attrs.get("k"):
            return self.attribute(pos[0], fv.attrs["k"], n, env)
        if isinstance(fv, ObjV) and fv.tag == "attrgetter" and len(pos) == 1 and fv.attrs.get("ks"):
            return Seq([self.attribute(pos[0], k_, n, env) for k_ in fv.attrs["ks"]], "tuple")
        if isinstance(fv, FuncV):
            if fv.kind == "partial":
                inner, p_args, p_kw = fv.target
                return self.apply(inner, list(p_args) + list(pos), dict(p_kw, **kwargs), n, env)
            if fv.kind == "repo" and not getattr(fv, "raw", False) and fv.target not in (self.cfg.flags.get("stub_func") or {}):
                # (a call a rule observes through a stub is observed under the public name, before any decorator runs)
                deco = self._decorated(fv)
                if deco is not None:
                    # the name is bound to what the decorators made of the function: that is what a call reaches
                    return self.apply(deco, ([fv.bound_self] if fv.bound_self is not None else []) + list(pos), kwargs, n, env)
            if fv.kind == "repo":
                fi = self.p.functions[fv.target]
                args = ([fv.bound_self] if fv.bound_self is not None else []) + pos
                ps = fi.params
                bound = {ps[k]: v for k, v in enumerate(args) if k < len(ps)}
                bound.update(kwargs)
                self.event("repo-call", n, target=fv.target, pos=args, kwargs=kwargs, bound=bound)
                stubs = self.cfg.flags.get("stub_func") or {}
                if fv.target in stubs:
                    # a rule asked to observe this call instead of executing the callee
                    return stubs[fv.target](self, bound, n)
                self._last_out = None
                r_ = self.call_function(fi, args, kwargs, n, _raw=True)
                lo_ = self._last_out
                self._last_out = None
                if lo_ and lo_[0] is fi and isinstance(n, ast.Call):
                    self._copy_out(fi, lo_[1], n, env, fv.bound_self is not None)
                return r_
            if fv.kind == "class":
                return self.construct(fv.target, pos, kwargs, n)
            home = getattr(fv, "home", None) or (self.frames[-1].fi if self.frames else None)
            if fv.kind == "lambda":
                fi = FunctionInfo("<lambda>", "<lambda>", fv.target, home.module)
                return self.call_function(fi, pos, kwargs, n, closure_env=fv.closure, default_vals=getattr(fv, "default_vals", None))
            if fv.kind == "local":
                fi = FunctionInfo(f"{home.qualname}.<locals>.{fv.target.name}", fv.target.name, fv.target, home.module)
                return self.call_function(fi, pos, kwargs, n, closure_env=fv.closure, default_vals=getattr(fv, "default_vals", None))
            if fv.kind == "prim":
                h = self.prims.get(fv.target)
                # leading parameters passed by keyword are put in their positions (np.dot(a=x, b=y), pairwise_distances(X=, Y=))
                sig = EXT_SIGNATURES.get(fv.target)
                if sig and kwargs:
                    pos, kwargs = list(pos), dict(kwargs)
                    while len(pos) < len(sig) and sig[len(pos)] in kwargs:
                        pos.append(kwargs.pop(sig[len(pos)]))
                self.event("ext-call", n, target=fv.target, pos=pos, kwargs=kwargs)
                if _CHAOS and fv.target in _CHAOS:
                    # self-test of the rules (tools/chaos.sh): this primitive pretends not to be modelled — every verdict that
                    # rests on a run through it must turn into 'unmodelled', never stay 'discharged'
                    import sys as _sys
                    print("CHAOS-HIT", fv.target, self.frames[-1].fi.qualname if self.frames else "", file=_sys.stderr)
                    return self.unknown("chaos:" + fv.target, n, tuple(generic_elem(x) for x in pos))
                if h is None:
                    return self.unknown("prim:" + fv.target, n, tuple(generic_elem(x) for x in pos))
                out_ = kwargs.get("out") if isinstance(kwargs, dict) else None
                if out_ is not None and not isinstance(out_, NoneV) and fv.target.startswith(("numpy.", "scipy.")):
                    # ufunc(..., out=A): A is overwritten in place with the result (and returned)
                    kwargs = {k_: v_ for k_, v_ in kwargs.items() if k_ != "out"}
                    try:
                        r = h(self, n, pos, kwargs)
                    except IndexError:
                        r = None
                    if isinstance(out_, Arr) and out_.kind == "nd" and isinstance(r, Arr) and r.ndim == out_.ndim \
                            and all(x[0].same_size(y[0]) for x, y in zip(r.axes, out_.axes)) and getattr(out_, "view_of", None) is None:
                        out_.axes, out_.elem = r.axes, r.elem
                        return out_
                    base_ = getattr(out_, "view_of", None)
                    vidx_ = getattr(out_, "view_idx", None)
                    if isinstance(out_, Arr) and isinstance(base_, Arr) and vidx_ is not None and isinstance(r, (Arr, Sc)):
                        # out= names a column / row / slice of an array: that part of the array is overwritten
                        nv_ = self._store_into_arr(base_, vidx_, r, n)
                        if nv_ is not None:
                            base_.axes, base_.elem = nv_.axes, nv_.elem
                            return self.subscript(base_, vidx_, n)
                    self.lose(f"{fv.target}(..., out=...): the array given as out= is overwritten, which was not followed", n)
                    if isinstance(out_, Arr):
                        out_.elem = self.unknown("out-argument", n).e
                    return r if r is not None else self.unknown("prim-out:" + fv.target, n)
                try:
                    r = h(self, n, pos, kwargs)
                except IndexError:
                    return self.unknown("prim-arity:" + fv.target, n, tuple(generic_elem(x) for x in pos))
                self.log[-1]["result"] = r if self.log and self.log[-1].get("node") is n else None
                return r
            if fv.kind == "opaque":
                # an uninterpreted element-wise function (user-supplied weight / kernel): K(args...) per element
                self.event("opaque-call", n, target=fv.target, pos=pos, kwargs=kwargs)
                vals = list(pos) + [kwargs[k] for k in sorted(kwargs)]
                flat_vals = []
                for v in vals:
                    if isinstance(v, Seq):
                        flat_vals.extend(v.items)
                    elif isinstance(v, Arr) and v.ndim == 1 and v.axes[0][0].concrete is not None and v.axes[0][0].concrete <= 4:
                        flat_vals.extend(arrays.index(v, [("int", k)]) for k in range(v.axes[0][0].concrete))
                    else:
                        flat_vals.append(v)
                acc = None
                for v in flat_vals:
                    if acc is None:
                        acc = arrays.unop(lambda e: sym.Expr(("tuple", e)), v)
                    else:
                        acc = arrays.binop(lambda a, b: sym.Expr(("tuple",) + tuple(a[1:]) + (b,)), acc, v)
                if acc is None:
                    return Sc(sym.Opq(fv.target, (), None))
                return arrays.unop(lambda e: sym.Opq(fv.target, tuple(e[1:]), None), acc)
            if fv.kind == "method":
                h = self.method_prims.get(fv.target)
                self.event("method-call", n, target=fv.target, recv=fv.bound_self, pos=pos, kwargs=kwargs)
                if h is None:
                    return self.unknown("method:" + fv.target, n, (generic_elem(fv.bound_self),))
                return h(self, n, fv.bound_self, pos, kwargs)
        if isinstance(fv, ObjV) and fv.tag == "delayed":
            return ObjV(None, dict(func=fv.attrs["func"], pos=list(pos), kwargs=dict(kwargs)), tag="delayed-call")
        if isinstance(fv, ObjV) and fv.tag == "parallel" and len(pos) == 1:
            self.event("parallel-map", n, items=pos[0])
            items = pos[0]
            if isinstance(items, Seq) and all(isinstance(x, ObjV) and x.tag == "delayed-call" for x in items.items):
                return Seq([self.apply(x.attrs["func"], x.attrs["pos"], x.attrs["kwargs"], n, env) for x in items.items], "list")
            return self.unknown("parallel-over-" + type(items).__name__, n)
        if isinstance(fv, Unknown):
            return self.unknown("call-of-" + fv.tag, n)
        return self.unknown("call-" + type(fv).__name__, n)

    def construct(self, cq: str, pos, kwargs, n) -> Val:
        c = self.p.classes[cq]
        obj = ObjV(cq)
        init = c.lookup("__init__", self.p)
        bound = {}
        if init is not None:
            ps = init.params[1:]
            for k, v in enumerate(pos):
                if k < len(ps):
                    bound[ps[k]] = v
            bound.update(kwargs)
        rec = _record_fields(self.p, c) if init is None else None
        if rec is not None:
            # a record class (typing.NamedTuple / @dataclass) without a hand-written __init__: the generated constructor
            # binds the fields that take part in it, in declaration order, then runs __post_init__
            kind, fields = rec
            names = [f_[0] for f_ in fields if f_[2]]
            for k, v in enumerate(pos):
                if k < len(names):
                    bound[names[k]] = v
                else:
                    return self.unknown("record-constructor-arity", n)
            for k_, v_ in kwargs.items():
                if k_ not in names:
                    return self.unknown("record-constructor-keyword", n)
                bound[k_] = v_
            for name, default, in_init in fields:
                if in_init and name not in bound:
                    if default is None:
                        return self.unknown("record-constructor-missing:" + name, n)
                    bound[name] = self.eval(default, {})
        self.event("construct", n, cls=cq, args=bound)
        stubs = self.cfg.flags.get("stub_ctor") or {}
        if cq in stubs:
            # a rule asked to observe the construction instead of executing the constructor
            return stubs[cq](self, bound, n)
        if rec is not None:
            kind, fields = rec
            for name, default, in_init in fields:
                if in_init:
                    obj.attrs[name] = bound[name]
            obj.record = (kind, [f_[0] for f_ in fields if f_[2]])
            post = c.lookup("__post_init__", self.p)
            if post is not None:
                self.call_function(post, [obj], {}, n)
            return obj
        if init is not None:
            self.call_function(init, [obj] + pos, kwargs, n)
        return obj


# ----------------------------------------------------------------------------- helpers

_DUNDER = {ast.Add: "__add__", ast.Sub: "__sub__", ast.Mult: "__mul__", ast.Div: "__truediv__"}
_RDUNDER = {ast.Add: "__radd__", ast.Sub: "__rsub__", ast.Mult: "__rmul__", ast.Div: "__rtruediv__"}


def _commit_objects(env: dict) -> dict:
    """a branch clone of an object that survives alone becomes the state of the original object"""
    out = {}
    for k, v in env.items():
        if isinstance(v, ObjV) and getattr(v, "_origin", None) is not None:
            root = v._origin
            root.attrs = v.attrs
            out[k] = root
        else:
            out[k] = v
    return out


def _clone_env(env: dict) -> dict:
    """copy of an environment in which mutable abstract objects are duplicated, preserving aliasing"""
    memo = {}

    def cl(v):
        k = id(v)
        if k in memo:
            return memo[k]
        if isinstance(v, _SeqAcc):
            n = _SeqAcc([])
            memo[k] = n
            n.items = [cl(x) for x in v.items]
            n.appended = list(v.appended)
            n.reaches = list(v.reaches)
            n.conditional = v.conditional
            return n
        if isinstance(v, Seq):
            n = Seq([], v.kind)
            memo[k] = n
            n.items = [cl(x) for x in v.items]
            return n
        if isinstance(v, PSet):
            n = PSet(v.pred)
            memo[k] = n
            return n
        if isinstance(v, Arr):
            n = Arr(v.axes, v.elem, v.kind, v.uid)
            for a in ("flat_of", "bucket_order", "bucket_sorted_over"):
                if hasattr(v, a):
                    setattr(n, a, getattr(v, a))
            if is_bucket_family(v):
                n.bucket_root = bucket_root(v)  # the per-position lists themselves are shared by every copy of the outer list
            memo[k] = n
            return n
        if isinstance(v, Blocks):
            n = Blocks(v.shape, v.base, list(v.stores), v.uid)
            memo[k] = n
            return n
        if isinstance(v, DictV):
            n = DictV({}, v.generic)
            memo[k] = n
            n.d = {kk: cl(x) for kk, x in v.d.items()}
            return n
        if isinstance(v, ObjV) and v.cls is not None:
            n = ObjV(v.cls, {}, v.tag)
            n._origin = getattr(v, "_origin", v)  # the object every holder of a reference knows
            memo[k] = n
            n.attrs = {kk: cl(x) for kk, x in v.attrs.items()}
            return n
        return v

    return {k: cl(v) for k, v in env.items()}


class _SeqAcc(Seq):
    """A python list that is appended to inside a symbolic loop."""

    def __init__(self, items):
        super().__init__(list(items), "list")
        self.appended: List[Val] = []
        self.reaches: List[Expr] = []
        self.conditional = False


def _load(t):
    import copy
    t2 = copy.copy(t)
    t2.ctx = ast.Load()
    return t2


def _is_bool(e: Expr) -> bool:
    if e[0] in ("cmp", "bool", "and", "or", "not"):
        return True
    if e[0] == "red" and e[1] in ("all", "any"):
        return True
    if e[0] == "fn" and e[1] in ("isfinite", "isinf"):
        return True
    if e[0] in ("sel", "choice"):
        alts = e[2] if e[0] == "sel" else e[1]
        return all(_is_bool(x) for x in alts)
    if e[0] == "ite":
        return _is_bool(e[2]) and _is_bool(e[3])
    return False


def _is_pylist(v: Val) -> bool:
    return isinstance(v, (Seq, Concat)) or (isinstance(v, Arr) and v.kind == "list") or \
        (isinstance(v, Bag) and False)


def _parts(v: Val) -> List[Val]:
    if isinstance(v, Concat):
        return list(v.parts)
    return [v]


def _pull(e: Expr, ph: Expr) -> Optional[Expr]:
    """term such that e == ph + term with term free of ph, looking through ITE/Choice/Sel"""
    t = e[0]
    if t == "ite":
        a, b = _pull(e[2], ph), _pull(e[3], ph)
        if a is None or b is None:
            return None
        return sym.ITE(e[1], a, b)
    if t == "choice":
        parts = [_pull(x, ph) for x in e[1]]
        if any(p is None for p in parts):
            return None
        return sym.Choice(parts)
    if t == "sel":
        parts = [_pull(x, ph) for x in e[2]]
        if any(p is None for p in parts):
            return None
        return sym.Sel(e[1], tuple(parts))
    if e == ph:
        return sym.ZERO
    terms, c = sym.lin_parts(e)
    if terms.get(ph) != 1.0:
        return None
    rest = sym.sub(e, ph)
    if ph in set(sym.walk(rest)):
        return None
    return rest


def _forget_iv_expr(e: Expr, iv: Optional[str]) -> Expr:
    return e


def _forget_iv(v: Val, iv: Optional[str]) -> Val:
    return v


def _collapse(e: Expr) -> Expr:
    """ITE(c, a, a) and nested duplicates inside a Choice collapse"""
    if e[0] == "choice":
        alts = []
        for x in e[1]:
            if x[0] == "ite":
                alts.extend([x[2], x[3]])
            else:
                alts.append(x)
        return sym.Choice(alts)
    return e


def _same_abstract(a: Val, b: Val) -> bool:
    if a is b:
        return True
    if isinstance(a, Bag) and isinstance(b, Bag):
        return a.elem == b.elem
    if isinstance(a, Sc) and isinstance(b, Sc):
        return a.e == b.e
    if isinstance(a, Alt) and isinstance(b, Alt):
        return len(a.vals) == len(b.vals) and all(_same_abstract(x, y) for x, y in zip(a.vals, b.vals))
    if isinstance(a, Alt) and not isinstance(b, Alt):
        return all(_same_abstract(x, b) for x in a.vals)
    if isinstance(a, Arr) and isinstance(b, Arr) and a.ndim == b.ndim:
        eb = b.elem
        for (s0, i0), (s1, i1) in zip(a.axes, b.axes):
            # the same entries over a different set of positions (all rows / a selection of them) are different arrays
            if not s0.same_size(s1):
                return False
            k0, k1 = s0.key, s1.key
            if (isinstance(k0, tuple) and k0 and k0[0] == "sub") != (isinstance(k1, tuple) and k1 and k1[0] == "sub"):
                return False
            eb = sym.subst_ivar(eb, i1, (i0, 0))
        return a.elem == eb
    if isinstance(a, NoneV) and isinstance(b, NoneV):
        return True
    if isinstance(a, PSet) and isinstance(b, PSet):
        return a.pred == b.pred
    if isinstance(a, DictV) and isinstance(b, DictV):
        if set(a.d) != set(b.d):
            return False
        if not all(_same_abstract(a.d[k], b.d[k]) for k in a.d):
            return False
        return a.generic is b.generic or (a.generic is not None and b.generic is not None
                                          and _same_abstract(a.generic, b.generic))
    if isinstance(a, ObjV) and isinstance(b, ObjV):
        return a.tag == b.tag and a.cls == b.cls and a.tag is not None
    return False


def _subst_val_expr(v: Val, old: Optional[str], expr) -> Optional[Val]:
    """v with the index variable `old` replaced by an expression (None when some part cannot be re-indexed)"""
    if old is None:
        return v
    if isinstance(v, Sc):
        e = sym.subst_ivar_expr(v.e, old, expr) if old in sym.free_ivars(v.e) else v.e
        return Sc(e) if e is not None else None
    if isinstance(v, Arr):
        e = sym.subst_ivar_expr(v.elem, old, expr) if old in sym.free_ivars(v.elem) else v.elem
        return Arr(v.axes, e, v.kind, v.uid) if e is not None else None
    if isinstance(v, Seq):
        items = [_subst_val_expr(x, old, expr) for x in v.items]
        return Seq(items, v.kind) if all(x is not None for x in items) else None
    return v


def _rename_val(v: Val, old: Optional[str], new: str) -> Val:
    if old is None or old == new:
        return v
    if isinstance(v, Sc):
        return Sc(sym.subst_ivar(v.e, old, (new, 0)))
    if isinstance(v, Arr):
        return Arr(v.axes, sym.subst_ivar(v.elem, old, (new, 0)), v.kind, v.uid)
    if isinstance(v, Seq):
        return Seq([_rename_val(x, old, new) for x in v.items], v.kind)
    if isinstance(v, StrV) and getattr(v, "arg", None) is not None:
        return StrV(v.s, arg=sym.subst_ivar(v.arg, old, (new, 0)))
    return v
