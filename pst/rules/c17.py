"""C17 — mGH accepts every graph representation and degrades gracefully (gromov_hausdorff.py).

Decided: GH-COERCE (non-sparse non-ndarray input is coerced; distances come from an undirected, unweighted
shortest_path), GH-LCC (a disconnected graph is restricted, after a warning, to its largest component on BOTH
axes with one mask), GH-SYM (collection result symmetrised from the strict upper triangle, diagonal untouched;
pair call returns element [0,1]), GH-INT (ascending signed integer ladder chosen with <=), GH-DET (no random draw
is reachable from the lower bound; randomness only through the upper bound).
Declined: that the bounds bracket the distance (C05), relabelling invariance of the bounds.
"""
from __future__ import annotations

import ast

from ..core.cfg import CFG
from ..core.loader import AnalysisError, Project
from .common import const_value, expand_locals, local_names, own_analysis

MOD = "persim.gromov_hausdorff"
GH = MOD + ".gromov_hausdorff"
RNG_PREFIXES = ("numpy.random.", "random.", "secrets.", "os.urandom")


def _calls(project, fi, target):
    out = []
    locs = local_names(fi.node)
    for n in ast.walk(fi.node):
        if isinstance(n, ast.Call) and project.resolve(fi.module, n.func, locs) == target:
            out.append(n)
    return out


def _tri_form(project, fi, locs, e):
    """an index pair for a triangle of a square matrix as (kind, k, swapped): np.triu_indices / np.tril_indices(_from) with a
    constant offset k enumerate their positions row by row; X[::-1] / (X[1], X[0]) exchange rows and columns position by
    position (the enumeration order stays that of X)"""
    if isinstance(e, ast.Subscript) and isinstance(e.slice, ast.Slice) and e.slice.lower is None and e.slice.upper is None \
            and e.slice.step is not None and const_value(e.slice.step) == -1:
        inner = _tri_form(project, fi, locs, e.value)
        return None if inner is None else (inner[0], inner[1], not inner[2])
    if isinstance(e, ast.Tuple) and len(e.elts) == 2 and all(isinstance(x, ast.Subscript) for x in e.elts):
        a, b = e.elts
        if ast.unparse(a.value) == ast.unparse(b.value) and const_value(a.slice) in (0, 1) and const_value(b.slice) in (0, 1) \
                and const_value(a.slice) != const_value(b.slice):
            inner = _tri_form(project, fi, locs, a.value)
            if inner is None:
                return None
            return inner if const_value(a.slice) == 0 else (inner[0], inner[1], not inner[2])
    if isinstance(e, ast.Call):
        t = project.resolve(fi.module, e.func, locs)
        if t in ("numpy.triu_indices", "numpy.tril_indices", "numpy.triu_indices_from", "numpy.tril_indices_from"):
            k = e.args[1] if len(e.args) > 1 else _kw(e, "k")
            kv = const_value(k) if k is not None else 0
            if kv is None:
                return None
            return ("U" if "triu" in t else "L", kv, False)
    return None


def _tri_copy(project, fi, locs, f, n, m):
    """`M[A] = M[B]` / `M[A] = M.T[B]` with A, B triangle index pairs: ("ok" | "bad", why), or None when the forms are not
    triangle index pairs"""
    tgt, v = n.targets[0], n.value
    if not isinstance(v, ast.Subscript):
        return None
    A = _tri_form(project, fi, locs, expand_locals(f, tgt.slice))
    B = _tri_form(project, fi, locs, expand_locals(f, v.slice))
    if A is None or B is None:
        return None
    src = v.value
    transposed = False
    if isinstance(src, ast.Attribute) and src.attr == "T":
        src, transposed = src.value, True
    if not isinstance(src, ast.Name):
        return None
    if transposed:
        B = (B[0], B[1], not B[2])
    if src.id != m:
        return "bad", f"`{ast.unparse(n)}` fills `{m}` from another matrix (`{src.id}`)"
    # positions written: strictly below the diagonal (or on it), never above
    kind, k, sw = A
    below = (kind == "L" and not sw and k in (-1, 0)) or (kind == "U" and sw and k in (0, 1))
    if not below:
        return "bad", (f"`{ast.unparse(n)}` writes positions {('j−i ≤ ' if kind == 'L' else 'j−i ≥ ') + str(k)}"
                       f"{' (rows and columns exchanged)' if sw else ''}: not exactly the entries below the diagonal — entries "
                       f"above it are overwritten or the first sub-diagonal is never filled")
    if B == (kind, k, not sw):
        return "ok", (f"`{ast.unparse(n)[:80]}`: the t-th position written is the transpose of the t-th position read, for every t, "
                      f"and the positions written are the entries below the diagonal")
    # same set of transposed positions but enumerated in another order?
    Bkind, Bk, Bsw = B
    upper_set = (Bkind == "U" and not Bsw) or (Bkind == "L" and Bsw)
    if upper_set:
        return "bad", (f"`{ast.unparse(n)[:80]}` pairs the t-th lower-triangle position with the t-th upper-triangle position of "
                       f"two different enumerations (one row by row, the other column by column): they are transposes of each "
                       f"other only for N ≤ 3; from 4 graphs on entry (2,1) receives the bounds of pair (0,3)")
    return "bad", f"`{ast.unparse(n)[:80]}` does not read the transposed positions of the entries it writes"


def _kw(call, name):
    for k in call.keywords:
        if k.arg == name:
            return k.value
    return None


def check_coerce(project: Project, rep):
    fi = project.function(f"{MOD}.make_distance_matrix_from_adjacency_matrix")
    rep.analysed(fi)
    sp = _calls(project, fi, "scipy.sparse.csgraph.shortest_path")
    if len(sp) != 1:
        rep.unmodelled("GH-COERCE", fi, fi.node, f"expected one shortest_path call, found {len(sp)}")
        return fi, None
    c = sp[0]
    d, u = _kw(c, "directed"), _kw(c, "unweighted")
    if isinstance(d, ast.Constant) and d.value is False:
        rep.discharged("GH-COERCE", fi, c, "shortest_path(directed=False): upper-triangular and symmetric adjacency give the "
                                           "same metric")
    else:
        rep.refuted("GH-COERCE", fi, c, "shortest_path is not called with directed=False: an upper-triangular adjacency "
                                        "matrix yields a non-symmetric 'metric' with infinite entries")
    if isinstance(u, ast.Constant) and u.value is True:
        rep.discharged("GH-COERCE", fi, c, "shortest_path(unweighted=True): any positive edge weights give hop distances")
    else:
        rep.refuted("GH-COERCE", fi, c, "shortest_path is not called with unweighted=True: non-unit adjacency entries change "
                                        "the metric")
    # coercion of nested lists
    param = fi.params[0]
    from .common import fn_view
    view = fn_view(project, fi)
    vlocs = local_names(view)
    co = [n for n in ast.walk(view) if isinstance(n, ast.Call)
          and project.resolve(fi.module, n.func, vlocs) in ("numpy.asarray", "numpy.array", "numpy.asanyarray", "numpy.atleast_2d")
          and n.args and ast.unparse(expand_locals(view, n.args[0])) == param]
    sp_v = [n for n in ast.walk(view) if isinstance(n, ast.Call)
            and project.resolve(fi.module, n.func, vlocs) == "scipy.sparse.csgraph.shortest_path" and n.args]
    if co:
        rep.discharged("GH-COERCE", fi, co[0], "nested-list input is coerced with np.asarray before use")
    elif sp_v and isinstance(sp_v[0].args[0], ast.Name) and sp_v[0].args[0].id == param and not any(
            isinstance(x, ast.Name) and isinstance(x.ctx, ast.Store) and x.id == param for x in ast.walk(view)):
        rep.refuted("GH-COERCE", fi, fi.node, "a nested-list adjacency matrix is never coerced to an array: the parameter goes to "
                                              "shortest_path as it came", construct=f"{fi.qualname}: coercion")
    else:
        rep.unmodelled("GH-COERCE", fi, fi.node, "how a nested-list adjacency matrix is coerced to an array was not recognised")
    return fi, c


def _mask_key(node):
    return ast.unparse(node)


def _reachable_text(project: Project, fi) -> str:
    """source text of the function and of every module-level function / class of its module it refers to by name,
    transitively (closures and helper factories included)"""
    m = fi.module
    by_name = {}
    for q, g in project.functions.items():
        if g.module is m and g.parent is None and g.cls is None:
            by_name[g.name] = g.node
    seen, todo, out = set(), [fi.node], []
    while todo:
        nd = todo.pop()
        if id(nd) in seen:
            continue
        seen.add(id(nd))
        out.append(ast.unparse(nd))
        for x in ast.walk(nd):
            if isinstance(x, ast.Name) and x.id in by_name and id(by_name[x.id]) not in seen:
                todo.append(by_name[x.id])
            elif isinstance(x, ast.Name) and x.id in m.globals and isinstance(m.globals[x.id], ast.AST) and id(m.globals[x.id]) not in seen:
                todo.append(m.globals[x.id])
    return "\n".join(out)


def check_lcc_semantic(project: Project, rep, fi) -> str:
    """GH-LCC decided on the evaluated function: `make_distance_matrix_from_adjacency_matrix` is followed with the graph
    library observed (shortest_path gives an opaque V×V table that may hold infinities, connected_components an opaque label
    per vertex, the integer cast is the identity).  What comes back when some distance is infinite must be the table
    restricted to ONE selection of vertices on both axes — a selection that is a function of the component labels — with
    entry (i, j) still the distance of vertices i and j; a warning must have been issued on that path.
    ok / refuted / unmodelled."""
    from ..core.absint import Config, Interp
    from ..core import sym
    from ..core.values import Alt, Arr, fresh, rows
    cast = f"{MOD}.cast_distance_matrix_to_optimal_int_type"

    def ident(I_, bound, n_):
        return list(bound.values())[0]
    I = Interp(project, Config(nonempty={("rows", "V")}, flags={"stub_func": {cast: ident} if cast in project.functions else {}}))
    ag = Arr([(rows("V"), fresh()), (rows("V"), fresh())], sym.Opq("adjacency", (), None), "nd")
    try:
        r = I.run(fi.qualname, {fi.params[0]: ag})
    except AnalysisError as ex:
        rep.unmodelled("GH-LCC", fi, fi.node, f"{ex}"[:160])
        return "unmodelled"
    if I.unmodelled or I.lossy:
        why = I.lossy[0]["why"] if I.lossy else "unmodelled value: " + I.unmodelled[0]["tag"]
        rep.unmodelled("GH-LCC", fi, fi.node, f"the function could not be followed exactly ({why})")
        return "unmodelled"
    alts = list(r.vals) if isinstance(r, Alt) else [r]
    restricted = plain = 0
    largest_ok = None
    c0 = sym.TRUE
    for a in alts:
        if not (isinstance(a, Arr) and a.ndim == 2):
            rep.unmodelled("GH-LCC", fi, fi.node, f"a result that is not a 2-d table: {a!r}"[:160])
            return "unmodelled"
        (s0, i0), (s1, i1) = a.axes
        k0, k1 = s0.key, s1.key
        if k0 == ("rows", "V") and k1 == ("rows", "V"):
            plain += 1
            continue
        sub0 = isinstance(k0, tuple) and k0[0] == "sub" and k0[1] == ("rows", "V")
        sub1 = isinstance(k1, tuple) and k1[0] == "sub" and k1[1] == ("rows", "V")
        if not (sub0 or k0 == ("rows", "V")) or not (sub1 or k1 == ("rows", "V")):
            rep.unmodelled("GH-LCC", fi, fi.node, f"the returned table ranges over {k0} × {k1}: not a selection of the vertices"[:200])
            return "unmodelled"
        if sub0 != sub1:
            rep.refuted("GH-LCC", fi, fi.node, "for a disconnected graph the distance matrix is restricted along " +
                        ("its rows only" if sub0 else "its columns only") + ": the result is not square / not a metric on one "
                        "vertex set", construct=f"{fi.qualname}: restriction to a component")
            return "refuted"

        def canon(c):
            for v_ in sorted(sym.free_ivars(c)):
                c = sym.subst_ivar(c, v_, ("$v", 0))
            return c
        c0, c1 = canon(k0[2]), canon(k1[2])
        if c0 != c1:
            rep.refuted("GH-LCC", fi, fi.node,
                        f"rows are kept under {sym.show(c0)[:80]} and columns under {sym.show(c1)[:80]}: the restricted matrix pairs "
                        f"vertices of two different sets", construct=f"{fi.qualname}: restriction to a component")
            return "refuted"
        if "label" not in sym.inputs_of(c0):
            rep.unmodelled("GH-LCC", fi, fi.node, f"the vertices kept ({sym.show(c0)[:80]}) are not chosen by component label")
            return "unmodelled"
        picks = [x for x in sym.walk(c0) if x[0] == "red" and x[1] in ("argmax", "argmin")
                 and any(y[0] == "opq" and y[1].startswith("count-of") for y in sym.walk(x[4]))]
        if picks and all(x[1] == "argmax" for x in picks):
            largest_ok = True
        elif picks:
            rep.refuted("GH-LCC", fi, fi.node, "the component kept for a disconnected graph is the one with the FEWEST vertices "
                                               "(argmin of the component sizes), not the largest", construct=f"{fi.qualname}: component kept")
            return "refuted"
        else:
            largest_ok = None
        if a.elem != sym.In("dg", ((i0, 0), (i1, 0))):
            rep.refuted("GH-LCC", fi, fi.node, f"entry (i, j) of the restricted matrix is {sym.show(a.elem)[:80]}, not the distance "
                                               f"between the kept vertices i and j", construct=f"{fi.qualname}: restriction to a component")
            return "refuted"
        restricted += 1
    if not restricted:
        rep.refuted("GH-LCC", fi, fi.node, "a graph with infinite shortest-path distances is not restricted to a connected "
                                           "component: the bounds are computed on a table that is not a metric",
                    construct=f"{fi.qualname}: disconnected branch")
        return "refuted"
    warned = [ev for ev in I.log if ev["kind"] == "ext-call" and ev.get("target") == "warnings.warn"]
    rep.discharged("GH-LCC", fi, fi.node, "evaluated: when some distance is infinite the table is restricted to one selection of "
                                          "vertices, chosen by component label, on rows and columns alike; entries stay the "
                                          "distances of the kept vertices")
    if largest_ok:
        rep.discharged("GH-LCC", fi, fi.node, "the label kept is the one at the argmax of the component sizes", nontrivial=False)
    else:
        rep.unmodelled("GH-LCC", fi, fi.node, "which component is kept (the largest?) was not recognised in the selection "
                                              f"{sym.show(c0)[:80]}")
        return "unmodelled-largest"
    if warned:
        rep.discharged("GH-LCC", fi, warned[0]["node"], "a warning is issued on the way", nontrivial=False)
        return "ok"
    return "ok-nowarn"


def check_lcc(project: Project, rep, fi):
    from ..core.report import Report as _Report
    pre = _Report("C17-lcc")
    st = check_lcc_semantic(project, pre, fi)
    if st in ("refuted", "ok", "ok-nowarn", "unmodelled-largest"):
        st2 = check_lcc_semantic(project, rep, fi)
        if st2 == "ok-nowarn":
            # the restriction is right; whether a warning accompanies it is left to the reader of the branch below
            if "warn" in _reachable_text(project, fi):
                rep.unmodelled("GH-LCC", fi, fi.node, "no call of warnings.warn was observed on the disconnected path, although a "
                                                      "warning function is reachable (a callback?)")
            else:
                rep.refuted("GH-LCC", fi, fi.node, "the disconnected graph is replaced by a component without a warning")
        return
    from .common import fn_view
    f = fn_view(project, fi)
    branch = None
    for n in ast.walk(f):
        if isinstance(n, ast.If):
            t = ast.unparse(n.test)
            if "isinf" in t or "inf" in t:
                branch = n
    if branch is None:
        if "isinf" in _reachable_text(project, fi) or "inf" in _reachable_text(project, fi):
            rep.unmodelled("GH-LCC", fi, f, "the handling of a disconnected graph is not a branch of this function (it lives in a "
                                            "helper / closure this rule does not read)")
            return
        rep.refuted("GH-LCC", fi, f, "no branch handles a disconnected graph (infinite shortest-path distances)",
                    construct=f"{fi.qualname}: disconnected branch")
        return
    # warning first
    warn = [n for n in ast.walk(branch) if isinstance(n, ast.Call)
            and project.resolve(fi.module, n.func, local_names(f)) == "warnings.warn"]
    if warn:
        rep.discharged("GH-LCC", fi, warn[0], "a warning is emitted on the disconnected path", nontrivial=False)
    elif "warn" in _reachable_text(project, fi):
        rep.unmodelled("GH-LCC", fi, branch, "whether the disconnected path warns was not recognised (a warning function is "
                                             "reachable, but not called by name in the branch)")
    else:
        rep.refuted("GH-LCC", fi, branch, "the disconnected graph is replaced by a component without a warning")
    # the distance-matrix variable: assigned from shortest_path
    dvar = None
    for n in ast.walk(f):
        if isinstance(n, ast.Assign) and isinstance(n.value, ast.Call) and isinstance(n.targets[0], ast.Name) \
                and project.resolve(fi.module, n.value.func, local_names(f)) == "scipy.sparse.csgraph.shortest_path":
            dvar = n.targets[0].id
    if dvar is None:
        rep.unmodelled("GH-LCC", fi, f, "distance-matrix variable not found")
        return
    restr = [n for n in branch.body if isinstance(n, ast.Assign) and isinstance(n.targets[0], ast.Name)
             and n.targets[0].id == dvar]
    if not restr:
        rep.refuted("GH-LCC", fi, branch, "the disconnected branch does not restrict the distance matrix: bounds are computed "
                                          "for a non-metric with infinite entries")
        return
    st = restr[-1]
    v = st.value
    # resolve names assigned just before to their expressions (mask variable)
    rows_mask = cols_mask = None
    form = None
    if isinstance(v, ast.Subscript):
        inner, sl = v.value, v.slice
        if isinstance(inner, ast.Subscript) and isinstance(inner.value, ast.Name) and inner.value.id == dvar:
            # DG[a][b]  with a a row selector and b = (:, m)
            a, b = inner.slice, sl
            ra, ca = _rowcol(a)
            rb, cb = _rowcol(b)
            rows_mask = ra or rb
            cols_mask = ca or cb
            form = "chained"
        elif isinstance(inner, ast.Name) and inner.id == dvar:
            if isinstance(sl, ast.Call) and ast.unparse(sl.func) in ("np.ix_", "numpy.ix_") and len(sl.args) == 2:
                rows_mask, cols_mask = _mask_key(sl.args[0]), _mask_key(sl.args[1])
                form = "ix_"
            else:
                rows_mask, cols_mask = _rowcol(sl)
                form = "single"
    if rows_mask and cols_mask and rows_mask == cols_mask:
        rep.discharged("GH-LCC", fi, st, f"distance matrix restricted to the largest component on both axes with the same "
                                         f"mask `{rows_mask}` ({form})")
    elif rows_mask and cols_mask:
        rep.refuted("GH-LCC", fi, st, f"rows are restricted with `{rows_mask}` but columns with `{cols_mask}`: the result is "
                                      f"not the component's distance matrix")
    elif rows_mask or cols_mask:
        which = "rows" if rows_mask else "columns"
        rep.refuted("GH-LCC", fi, st,
                    f"only the {which} of the distance matrix are restricted to the largest component: the result is a "
                    f"(k,n) array that still contains inf, and the call raises instead of falling back",
                    failing_input="path P3 ⊎ K2 vs P3: ValueError('value {} too large…')")
    else:
        rep.unmodelled("GH-LCC", fi, st, "unrecognised restriction of the distance matrix")
    # the mask must select exactly ONE component: per-vertex component labels compared with the single label that has
    # the largest count. A mask built from per-vertex component *sizes* keeps every component tied for largest.
    mask_txt = rows_mask or cols_mask
    mask_expr = None
    if mask_txt:
        for n in ast.walk(branch):
            if isinstance(n, ast.Assign) and isinstance(n.targets[0], ast.Name) and n.targets[0].id == mask_txt:
                mask_expr = n.value
        if mask_expr is None:
            try:
                mask_expr = ast.parse(mask_txt, mode="eval").body
            except SyntaxError:
                mask_expr = None
    assigns = {}
    for n in ast.walk(branch):
        if isinstance(n, ast.Assign):
            for t in (n.targets[0].elts if isinstance(n.targets[0], ast.Tuple) else [n.targets[0]]):
                if isinstance(t, ast.Name):
                    assigns[t.id] = n
    def from_call(name, fn):
        a = assigns.get(name)
        return a is not None and isinstance(a.value, ast.Call) and \
            project.resolve(fi.module, a.value.func, local_names(f)) == fn
    verdict = None
    if isinstance(mask_expr, ast.Compare) and len(mask_expr.ops) == 1 and isinstance(mask_expr.ops[0], ast.Eq):
        l, r = mask_expr.left, mask_expr.comparators[0]
        names = [x.id for x in (l, r) if isinstance(x, ast.Name)]
        labels = [nm for nm in names if from_call(nm, "scipy.sparse.csgraph.connected_components")]
        others = [x for x in (l, r) if not (isinstance(x, ast.Name) and x.id in labels)]
        if labels and len(others) == 1:
            o = others[0]
            otxt = ast.unparse(assigns[o.id].value) if isinstance(o, ast.Name) and o.id in assigns else ast.unparse(o)
            if "argmax" in otxt:
                verdict = ("ok", f"vertices whose component label equals the label of largest count ({otxt})")
            elif "argmin" in otxt:
                verdict = ("bad", "the smallest, not the largest, connected component is kept")
            else:
                verdict = ("unknown", f"component label compared with `{otxt}`")
        else:
            # equality of a per-vertex quantity with its maximum keeps all ties
            rtxt = ast.unparse(r)
            ltxt = ast.unparse(l)
            if ("max(" in rtxt and ltxt in rtxt) or ("max(" in ltxt and rtxt in ltxt):
                verdict = ("bad", f"the mask `{ast.unparse(mask_expr)}` keeps every vertex whose per-vertex value equals the "
                                  f"maximum: when two components tie for largest both are kept, the matrix still contains inf "
                                  f"and the call raises instead of falling back to one component")
    if verdict is None:
        rep.unmodelled("GH-LCC", fi, branch, "cannot tell which vertices the largest-component mask keeps")
    elif verdict[0] == "ok":
        rep.discharged("GH-LCC", fi, branch, f"the mask keeps {verdict[1]}: exactly one component")
    elif verdict[0] == "bad":
        rep.refuted("GH-LCC", fi, st, verdict[1], failing_input="two disjoint triangles (tie for largest component)")
    else:
        rep.unmodelled("GH-LCC", fi, branch, verdict[1])


def _rowcol(sl):
    """(row_selector, col_selector) texts of an index expression; full slices are None"""
    def full(x):
        return isinstance(x, ast.Slice) and x.lower is None and x.upper is None and x.step is None
    if isinstance(sl, ast.Tuple) and len(sl.elts) == 2:
        r, c = sl.elts
        return (None if full(r) else _mask_key(r)), (None if full(c) else _mask_key(c))
    if full(sl):
        return None, None
    return _mask_key(sl), None


def check_sym(project: Project, rep):
    from .common import expand_locals, fn_view
    fi = project.function(f"{MOD}.gromov_hausdorff")
    rep.analysed(fi)
    from .common import collapse_aliases
    f = collapse_aliases(fn_view(project, fi))
    locs = local_names(f)
    # result matrices: names assigned np.zeros((N, N))
    mats = [n.targets[0].id for n in ast.walk(f) if isinstance(n, ast.Assign) and isinstance(n.targets[0], ast.Name)
            and isinstance(n.value, ast.Call) and project.resolve(fi.module, n.value.func, locs) == "numpy.zeros"]
    shared = [n for n in ast.walk(f) if isinstance(n, ast.Assign) and len(n.targets) >= 2
              and all(isinstance(t, ast.Name) for t in n.targets) and isinstance(n.value, ast.Call)
              and project.resolve(fi.module, n.value.func, locs) in ("numpy.zeros", "numpy.empty", "numpy.full")]
    if shared:
        names = [t.id for t in shared[0].targets]
        rep.refuted("GH-SYM", fi, shared[0], f"`{ast.unparse(shared[0])}` binds {names} to ONE array: the lower and the upper "
                                             f"bounds overwrite each other, so the two returned matrices are the same object",
                    construct=f"{fi.qualname}: shared bound matrix")
        return
    if len(mats) < 2:
        rep.unmodelled("GH-SYM", fi, f, "the two bound matrices were not found")
        return
    mats = mats[:2]

    def stores_in(node):
        return [t for n in ast.walk(node) if isinstance(n, ast.Assign) for t in
                (n.targets[0].elts if isinstance(n.targets[0], ast.Tuple) else [n.targets[0]])
                if isinstance(t, ast.Subscript) and isinstance(t.value, ast.Name) and t.value.id in mats]

    # ---- enumeration of pairs: (i, j) with j > i, in one of the recognised forms
    pair_loops = []  # (loop node, i, j)
    for lp in ast.walk(f):
        if not isinstance(lp, ast.For):
            continue
        if isinstance(lp.target, ast.Name):
            for inner in lp.body:
                if isinstance(inner, ast.For) and isinstance(inner.target, ast.Name) and isinstance(inner.iter, ast.Call) \
                        and project.resolve(fi.module, inner.iter.func, locs) == "builtins.range" and len(inner.iter.args) == 2:
                    lo = inner.iter.args[0]
                    i = lp.target.id
                    if ast.unparse(lo).replace(" ", "") in (f"{i}+1", f"1+{i}") and ast.unparse(inner.iter.args[1]) == \
                            (ast.unparse(lp.iter.args[-1]) if isinstance(lp.iter, ast.Call) and lp.iter.args else None):
                        pair_loops.append((inner, i, inner.target.id, "j in range(i+1, N)"))
                    elif stores_in(inner):
                        pair_loops.append((inner, i, inner.target.id, None))
        elif isinstance(lp.target, ast.Tuple) and len(lp.target.elts) == 2 and all(isinstance(e, ast.Name) for e in lp.target.elts) \
                and isinstance(lp.iter, ast.Call) and project.resolve(fi.module, lp.iter.func, locs) == "itertools.combinations" \
                and len(lp.iter.args) == 2 and const_value(lp.iter.args[1]) == 2 and isinstance(lp.iter.args[0], ast.Call) \
                and project.resolve(fi.module, lp.iter.args[0].func, locs) == "builtins.range" and len(lp.iter.args[0].args) == 1:
            pair_loops.append((lp, lp.target.elts[0].id, lp.target.elts[1].id, "(i, j) in combinations(range(N), 2)"))
    recognised = [x for x in pair_loops if x[3] is not None and stores_in(x[0])]
    odd = [x for x in pair_loops if x[3] is None]
    if recognised:
        inner, i, j, form = recognised[0]
        stores = stores_in(inner)
        good = [t for t in stores if ast.unparse(t.slice) in (f"{i}, {j}", f"({i}, {j})")]
        if len(good) == len(stores) and {t.value.id for t in good} >= set(mats):
            rep.discharged("GH-SYM", fi, inner, f"bounds are written only at [i, j] for {form} (strict upper triangle); the "
                                                f"diagonal stays 0")
        else:
            rep.refuted("GH-SYM", fi, inner, f"bounds are written at {[ast.unparse(t) for t in stores]} — not "
                                             f"only at the strict upper triangle [i, j], j > i")
    elif odd:
        inner, i, j, _ = odd[0]
        rep.refuted("GH-SYM", fi, inner, f"pairs are enumerated as `{j}` in `{ast.unparse(inner.iter)}` instead of range({i}+1, N): "
                                         f"the diagonal or the lower triangle is computed separately, or pairs are missed",
                    construct=f"{fi.qualname}: pair loops")
    else:
        rep.unmodelled("GH-SYM", fi, f, "how the pairs of graphs are enumerated was not recognised")
    # ---- symmetrisation
    tril = [n for n in ast.walk(f) if isinstance(n, ast.Call) and project.resolve(fi.module, n.func, locs) == "numpy.tril_indices"]
    for t in tril:
        k = t.args[1] if len(t.args) > 1 else _kw(t, "k")
        kv = const_value(k) if k is not None else 0
        if kv in (-1, 0):
            rep.discharged("GH-SYM", fi, t, f"lower-triangle indices with k = {kv} cover every sub-diagonal entry (the "
                                            f"diagonal is 0 in both the matrix and its transpose)")
        elif kv is None:
            rep.unmodelled("GH-SYM", fi, t, f"offset of `{ast.unparse(t)}` is not a constant")
        else:
            rep.refuted("GH-SYM", fi, t, f"np.tril_indices(N, {kv}): " + ("entries above the diagonal are overwritten "
                                                                        "with zeros from the transpose" if kv and kv > 0
                                                                        else "the first sub-diagonal is never filled"))
    copied = set()
    other_writes = {m: [] for m in mats}
    loop_nodes = {id(x) for lp_ in pair_loops for x in ast.walk(lp_[0])}
    for n in ast.walk(f):
        if isinstance(n, ast.Assign) and len(n.targets) == 1 and isinstance(n.targets[0], ast.Subscript) \
                and isinstance(n.targets[0].value, ast.Name) and n.targets[0].value.id in mats and id(n) not in loop_nodes:
            m = n.targets[0].value.id
            v = n.value
            idx_t = ast.unparse(expand_locals(f, n.targets[0].slice))
            verdict = _tri_copy(project, fi, locs, f, n, m)
            if verdict is not None:
                kind, why = verdict
                copied.add(m)
                if kind == "ok":
                    rep.discharged("GH-SYM", fi, n, why)
                else:
                    rep.refuted("GH-SYM", fi, n, why, construct=f"{fi.qualname}: symmetrisation of {m}")
                continue
            if isinstance(v, ast.Subscript) and isinstance(v.value, ast.Attribute) and v.value.attr == "T" \
                    and isinstance(v.value.value, ast.Name) and "tril_indices" in idx_t:
                if v.value.value.id == m and ast.unparse(expand_locals(f, v.slice)) == idx_t:
                    copied.add(m)
                else:
                    rep.refuted("GH-SYM", fi, n, f"`{ast.unparse(n)}` fills one matrix's lower triangle from another "
                                                 f"matrix or other indices")
                    copied.add(m)
            else:
                other_writes[m].append(n)
        elif isinstance(n, (ast.Assign, ast.AugAssign)) and id(n) not in loop_nodes:
            tg = n.targets[0] if isinstance(n, ast.Assign) else n.target
            if isinstance(tg, ast.Name) and tg.id in mats and not (
                    isinstance(n, ast.Assign) and isinstance(n.value, ast.Call)
                    and project.resolve(fi.module, n.value.func, locs) == "numpy.zeros"):
                # lbs = lbs + lbs.T / lbs += lbs.T  (diagonal and lower triangle are 0 before)
                v = n.value
                txt = ast.unparse(v).replace(" ", "")
                m = tg.id
                if (isinstance(n, ast.AugAssign) and isinstance(n.op, ast.Add) and txt == f"{m}.T") or \
                        txt in (f"{m}+{m}.T", f"{m}.T+{m}", f"np.maximum({m},{m}.T)", f"np.maximum({m}.T,{m})"):
                    copied.add(m)
                else:
                    other_writes[m].append(n)
        elif isinstance(n, ast.Call) and id(n) not in loop_nodes:
            t = project.resolve(fi.module, n.func, locs)
            if t in ("builtins.len", "numpy.tril_indices", "numpy.zeros"):
                continue
            for a_ in list(n.args) + [k.value for k in n.keywords]:
                if isinstance(a_, ast.Name) and a_.id in mats:
                    other_writes[a_.id].append(n)
            if isinstance(n.func, ast.Attribute) and isinstance(n.func.value, ast.Name) and n.func.value.id in mats:
                other_writes[n.func.value.id].append(n)
    # every other store into a bounds matrix that the readers above did not look at (several targets in one statement,
    # stores inside loops that are not the pair loops, augmented stores): it may be the symmetrisation, in a form not read here
    seen_w = {id(x) for ws in other_writes.values() for x in ws}
    for n in ast.walk(f):
        if id(n) in loop_nodes or id(n) in seen_w:
            continue
        tgs = n.targets if isinstance(n, ast.Assign) else [n.target] if isinstance(n, (ast.AugAssign, ast.AnnAssign)) else []
        if isinstance(n, ast.Assign) and len(tgs) == 1 and isinstance(tgs[0], ast.Subscript):
            continue   # read above
        for tg in tgs:
            for x in ast.walk(tg):
                if isinstance(x, ast.Subscript) and isinstance(x.value, ast.Name) and x.value.id in mats and isinstance(x.ctx, ast.Store):
                    other_writes[x.value.id].append(n)
    for mname in mats:
        if mname in copied:
            rep.discharged("GH-SYM", fi, f, f"lower triangle of `{mname}` is filled from its own transpose")
        elif other_writes[mname]:
            rep.unmodelled("GH-SYM", fi, other_writes[mname][0], f"`{ast.unparse(other_writes[mname][0])[:80]}` may symmetrise "
                                                                  f"`{mname}` in a form that was not recognised")
        else:
            rep.refuted("GH-SYM", fi, f, f"`{mname}` is never symmetrised: nothing writes to it after the strict upper triangle "
                                         f"is filled, so its lower triangle stays 0 and the collection result is not symmetric",
                        construct=f"{fi.qualname}: symmetrisation of {mname}")
    # pair call returns [0, 1]
    rets = [n for n in ast.walk(f) if isinstance(n, ast.Return) and isinstance(n.value, ast.Tuple)]
    pair = [r for r in rets if all(isinstance(e, ast.Subscript) for e in r.value.elts)]
    if pair and all(ast.unparse(e.slice) in ("0, 1", "(0, 1)") for e in pair[0].value.elts):
        rep.discharged("GH-SYM", fi, pair[0], "the pair call returns element [0, 1] of each matrix")
    elif pair:
        rep.refuted("GH-SYM", fi, pair[0], f"the pair call returns {ast.unparse(pair[0].value)}: not the computed pair entry")


def _int_test_semantics(cmpop: ast.Compare, value_name: str):
    """constant-fold the feasibility test `value OP f(np.iinfo(T))` for the signed types: (True, None) if a type is accepted
    only for values it can hold and for every value below its maximum; (False, why) otherwise; None if not foldable"""
    def fold(e, env):
        if isinstance(e, ast.Constant) and isinstance(e.value, (int, float)) and not isinstance(e.value, bool):
            return e.value
        if isinstance(e, ast.Name) and e.id in env:
            return env[e.id]
        if isinstance(e, ast.Attribute) and isinstance(e.value, ast.Call) and ast.unparse(e.value.func).endswith("iinfo") \
                and e.attr in ("max", "min", "bits"):
            return env["$" + e.attr]
        if isinstance(e, ast.UnaryOp) and isinstance(e.op, ast.USub):
            v = fold(e.operand, env)
            return None if v is None else -v
        if isinstance(e, ast.BinOp):
            a, b = fold(e.left, env), fold(e.right, env)
            if a is None or b is None:
                return None
            try:
                if isinstance(e.op, ast.Add):
                    return a + b
                if isinstance(e.op, ast.Sub):
                    return a - b
                if isinstance(e.op, ast.Mult):
                    return a * b
                if isinstance(e.op, ast.Pow) and abs(b) <= 128:
                    return a ** b
                if isinstance(e.op, ast.FloorDiv) and b != 0:
                    return a // b
                if isinstance(e.op, ast.LShift) and 0 <= b <= 128:
                    return a << b
            except Exception:
                return None
        return None
    ops = {ast.Lt: lambda a, b: a < b, ast.LtE: lambda a, b: a <= b, ast.Gt: lambda a, b: a > b, ast.GtE: lambda a, b: a >= b}
    f = ops.get(type(cmpop.ops[0]))
    if f is None:
        return None
    for bits in (8, 16, 32, 64):
        mx = 2 ** (bits - 1) - 1
        for v, want in ((0, True), (mx - 1, True), (mx + 1, False), (2 * mx + 1, False)):
            env = {value_name: v, "$max": mx, "$min": -mx - 1, "$bits": bits}
            a, b = fold(cmpop.left, env), fold(cmpop.comparators[0], env)
            if a is None or b is None:
                return None
            if f(a, b) != want:
                return False, (f"int{bits} is accepted for the value {v}, which it cannot hold (its maximum is {mx}): distances "
                               f"wrap around when cast" if not want else f"int{bits} is rejected for the value {v} although it fits")
    return True, None


def _int_semantic(project: Project, rep, fi) -> str:
    """GH-INT decided by evaluating determine_optimal_int_type at the values where the answer changes: the largest value of
    int8 / int16 / int32 and the value just above each, 0, 2**62 (int64) and 2**64 (no type: must raise).  Exact: every test
    in the function is then a comparison of known numbers."""
    from ..core.absint import Config, Interp
    from ..core import sym
    from ..core.values import FuncV, Sc
    if not fi.params:
        return "unmodelled"
    want = [(0, "int8"), (127, "int8"), (128, "int16"), (32767, "int16"), (32768, "int32"), (2 ** 31 - 1, "int32"),
            (2 ** 31, "int64"), (2 ** 62, "int64"), (2 ** 64, None)]
    bad = []
    for v, t in want:
        I = Interp(project, Config())
        try:
            r = I.run(fi.qualname, {fi.params[0]: Sc(sym.Num(float(v)))})
        except AnalysisError:
            return "unmodelled"
        if I.unmodelled or I.lossy:
            return "unmodelled"
        raised = [ev for ev in I.log if ev["kind"] == "raise"]
        rets = [ev for ev in I.log if ev["kind"] == "return" and ev["fi"] is fi]
        if t is None:
            if not raised or rets:
                bad.append((v, "no type can hold it, yet " + (f"{r!r} is returned" if rets else "nothing is raised")))
            continue
        got = r.target.rsplit(".", 1)[-1] if isinstance(r, FuncV) and isinstance(r.target, str) else None
        if got is None and not raised:
            return "unmodelled"
        if got != t:
            bad.append((v, f"{'an exception' if got is None else 'numpy.' + got} instead of numpy.{t}"))
    if bad:
        v, why = bad[0]
        rep.refuted("GH-INT", fi, fi.node, f"determine_optimal_int_type({v}) gives {why}" +
                    (f" ({len(bad)} of {len(want)} probes differ)" if len(bad) > 1 else "") +
                    ": distances are cast to a type that cannot hold them, or to an unsigned one (differences wrap)",
                    construct=f"{fi.qualname}: type chosen for {v}")
        return "refuted"
    rep.discharged("GH-INT", fi, fi.node, f"evaluated at {len(want)} values around the type limits: the narrowest signed type that "
                                          f"holds the value is returned (int8 … int64), and a value beyond int64 raises")
    rep.discharged("GH-INT", fi, fi.node, "signed types only (a subtraction of distances cannot wrap)", nontrivial=False)
    return "ok"


def check_int(project: Project, rep):
    fi = project.function(f"{MOD}.determine_optimal_int_type")
    rep.analysed(fi)
    st_sem = _int_semantic(project, rep, fi)
    if st_sem != "unmodelled":
        _estimate_rejects_floats(project, rep)
        return
    from .common import fn_view
    f = fn_view(project, fi)
    ladder = None
    cmpop = None
    locs = local_names(f)
    for n in ast.walk(f):
        if isinstance(n, (ast.List, ast.Tuple)) and n.elts and all(isinstance(e, ast.Attribute) for e in n.elts):
            ladder = [e.attr for e in n.elts]
        if isinstance(n, ast.Name) and isinstance(n.ctx, ast.Load) and n.id not in locs and n.id in fi.module.globals:
            g = fi.module.globals[n.id]
            if isinstance(g, (ast.List, ast.Tuple)) and g.elts and all(isinstance(e, ast.Attribute) for e in g.elts):
                ladder = [e.attr for e in g.elts]
        if isinstance(n, ast.Compare) and len(n.ops) == 1 and "iinfo" in ast.unparse(n):
            cmpop = n
    if ladder is None or cmpop is None:
        rep.unmodelled("GH-INT", fi, f, "type ladder / comparison not found")
        return
    if ladder == ["int8", "int16", "int32", "int64"]:
        rep.discharged("GH-INT", fi, f, "ascending signed ladder int8 < int16 < int32 < int64")
    else:
        bits = [int("".join(c for c in t if c.isdigit()) or 0) for t in ladder]
        why = "unsigned type (subtractions wrap)" if any(t.startswith("uint") for t in ladder) else \
            ("not ascending" if bits != sorted(bits) else "not the signed ladder")
        rep.refuted("GH-INT", fi, f, f"integer type ladder {ladder}: {why}")
    t = ast.unparse(cmpop)
    sem = _int_test_semantics(cmpop, fi.params[0] if fi.params else "value")
    if sem is not None:
        ok, why = sem
        if ok:
            rep.discharged("GH-INT", fi, cmpop, f"`{t}` accepts a type exactly for values it can hold (constant-folded for "
                                                f"int8…int64 at the type's maximum and just above; `<` instead of `<=` only moves the "
                                                f"maximum itself to the next type)")
        else:
            rep.refuted("GH-INT", fi, cmpop, f"feasibility test `{t}`: {why}")
    elif isinstance(cmpop.ops[0], ast.LtE) and ".max" in ast.unparse(cmpop.comparators[0]):
        rep.discharged("GH-INT", fi, cmpop, "a type is feasible iff value <= its max")
    elif isinstance(cmpop.ops[0], ast.Lt) and ".max" in ast.unparse(cmpop.comparators[0]):
        rep.discharged("GH-INT", fi, cmpop, "a type is feasible iff value < its max (a value equal to the max only moves to the "
                                            "next wider type)")
    else:
        rep.refuted("GH-INT", fi, cmpop, f"feasibility test `{t}` is not `value <= iinfo(type).max`")
    _estimate_rejects_floats(project, rep)


def _estimate_rejects_floats(project: Project, rep):
    # estimate rejects non-integer matrices
    est = project.function(f"{MOD}.estimate")
    txt = ast.unparse(est.node)
    if "issubdtype" in txt and "raise" in txt:
        rep.discharged("GH-INT", est, est.node, "estimate() rejects non-integer distance matrices", nontrivial=False)
    else:
        rep.refuted("GH-INT", est, est.node, "estimate() no longer rejects non-integer distance matrices")


def check_det(project: Project, rep):
    oa = own_analysis(project)

    def reach(q, seen=None):
        seen = seen if seen is not None else set()
        if q in seen:
            return seen
        seen.add(q)
        s = oa.summaries.get(q) or oa.summary(q)
        for t, _ in s.repo_calls:
            base = t
            if base in project.functions:
                reach(base, seen)
        return seen

    def rng_sites(qs):
        out = []
        for q in qs:
            s = oa.summaries.get(q)
            if s is None:
                continue
            for t, n in s.ext_calls:
                if any(t.startswith(p) for p in RNG_PREFIXES):
                    owner = project.enclosing_function(s.fi.module, n)
                    if owner is not None and owner.qualname.split(".<locals>")[0] == q:
                        out.append((q, t, n))
        return out

    lb = project.function(f"{MOD}.find_lb")
    ub = project.function(f"{MOD}.find_ub")
    r_lb = reach(lb.qualname)
    r_ub = reach(ub.qualname)
    sites = rng_sites(r_lb)
    if sites:
        q, t, n = sites[0]
        rep.refuted("GH-DET", project.function(q), n, f"{t} is reachable from the lower bound: identical labelings no longer "
                                                      f"get identical lower bounds")
    else:
        rep.discharged("GH-DET", lb, lb.node, f"no random draw is reachable from find_lb ({len(r_lb)} functions in its call "
                                              f"graph)")
    sites_ub = rng_sites(r_ub)
    if sites_ub:
        rep.discharged("GH-DET", ub, ub.node, f"{len(sites_ub)} random draws, all reachable only through find_ub")
    else:
        rep.note("no random draw reachable from find_ub")
    everything = rng_sites([q for q in project.functions if q.startswith(MOD + ".")])
    outside = [s for s in everything if s[0] not in r_ub]
    for q, t, n in outside:
        rep.refuted("GH-DET", project.function(q), n, f"{t} is called outside the upper-bound heuristic")


def check_result_semantic(project: Project, rep) -> str:
    """GH-RESULT: `gromov_hausdorff` is evaluated with the per-pair work stubbed (distance matrix of graph k = dm(g_k), bounds of
    a pair = lb/ub(dm(g_i), dm(g_j))).  For a collection of n = 2, 3, 4 graphs the two results must be n×n arrays holding
    lb/ub(dm(g_i), dm(g_j)) at [i, j] and [j, i] for every i < j and 0 on the diagonal; for the two-argument call they must
    be the two scalars lb/ub(dm(g_0), dm(g_1)).  Returns ok / refuted / unmodelled."""
    from ..core.absint import Config, Interp
    from ..core import sym
    from ..core.values import Arr, NoneV, Sc, Seq
    fi = project.function(GH)
    est, dmq = f"{MOD}.estimate", f"{MOD}.make_distance_matrix_from_adjacency_matrix"
    if est not in project.functions or dmq not in project.functions:
        rep.unmodelled("GH-RESULT", fi, fi.node, "estimate / make_distance_matrix_from_adjacency_matrix not found")
        return "unmodelled"
    if len(fi.params) < 2:
        rep.unmodelled("GH-RESULT", fi, fi.node, f"unexpected signature {fi.params}")
        return "unmodelled"

    def stub_est(I, bound, node):
        vals = [v for v in bound.values() if isinstance(v, Sc) and v.e is not None and v.e[0] == "opq" and v.e[1] == "dm"]
        if len(vals) != 2:
            return I.unknown("estimate-arguments", node)
        return Seq([Sc(sym.Opq("lb", (vals[0].e, vals[1].e), None)), Sc(sym.Opq("ub", (vals[0].e, vals[1].e), None))], "tuple")

    def stub_dm(I, bound, node):
        a = list(bound.values())[0]
        if not (isinstance(a, Sc) and a.e is not None and a.e[0] == "sym"):
            return I.unknown("distance-matrix-argument", node)
        return Sc(sym.Opq("dm", (a.e,), None))

    def go(args):
        I = Interp(project, Config(flags={"stub_func": {est: stub_est, dmq: stub_dm}, "unroll_while": 12}))
        r = I.run(GH, args)
        return I, r
    g = lambda k: Sc(sym.Sym(f"g{k}"))
    want = lambda nm, i, j: sym.Opq(nm, (sym.Opq("dm", (sym.Sym(f"g{i}"),), None), sym.Opq("dm", (sym.Sym(f"g{j}"),), None)), None)
    status = "ok"
    n_cells = 0
    for n in (2, 3, 4, 5, 7):   # 5 and 7: 10 and 21 pairs — more than one batch of any small size, with a short last one
        try:
            I, r = go({fi.params[0]: Seq([g(k) for k in range(n)], "list"), fi.params[1]: NoneV()})
        except AnalysisError as ex:
            rep.unmodelled("GH-RESULT", fi, fi.node, f"collection of {n}: {ex}"[:160])
            return "unmodelled"
        rets = [ev for ev in I.log if ev["kind"] == "return" and ev["fi"] is fi]
        node = rets[-1]["node"] if rets else fi.node
        if I.unmodelled or I.lossy:
            why = I.lossy[0]["why"] if I.lossy else "unmodelled value: " + I.unmodelled[0]["tag"]
            rep.unmodelled("GH-RESULT", fi, node, f"collection of {n} graphs: the call could not be followed exactly ({why})")
            return "unmodelled"
        if not (isinstance(r, Seq) and len(r.items) == 2):
            rep.refuted("GH-RESULT", fi, node, f"collection of {n} graphs: the call does not return a pair (lower bounds, upper "
                                               f"bounds): {r!r}"[:200], construct=f"{GH}: result of a collection call")
            return "refuted"
        for nm, v in zip(("lb", "ub"), r.items):
            if not (isinstance(v, Arr) and v.ndim == 2 and all(sp.concrete == n for sp, _ in v.axes)):
                rep.refuted("GH-RESULT", fi, node,
                            f"collection of {n} graphs: the {'lower' if nm == 'lb' else 'upper'} bounds are {v!r}"[:160] +
                            f" instead of a {n}×{n} matrix", construct=f"{GH}: result of a collection call")
                status = "refuted"
                continue
            (s0, i0), (s1, i1) = v.axes
            for i in range(n):
                for j in range(n):
                    e = sym.subst_ivar(sym.subst_ivar(v.elem, i0, i), i1, j)
                    w = sym.ZERO if i == j else want(nm, min(i, j), max(i, j))
                    n_cells += 1
                    if e != w:
                        rep.refuted("GH-RESULT", fi, node,
                                    f"collection of {n} graphs: entry [{i}, {j}] of the {'lower' if nm == 'lb' else 'upper'} bounds is "
                                    f"{sym.show(e)[:70]} instead of {sym.show(w)[:70]}", construct=f"{GH}: bounds matrix entry")
                        status = "refuted"
                        break
                else:
                    continue
                break
    try:
        I, r = go({fi.params[0]: g(0), fi.params[1]: g(1)})
    except AnalysisError as ex:
        rep.unmodelled("GH-RESULT", fi, fi.node, f"two-argument call: {ex}"[:160])
        return "unmodelled"
    if I.unmodelled or I.lossy:
        rep.unmodelled("GH-RESULT", fi, fi.node, "two-argument call: could not be followed exactly")
        return "unmodelled"
    ok2 = isinstance(r, Seq) and len(r.items) == 2 and all(isinstance(x, Sc) for x in r.items) \
        and r.items[0].e == want("lb", 0, 1) and r.items[1].e == want("ub", 0, 1)
    if not ok2:
        rep.refuted("GH-RESULT", fi, fi.node, f"two-argument call: returns {r!r}"[:200] + " instead of the two bounds of the pair",
                    construct=f"{GH}: result of a pair call")
        status = "refuted"
    if status == "ok":
        rep.discharged("GH-RESULT", fi, fi.node, f"evaluated for collections of 2, 3 and 4 graphs ({n_cells} entries: each pair's "
                                                 f"bounds at [i, j] and [j, i], zero diagonal) and for the two-argument call (two "
                                                 f"scalars)")
    return status


def run(project: Project, rep, tier: str):
    rep.explain(
        "C17 (clauses decided): site rules over the mGH module with call resolution through the import table. GH-COERCE: "
        "`shortest_path(directed=False, unweighted=True)` on a coerced input. GH-LCC: the 'any infinite distance' branch "
        "warns and then restricts the square matrix with the same mask on rows and columns (accepted idioms DG[m][:, m], "
        "DG[np.ix_(m, m)], DG[m, :][:, m]). GH-SYM: writes only at the strict upper triangle, lower triangle copied from "
        "the own transpose with k=−1, pair call returns [0,1]. GH-INT: ascending signed ladder with <=. GH-DET: call-graph "
        "reachability — no RNG call from find_lb. GH-MAXD: bound provenance — on every call path to the histogram builder "
        "(`zeros((n, b+1))` indexed by `b − distance`) the bound expands to max(max(DX), max(DY)) and the matrix to DX, DY or "
        "a part of one of them, so no count wraps round to a wrong column (a necessary condition of 'valid brackets'). "
        "GH-LABEL: in every function that receives the two labelled distance matrices, no bound term is the NEGATION of an "
        "entry-by-entry comparison of the two used as a number (that would give a relabelled copy of one graph a positive "
        "lower bound; a positive-outcome shortcut is sound and left alone) — one necessary condition of relabelling invariance. "
        "Declined: that the bounds bracket the distance (C05); relabelling invariance beyond GH-LABEL.")
    fi, _ = check_coerce(project, rep)
    check_lcc(project, rep, fi)
    # GH-RESULT evaluates the entry point itself; GH-SYM reads the shapes it knows and gives way when the result was decided
    from ..core.report import Report
    pre = Report("C17-result")
    st_res = check_result_semantic(project, pre)
    if st_res != "unmodelled":
        check_result_semantic(project, rep)
    pre_s = Report("C17-sym")
    check_sym(project, pre_s)
    if st_res == "ok" and (pre_s.errors or pre_s.refutations):
        rep.discharged("GH-SYM", project.function(GH), project.function(GH).node,
                       "the bounds matrices are assembled in a way the site rule does not read; their contents were decided by "
                       "GH-RESULT", nontrivial=False)
        sym_floor = 1
    elif st_res == "refuted" and (pre_s.errors or pre_s.refutations):
        # the evaluated result is already refuted; what the site rule makes of shapes it does not know adds nothing
        rep.note("GH-SYM: the site rule does not read how the bounds matrices are assembled here; see GH-RESULT")
        sym_floor = 0
    else:
        check_sym(project, rep)
        sym_floor = 5
    check_int(project, rep)
    check_det(project, rep)
    # GH-MAXD: "valid brackets" needs the distance histograms of the lower-bound search to be laid out with a bound that covers
    # both spaces (a count at a negative column wraps round silently) — bound provenance over the call paths (bound_rule)
    from . import bound_rule
    bound_rule.positive_examples()
    bound_rule.check(project, rep, "GH-MAXD")
    # GH-LABEL: the one structural piece of relabelling invariance — no bound term is the negation of a positional comparison
    # of the two labelled distance matrices (label_rule)
    from . import label_rule
    label_rule.positive_examples()
    label_rule.check(project, rep, "GH-LABEL")
    for rn, n in (("GH-LABEL", 3), ("GH-COERCE", 3), ("GH-LCC", 2), ("GH-SYM", sym_floor), ("GH-INT", 3), ("GH-DET", 2), ("GH-MAXD", 4)):
        rep.floor(rn, n)
    for t in ("scipy.sparse.csgraph.shortest_path", "scipy.sparse.csgraph.connected_components", "numpy.tril_indices"):
        rep.trust(t)
