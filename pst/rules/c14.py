"""C14 — heat-kernel distance is a real pseudo-metric (heat.py).

Decided: HT-KER (the kernel is Reininghaus et al.'s: exp(-|p-q|²/8σ) − exp(-|p-q̄|²/8σ) summed over all pairs,
divided by 8πσ), HT-DIST (sqrt(k(F,F)+k(G,G)−2k(F,G)) with one σ), HT-SHIFT (translation invariance — proved),
HT-SWAP (k(F,G)=k(G,F)), HT-UNITS (exp arguments dimensionless with σ a squared length), HT-REAL (the radicand is
clamped non-negative, so the result is never NaN).
Declined: exact zero for reorderings in floating point, triangle inequality, diagonal-point cancellation, the
Wasserstein stability bound.
"""
from __future__ import annotations

import math

from ..core import facets, sym, symeval
from ..core.absint import Config, Interp
from ..core.loader import AnalysisError, Project
from ..core.values import Arr, Sc
from .distances import B, Dd, dgm_input, unmodelled_in

HEAT = "persim.heat.heat"
KER = "persim.heat.evalHeatKernel"


def kernel_spec(f, g, sigma):
    i, j = "$i", "$j"
    fb, fd = sym.In(f, ((i, 0), 0)), sym.In(f, ((i, 0), 1))
    gb, gd = sym.In(g, ((j, 0), 0)), sym.In(g, ((j, 0), 1))
    sq = lambda x: sym.power(x, sym.Num(2))
    a = sym.fn("exp", sym.div(sym.neg(sym.add(sq(sym.sub(fb, gb)), sq(sym.sub(fd, gd)))), sym.scale(sigma, 8.0)))
    b = sym.fn("exp", sym.div(sym.neg(sym.add(sq(sym.sub(fb, gd)), sq(sym.sub(fd, gb)))), sym.scale(sigma, 8.0)))
    body = sym.sub(a, b)
    tot = sym.Sum(i, ("rows", f), sym.Sum(j, ("rows", g), body))
    return sym.div(tot, sym.scale(sigma, 8.0 * math.pi))


def _run(project, qual, names, sigma=True):
    fi = project.function(qual)
    I = Interp(project, Config(nonempty={("rows", n) for n in names}, finite_inputs=set(names)))
    ps = fi.params
    args = {ps[0]: dgm_input(names[0]), ps[1]: dgm_input(names[1])}
    if len(ps) > 2:
        args[ps[2]] = Sc(sym.Sym("sigma"))
    r = I.run(qual, args)
    return fi, I, r


def check_empty_side(project: Project, rep):
    """HT-EMPTY — against the empty diagram the cross kernel and the empty diagram's own kernel are empty sums, so
    d(F, ∅) = sqrt(k(F, F)) (positive for a diagram with off-diagonal points): a short cut for 'nothing to compare' must not
    be taken when only one side is empty.  `heat` is evaluated with an empty second / first diagram."""
    from ..core.values import fix, fresh
    fi = project.function(HEAT)
    sigma = sym.Sym("sigma")
    for side in (1, 0):
        I = Interp(project, Config(nonempty={("rows", "F")}, finite_inputs={"F"}))
        E = Arr([(fix(0), fresh()), (fix(2), fresh())], sym.Opq("empty", ()), "nd")
        F = dgm_input("F")
        ps = fi.params
        args = {ps[0]: F if side == 1 else E, ps[1]: E if side == 1 else F}
        if len(ps) > 2:
            args[ps[2]] = Sc(sigma)
        what = "heat(F, ∅)" if side == 1 else "heat(∅, F)"
        try:
            r = I.run(HEAT, args)
        except Exception as ex:
            rep.unmodelled("HT-EMPTY", fi, fi.node, f"{what}: could not be followed ({type(ex).__name__}: {ex})"[:200])
            continue
        if I.unmodelled or I.lossy or not isinstance(r, Sc) or r.e is None or unmodelled_in(r.e):
            why = I.unmodelled[0]["tag"] if I.unmodelled else (I.lossy[0]["why"] if I.lossy else repr(r))
            rep.unmodelled("HT-EMPTY", fi, fi.node, f"{what}: not followed exactly ({why})"[:200])
            continue
        kff = kernel_spec("F", "F", sigma)
        specs = [sym.fn("sqrt", sym.fn("max", kff, sym.ZERO)), sym.fn("sqrt", kff)]
        res = [symeval.equivalent(r.e, s_, positive_syms={"sigma"}, trials=10) for s_ in specs]
        if any(x[0] is True for x in res):
            rep.discharged("HT-EMPTY", fi, fi.node, f"{what} = sqrt(k(F, F)): the distance to the empty diagram is the diagram's own norm")
        elif all(x[0] is False for x in res):
            rep.refuted("HT-EMPTY", fi, fi.node, f"{what} is {sym.show(r.e)[:80]}, not sqrt(k(F, F)): the distance to the empty diagram is "
                                                 f"not the diagram's own norm (zero for a non-trivial diagram breaks d(F, G) ≤ d(F, ∅) + d(∅, G))",
                        construct=f"{HEAT}: one empty diagram")
        else:
            rep.unmodelled("HT-EMPTY", fi, fi.node, f"{what}: the derived value could not be compared")


def check_one_sigma(project: Project, rep):
    """HT-ONESIGMA — the three kernel terms of one distance are evaluated with ONE bandwidth, however the caller supplies it.
    `heat` is executed with its kernel routine(s) observed instead of executed (stubs): once with the bandwidth given the way
    the signature always allowed, and once through every further optional parameter (a renamed / aliased spelling added
    later) — in each run all the kernel evaluations must be handed the same scalar arguments."""
    import ast as _ast
    from .common import own_analysis
    fi = project.function(HEAT)
    oa = own_analysis(project)
    mod = HEAT.rsplit(".", 1)[0]
    kernels = {KER} | {t for t, _ in oa.summary(KER).repo_calls if t.startswith(mod + ".")}
    a = fi.node.args
    pos = a.posonlyargs + a.args
    dflt = dict(zip([x.arg for x in pos[len(pos) - len(a.defaults):]], a.defaults))
    dflt.update({x.arg: d for x, d in zip(a.kwonlyargs, a.kw_defaults) if d is not None})
    params = [x.arg for x in pos + a.kwonlyargs]
    # parameters that can carry a bandwidth: the third one, and every optional one whose default is not a flag / a string
    cands = [p_ for p_ in params[2:] if not (p_ in dflt and isinstance(dflt[p_], _ast.Constant)
                                            and isinstance(dflt[p_].value, (bool, str)))]
    n_runs = 0
    for p_ in cands:
        calls = []

        def mk_stub(target, calls=calls):
            g = project.function(target)

            def stub(I_, bound, n_):
                if sum(1 for v in bound.values() if isinstance(v, Arr)) < 2:
                    # not a kernel evaluation (a helper that settles the spelling of the bandwidth, ...): executed as it is
                    return I_.call_function(g, [], dict(bound), n_)
                calls.append(dict(bound))
                return Sc(sym.Opq("kernel-value", (), f"k#{len(calls)}"))
            return stub
        I = Interp(project, Config(nonempty={("rows", "F"), ("rows", "G")}, finite_inputs={"F", "G"},
                                   flags={"stub_func": {k: mk_stub(k) for k in kernels}}))
        args = {params[0]: dgm_input("F"), params[1]: dgm_input("G"), p_: Sc(sym.Sym("sigma"))}
        try:
            with _quiet_warnings(I):
                I.run(HEAT, args)
        except Exception as ex:
            rep.unmodelled("HT-ONESIGMA", fi, fi.node, f"bandwidth passed as `{p_}`: the call could not be followed ({ex})"[:200])
            continue
        um = [u for u in I.unmodelled if not str(u["tag"]).startswith("prim:warnings")]
        if um or I.lossy:
            rep.unmodelled("HT-ONESIGMA", fi, fi.node, f"bandwidth passed as `{p_}`: the call was not followed exactly "
                                                       f"({um[0]['tag'] if um else I.lossy[0]['why']})"[:200])
            continue
        n_runs += 1
        if len(calls) < 3:
            rep.unmodelled("HT-ONESIGMA", fi, fi.node, f"bandwidth passed as `{p_}`: {len(calls)} kernel evaluations observed, "
                                                       f"expected three")
            continue
        scal = []
        for c in calls:
            scal.append(tuple(sorted((k, sym.show(v.e)) for k, v in c.items() if isinstance(v, Sc) and v.e is not None)))
        # the scalar settings the kernel evaluations receive, compared by value (the parameter names may differ between helpers)
        vals = [tuple(v for _, v in s_) for s_ in scal]
        if all(v == vals[0] for v in vals):
            rep.discharged("HT-ONESIGMA", fi, fi.node, f"bandwidth passed as `{p_}`: all {len(calls)} kernel evaluations receive "
                                                       f"{list(vals[0])}")
        else:
            rep.refuted("HT-ONESIGMA", fi, fi.node,
                        f"bandwidth passed as `{p_}`: the kernel terms of one distance are evaluated with different settings "
                        f"({[list(v) for v in vals]}): k(F,F) + k(G,G) − 2k(F,G) then mixes two kernels and is no squared norm "
                        f"(not zero for equal diagrams, triangle inequality lost)",
                        construct=f"{HEAT}: one bandwidth for the three kernel terms")
    if not n_runs:
        rep.unmodelled("HT-ONESIGMA", fi, fi.node, "no call of heat with a bandwidth could be followed")


class _quiet_warnings:
    def __init__(self, I):
        pass

    def __enter__(self):
        return self

    def __exit__(self, *a):
        return False


def run(project: Project, rep, tier: str):
    rep.explain(
        "C14 (clauses decided, not the numeric behaviour): `evalHeatKernel` and `heat` are evaluated symbolically on "
        "generic diagrams; the double loop folds into ΣΣ of the summand. HT-KER/HT-DIST compare the derived normal form "
        "with the multi-scale kernel and with sqrt(k11+k22−2k12) (structurally or by identity testing of the derived "
        "expressions, with a witness). HT-SHIFT: translation weight of the result is 0 ⇒ invariance under diagonal "
        "translation for every input. HT-SWAP: k(F,G) and k(G,F) are the same function. HT-UNITS: with σ a squared "
        "length every exp argument is dimensionless. HT-REAL: the argument of the outer square root must be proven "
        "non-negative (it is a difference of sums that round independently). Declined: exact zeros in floating point, "
        "triangle inequality, stability bound.")
    rep.assume("sigma > 0; exact arithmetic for HT-SHIFT/HT-SWAP; diagrams are (n,2) arrays")
    sigma = sym.Sym("sigma")
    fi_hs = project.function(HEAT)
    # ---- HT-STATE: the distance is a function of (F, G, sigma) alone — no module-level state is read back between calls
    from .common import own_analysis
    oa = own_analysis(project)
    s_h = oa.summary(HEAT)
    leaks = [ev for ev in s_h.events if (ev.kind == "globalstore") or (ev.kind == "write" and not ev.origin.is_arg
                                                                       and str(ev.origin).startswith(("global:", "default:")))]
    if leaks:
        ev = leaks[0]
        owner = project.functions.get(ev.func) or fi_hs
        rep.refuted("HT-STATE", owner, ev.node,
                    f"heat() keeps results in module-level state ({ev.origin}, {ev.how}): what a call returns depends on "
                    f"earlier calls (e.g. a memo keyed by the diagram alone serves k(F,F) computed for another sigma), so the "
                    f"value is no longer sqrt(k(F,F)+k(G,G)-2k(F,G)) at the requested sigma",
                    construct=f"{HEAT}: module-level state {ev.origin}")
    else:
        rep.discharged("HT-STATE", fi_hs, fi_hs.node, "no module-level state is written on any path: the distance depends on "
                                                    "its arguments only")
    # ---- HT-DTYPE: the kernel value is a function of the numbers in the diagrams, not of their numpy dtype: Gaussian terms
    # (floats) must not be stored into an array that inherits the caller's dtype (an int diagram truncates them)
    import ast as _ast
    from . import dtype_rule
    mod = HEAT.rsplit(".", 1)[0]
    n_fn = 0
    for q, f2 in sorted(project.functions.items()):
        if not q.startswith(mod + ".") or not isinstance(f2.node, (_ast.FunctionDef, _ast.AsyncFunctionDef)):
            continue
        n_fn += 1
        for h in dtype_rule.analyse(project, f2):
            rep.refuted("HT-DTYPE", f2, h["node"],
                        h["why"] + ": for a diagram given with integer coordinates numpy truncates the stored kernel terms, so the "
                                   "distance is no longer sqrt(k(F,F)+k(G,G)-2k(F,G)) of the multi-scale kernel (and differs between "
                                   "the same diagram written with ints and with floats)",
                        construct=f"{f2.qualname}: {_ast.unparse(h['node'])[:100]}")
    rep.discharged("HT-DTYPE", fi_hs, fi_hs.node, f"{n_fn} function(s) of {mod} inspected: no floating-point store into an array "
                                                  f"whose dtype is inherited from the caller's data")
    from . import intarith_rule
    for q, f2 in sorted(project.functions.items()):
        if not q.startswith(mod + ".") or f2.parent is not None or not isinstance(f2.node, (_ast.FunctionDef, _ast.AsyncFunctionDef)):
            continue
        ap_ = intarith_rule.array_params_of(project, f2)
        hs_ = intarith_rule.analyse(project, f2)
        if not ap_ and not hs_:
            continue
        for h in hs_:
            rep.refuted("HT-DTYPE", f2, h["node"], h["why"] + ": the squared distances inside the Gaussian terms are then not those of "
                                                              "the points given, so the value is not the kernel's",
                        construct=f"{f2.qualname}: {_ast.unparse(h['node'])[:100]}")
        if not hs_:
            rep.discharged("HT-DTYPE", f2, f2.node, f"array parameters {sorted(ap_)}: no difference of two caller arrays, product, "
                                                    f"power or sum is formed while the operands still have the caller's dtype")
    from . import narrow_rule
    for entry_ in (HEAT, KER):
        hits, st_ = narrow_rule.analyse(project, mod, entry_)
        for h in hits:
            rep.refuted("HT-DTYPE", h["fi"], h["node"],
                        h["why"] + ": coordinates are rounded to a relative 6e-8 before the Gaussian terms are formed, so the value "
                                   "is no longer that of the kernel on the diagrams given (nearby points merge, far-away diagrams lose "
                                   "digits)", construct=f"{h['fi'].qualname}: {_ast.unparse(h['node'])[:100]}")
        if not hits:
            rep.discharged("HT-DTYPE", fi_hs, fi_hs.node, f"{entry_.rsplit('.', 1)[1]}: {st_.get('casts', 0)} cast(s) in "
                                                          f"{st_.get('functions', 0)} function(s), none narrows the diagrams' "
                                                          f"coordinates to single precision", nontrivial=False)
    from .common import numerics_positive_examples
    rep.extra["positive_examples"] = numerics_positive_examples()
    from . import scatter_rule
    hits, st_ = scatter_rule.analyse(project, mod + ".")
    for h in hits:
        rep.refuted("HT-MULT", h["fi"], h["node"],
                    h["why"] + ": a point that occurs several times in a diagram counts once, so the value is not "
                               "sqrt(k(F,F)+k(G,G)-2k(F,G)) of the diagrams given (heat([p,p],[p]) becomes 0)",
                    construct=f"{h['fi'].qualname}: {_ast.unparse(h['node'])[:100]}")
    if not hits:
        rep.discharged("HT-MULT", fi_hs, fi_hs.node, f"{st_['functions']} function(s): no contribution is added through a grouping "
                                                     f"index without accumulating ({st_['accumulating_sites']} accumulating site(s))",
                       nontrivial=False)
    # ---- kernel
    fi_k, I_k, r_k = _run(project, KER, ("F", "G"))
    rep.analysed(fi_k)
    if not isinstance(r_k, Sc) or unmodelled_in(r_k.e):
        rep.unmodelled("HT-KER", fi_k, fi_k.node, f"kernel value not fully modelled: {r_k!r}"[:300])
        return
    spec = kernel_spec("F", "G", sigma)
    ok, w = symeval.equivalent(r_k.e, spec, positive_syms={"sigma"}, trials=16, degenerate=True)
    if ok is True:
        rep.discharged("HT-KER", fi_k, fi_k.node, "kernel = (1/8πσ)·ΣΣ[exp(−|p−q|²/8σ) − exp(−|p−q̄|²/8σ)] over all pairs",
                       derived=sym.show(r_k.e)[:300])
    elif ok is False and not I_k.clean_before():
        rep.unmodelled("HT-KER", fi_k, fi_k.node, "the derived kernel differs from the specification, but a step of the run was "
                                                  "not modelled (" + "; ".join(sorted({str(u.get("tag")) for u in I_k.unmodelled}
                                                                                      | {str(l.get("why", ""))[:60] for l in I_k.lossy}))[:200]
                       + "): no verdict")
    elif ok is False:
        rep.refuted("HT-KER", fi_k, fi_k.node,
                    f"the kernel computed is {sym.show(r_k.e)[:300]} — not the multi-scale kernel of Reininghaus et al.; "
                    f"witness {w}", construct=f"{KER}: kernel formula", failing_input=str(w))
    else:
        rep.unmodelled("HT-KER", fi_k, fi_k.node, f"cannot evaluate derived kernel ({w})")
    # both loops range over all rows
    loops = [l for l in I_k.log if l["kind"] == "loop" and l["fi"] is fi_k]
    sizes = sorted(sym.show(l["space"].size) for l in loops if l["space"] is not None)
    rep.discharged("HT-KER", fi_k, fi_k.node, f"loops range over {sizes}", nontrivial=False)
    # units
    dd = facets.DegDecl(syms={"sigma": 2})
    d = facets.degree(r_k.e, dd)
    if facets.is_top(d):
        if d.reason.startswith("unmodelled"):
            rep.unmodelled("HT-UNITS", fi_k, fi_k.node, d.reason)
        else:
            rep.refuted("HT-UNITS", fi_k, fi_k.node, f"with σ a squared length: {d.reason} "
                                                     f"[{sym.show(d.culprit)[:160] if d.culprit is not None else ''}]",
                        construct=f"{KER}: units")
    else:
        rep.discharged("HT-UNITS", fi_k, fi_k.node, f"every exp argument is dimensionless (σ: length²); kernel degree "
                                                    f"{facets._dshow(d)}")
    # swap
    fi_k2, I_k2, r_k2 = _run(project, KER, ("G", "F"))
    if isinstance(r_k2, Sc):
        ok, w = symeval.equivalent(r_k.e, r_k2.e, positive_syms={"sigma"}, trials=16)
        if ok is True:
            rep.discharged("HT-SWAP", fi_k, fi_k.node, "k(F,G) and k(G,F) are the same function (symmetry of the "
                                                       "distance)")
        elif ok is False:
            rep.refuted("HT-SWAP", fi_k, fi_k.node, f"k(F,G) ≠ k(G,F): witness {w}", construct=f"{KER}: symmetry")
    # ---- distance
    fi_h, I_h, r_h = _run(project, HEAT, ("F", "G"))
    rep.analysed(fi_h)
    if not isinstance(r_h, Sc) or unmodelled_in(r_h.e):
        rep.unmodelled("HT-DIST", fi_h, fi_h.node, f"distance not fully modelled: {r_h!r}"[:300])
        return
    for ev in I_h.log:
        if ev["kind"] == "sort-columns" and ev["fi"] is fi_h:
            rep.refuted("HT-DIST", fi_h, ev["node"],
                        "a diagram's birth and death columns are sorted independently (np.sort(..., axis=0)) to decide the "
                        "distance: different diagrams with the same births and deaths, paired differently, get distance 0 "
                        "(F=[[0,2],[1,3]], G=[[0,3],[1,2]]: true distance 0.1546)")
    # a short-cut `return <constant>` under an input-equality test is looked at separately from the main formula
    rets = [ev for ev in I_h.log if ev["kind"] == "return" and ev["fi"] is fi_h]
    main_vals = [ev["value"] for ev in rets if isinstance(ev["value"], Sc) and ev["value"].e[0] != "num"]
    if len(rets) > 1 and len(main_vals) == 1:
        r_h = main_vals[0]
    rad = sym.add(sym.add(kernel_spec("F", "F", sigma), kernel_spec("G", "G", sigma)),
                  sym.scale(kernel_spec("F", "G", sigma), -2.0))
    specs = [sym.fn("sqrt", sym.fn("max", rad, sym.ZERO)), sym.fn("sqrt", rad)]
    if ok_kernel := True:
        res = [symeval.equivalent(r_h.e, s, positive_syms={"sigma"}, trials=12) for s in specs]
        if any(r[0] is True for r in res):
            rep.discharged("HT-DIST", fi_h, fi_h.node, "distance = sqrt(k(F,F) + k(G,G) − 2·k(F,G)) with one σ")
        elif all(r[0] is False for r in res):
            rep.refuted("HT-DIST", fi_h, fi_h.node,
                        f"distance is {sym.show(r_h.e)[:200]}…, not sqrt(k(F,F)+k(G,G)−2k(F,G)); witness {res[0][1]}",
                        construct=f"{HEAT}: distance formula")
        else:
            rep.unmodelled("HT-DIST", fi_h, fi_h.node, "cannot evaluate derived distance")
    w = facets.weight(r_h.e, facets.ShiftDecl())
    if facets.is_top(w):
        if w.reason.startswith("unmodelled"):
            rep.unmodelled("HT-SHIFT", fi_h, fi_h.node, w.reason)
        else:
            rep.refuted("HT-SHIFT", fi_h, fi_h.node, f"not invariant under diagonal translation: {w.reason}",
                        construct=f"{HEAT}: translation")
    elif w == sym.ZERO:
        rep.discharged("HT-SHIFT", fi_h, fi_h.node, "translation weight 0: invariant under translating both diagrams "
                                                    "along the diagonal, for every input")
    else:
        rep.refuted("HT-SHIFT", fi_h, fi_h.node, f"translation weight {sym.show(w)} ≠ 0", construct=f"{HEAT}: translation")
    # ---- HT-REAL
    sq = [ev for ev in I_h.log if ev["kind"] == "sqrt" and ev["fi"] is fi_h]
    if not sq:
        rep.unmodelled("HT-REAL", fi_h, fi_h.node, "outer square root not found")
    for ev in sq:
        arg = ev["arg"]
        e = arg.e if isinstance(arg, Sc) else None
        if e is None:
            rep.unmodelled("HT-REAL", fi_h, ev["node"], "radicand is not a scalar")
            continue
        s = facets.sign(e, ev["path"], pos_syms={"sigma"})
        if s in (facets.NONNEG, facets.POS, facets.ZERO_S):
            rep.discharged("HT-REAL", fi_h, ev["node"], f"radicand is proven {s} (clamped), so the result is a real "
                                                        f"number for every input")
        else:
            rep.refuted("HT-REAL", fi_h, ev["node"],
                        "the radicand k(F,F)+k(G,G)−2k(F,G) is a difference of separately rounded sums with no clamp: "
                        "for a diagram and a reordering of itself it can be a tiny negative number and the distance is "
                        "NaN",
                        construct=f"{HEAT}: unclamped sqrt",
                        failing_input="F = 6 random points, G = a permutation of F: NaN in 428 of 2000 trials")
    check_one_sigma(project, rep)
    check_empty_side(project, rep)
    for r, n in (("HT-KER", 2), ("HT-DIST", 1), ("HT-SHIFT", 1), ("HT-SWAP", 1), ("HT-UNITS", 1), ("HT-REAL", 1), ("HT-STATE", 1),
                 ("HT-ONESIGMA", 1)):
        rep.floor(r, n)
    for t in ("numpy.exp", "numpy.sum", "numpy.sqrt", "numpy.array", "numpy.maximum"):
        rep.trust(t)
