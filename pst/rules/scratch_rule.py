"""BUF-STALE — a scratch buffer that is written in part and read whole.

A buffer allocated once, before a loop, and refilled in every round only up to a round-dependent length m (`B[:m] = ...`,
`out=B[:m]`, `B[:m] *= ...`) still holds, beyond m, what an earlier round left there.  A read inside the loop that takes the
whole buffer (`B.T @ C`, `np.sum(B)`, `f(B)`) instead of `B[:m]` uses those stale rows whenever a round is shorter than the
one before — the last, short block of a blocked computation.

    allocation   `B = np.empty/zeros/ones/full(...)` (or `*_like`), a single binding, outside the loop
    writes       every store into B inside the loop goes through a first-axis slice `[:m]` (`[0:m]`, `[:m, ...]`) with one and
                 the same name m, and m is assigned inside the loop (it varies from round to round)
    whole read   a load of B inside the loop that is not the base of such a slice

Reported only when all three hold; a buffer that is also written whole inside the loop, or sliced by different names, is
left alone.
"""
from __future__ import annotations

import ast
from typing import List, Optional

from ..core.loader import FunctionInfo, Project

ALLOC = {"empty", "zeros", "ones", "full", "empty_like", "zeros_like", "ones_like", "full_like"}


def _first_axis_upper(sl) -> Optional[str]:
    """m for a subscript `[:m]`, `[0:m]`, `[:m, ...]`; None otherwise"""
    first = sl.elts[0] if isinstance(sl, ast.Tuple) and sl.elts else sl
    if isinstance(first, ast.Slice) and first.step is None and isinstance(first.upper, ast.Name) \
            and (first.lower is None or (isinstance(first.lower, ast.Constant) and first.lower.value == 0)):
        return first.upper.id
    if isinstance(first, ast.Slice) and first.step is None and first.upper is not None and not isinstance(first.upper, ast.Constant) \
            and (first.lower is None or (isinstance(first.lower, ast.Constant) and first.lower.value == 0)) \
            and any(isinstance(x, ast.Name) for x in ast.walk(first.upper)):
        return ast.unparse(first.upper)      # `[: rows.shape[0]]`, `[: len(chunk)]`: the text of the bound
    return None


def analyse(project: Project, fi: FunctionInfo) -> List[dict]:
    f = fi.node
    if not isinstance(f, (ast.FunctionDef, ast.AsyncFunctionDef)):
        return []
    parents = {}
    for n in ast.walk(f):
        for c in ast.iter_child_nodes(n):
            parents[id(c)] = n

    def loops_of(n):
        out = []
        p = parents.get(id(n))
        while p is not None and p is not f:
            if isinstance(p, (ast.For, ast.While)):
                out.append(p)
            p = parents.get(id(p))
        return out
    stores = {}
    for n in ast.walk(f):
        if isinstance(n, ast.Name) and isinstance(n.ctx, ast.Store):
            stores.setdefault(n.id, []).append(n)
    hits = []
    # a scratch array may also be handed in by the caller (allocated once per call there): a parameter that is written
    # through `out=` / a slice store in a loop of this function and never rebound
    a_ = f.args
    cands = [(n, n.targets[0].id) for n in ast.walk(f)
             if isinstance(n, ast.Assign) and len(n.targets) == 1 and isinstance(n.targets[0], ast.Name) and isinstance(n.value, ast.Call)
             and (n.value.func.attr if isinstance(n.value.func, ast.Attribute) else getattr(n.value.func, "id", "")) in ALLOC
             and len(stores.get(n.targets[0].id, [])) == 1]
    cands += [(f, p_.arg) for p_ in a_.posonlyargs + a_.args + a_.kwonlyargs if p_.arg not in stores and p_.arg not in ("self", "cls")]
    for n, B in cands:
        if n is f and not any(isinstance(k_, ast.keyword) and k_.arg == "out" and any(
                isinstance(x, ast.Name) and x.id == B for x in ast.walk(k_.value)) for k_ in ast.walk(f)):
            continue      # a parameter only counts as a scratch buffer when it is an `out=` target somewhere
        alloc_loops = loops_of(n) if n is not f else []
        for lp in [x for x in ast.walk(f) if isinstance(x, (ast.For, ast.While)) and x not in alloc_loops
                   and (n is f or x.lineno > n.lineno) and all(a in loops_of(x) or True for a in alloc_loops)]:
            if any(lp in loops_of(other) for other in [lp]):
                pass
            inside = [x for st in lp.body for x in ast.walk(st)]
            uses = [x for x in inside if isinstance(x, ast.Name) and x.id == B]
            if not uses:
                continue
            writes, reads = [], []
            for u in uses:
                par = parents.get(id(u))
                sub = par if isinstance(par, ast.Subscript) and par.value is u else None
                m = _first_axis_upper(sub.slice) if sub is not None else None
                ctx_node = sub if sub is not None else u
                cpar = parents.get(id(ctx_node))
                is_store = isinstance(getattr(ctx_node, "ctx", None), ast.Store) or \
                    (isinstance(cpar, ast.AugAssign) and cpar.target is ctx_node) or \
                    (isinstance(cpar, ast.keyword) and cpar.arg == "out")
                if is_store:
                    writes.append((ctx_node, m))
                    if isinstance(cpar, ast.AugAssign):
                        reads.append((ctx_node, m))   # an in-place update reads what it updates
                else:
                    reads.append((ctx_node, m))
            ms = {m for _, m in writes}
            if not writes or None in ms or len(ms) != 1:
                continue
            m = next(iter(ms))
            try:
                m_names = {x.id for x in ast.walk(ast.parse(m, mode="eval")) if isinstance(x, ast.Name)}
            except SyntaxError:
                m_names = {m}
            varies = any(isinstance(x, ast.Name) and x.id in m_names and isinstance(x.ctx, ast.Store) for x in inside)
            if not varies:
                continue
            whole = [r for r, rm in reads if rm != m]
            if whole:
                r = whole[0]
                expr = parents.get(id(r))
                while expr is not None and not isinstance(expr, ast.stmt) and not isinstance(expr, (ast.BinOp, ast.Call)):
                    expr = parents.get(id(expr))
                hits.append(dict(node=r, buffer=B, m=m,
                                 why=f"`{B}` is a scratch buffer allocated once ({'by the caller' if n is f else 'line ' + str(n.lineno)}) and refilled in every round of the loop "
                                     f"only up to row `{m}`, but `{ast.unparse(expr if expr is not None else r)[:60]}` reads all of it: in a "
                                     f"round with a smaller `{m}` (the last, short block) the rows beyond `{m}` still hold the previous "
                                     f"round's values"))
                break
    return hits


def analyse_masked(project: Project, fi: FunctionInfo, f=None) -> List[dict]:
    """second shape: the buffer (or a view `V = B[:m]` of it taken in every round) receives its values only under a boolean
    / index mask (`V[ind] = ...`), and is then read whole (`V + c`, `-V / 2`, `return V`, `out[...] = V`).  The entries outside
    the mask are what the previous round left, unless the round first resets the region (`B[:m] = c`, `V[:] = c`,
    `V.fill(c)`, `B[...] = c`).  `f` is the function's helper-inlined view when the buffer travels through a helper."""
    f = f if f is not None else fi.node
    if not isinstance(f, (ast.FunctionDef, ast.AsyncFunctionDef)):
        return []
    parents = {}
    for n in ast.walk(f):
        for c in ast.iter_child_nodes(n):
            parents[id(c)] = n
    stores = {}
    for n in ast.walk(f):
        if isinstance(n, ast.Name) and isinstance(n.ctx, ast.Store):
            stores.setdefault(n.id, []).append(n)
    hits = []
    for n in ast.walk(f):
        if not (isinstance(n, ast.Assign) and len(n.targets) == 1 and isinstance(n.targets[0], ast.Name) and isinstance(n.value, ast.Call)):
            continue
        fn = n.value.func
        nm = fn.attr if isinstance(fn, ast.Attribute) else getattr(fn, "id", "")
        B = n.targets[0].id
        if nm not in ALLOC or len(stores.get(B, [])) != 1:
            continue
        for lp in [x for x in ast.walk(f) if isinstance(x, (ast.For, ast.While)) and x.lineno > n.lineno
                   and not any(y is n for y in ast.walk(x))]:
            body = [x for st in lp.body for x in ast.walk(st)]
            # names that are, inside the loop, a view of the buffer taken afresh in every round
            views = {B}
            for x in body:
                if isinstance(x, ast.Assign) and len(x.targets) == 1 and isinstance(x.targets[0], ast.Name) \
                        and isinstance(x.value, ast.Subscript) and isinstance(x.value.value, ast.Name) and x.value.value.id == B \
                        and isinstance(x.value.slice, ast.Slice):
                    views.add(x.targets[0].id)
            if len(views) == 1 and not any(isinstance(x, ast.Name) and x.id == B for x in body):
                continue
            masked, resets, whole_reads, rebound = [], [], [], []
            order = {id(x): k for k, x in enumerate(body)}

            def is_mask(sl) -> bool:
                """a boolean / index-array selection (not the integer index of an element-by-element fill)"""
                def maskish(v):
                    if isinstance(v, ast.Compare) or (isinstance(v, ast.UnaryOp) and isinstance(v.op, ast.Invert)):
                        return True
                    if isinstance(v, ast.BinOp) and isinstance(v.op, (ast.BitAnd, ast.BitOr, ast.BitXor)):
                        return True
                    if isinstance(v, ast.Call):
                        nm_ = v.func.attr if isinstance(v.func, ast.Attribute) else getattr(v.func, "id", "")
                        return nm_ in ("where", "nonzero", "flatnonzero", "isfinite", "isnan", "isinf", "logical_and", "logical_or",
                                       "logical_not", "isclose", "argwhere", "greater", "less", "greater_equal", "less_equal")
                    return False
                if isinstance(sl, ast.Name):
                    defs_ = [x.value for x in body if isinstance(x, ast.Assign) and any(
                        isinstance(t, ast.Name) and t.id == sl.id for t in x.targets)]
                    return bool(defs_) and all(maskish(v) for v in defs_)
                return maskish(sl)
            for x in body:
                if isinstance(x, ast.Assign):
                    for t in x.targets:
                        if isinstance(t, ast.Subscript) and isinstance(t.value, ast.Name) and t.value.id in views:
                            sl = t.slice
                            if isinstance(sl, ast.Slice) or (isinstance(sl, ast.Constant) and sl.value is Ellipsis) \
                                    or (isinstance(sl, ast.Tuple) and all(isinstance(e_, ast.Slice) for e_ in sl.elts)):
                                resets.append(x)          # a store that covers the region
                            elif is_mask(sl):
                                masked.append(x)          # a store under a mask / an index array
                        elif isinstance(t, ast.Name) and t.id in views and t.id != B and not (
                                isinstance(x.value, ast.Subscript) and isinstance(x.value.value, ast.Name) and x.value.value.id == B):
                            rebound.append(x)             # the view name is re-bound to a fresh value later on
                elif isinstance(x, ast.Expr) and isinstance(x.value, ast.Call) and isinstance(x.value.func, ast.Attribute) \
                        and x.value.func.attr == "fill" and isinstance(x.value.func.value, ast.Name) and x.value.func.value.id in views:
                    resets.append(x)
            if not masked:
                continue
            first_masked = min(masked, key=lambda x: order[id(x)])
            if any(order[id(r_)] < order[id(first_masked)] for r_ in resets):
                continue   # the round resets the region before filling it
            # a whole read of a view after the first masked store and before the name is re-bound
            limit = min([order[id(r_)] for r_ in rebound if order[id(r_)] > order[id(first_masked)]] + [len(body) + 1])
            for x in body:
                if isinstance(x, ast.Name) and x.id in views and isinstance(x.ctx, ast.Load) and order[id(x)] > order[id(first_masked)]:
                    par = parents.get(id(x))
                    if isinstance(par, ast.Subscript) and par.value is x:
                        continue   # a partial read / the store target itself
                    st_ = par
                    while st_ is not None and not isinstance(st_, ast.stmt):
                        st_ = parents.get(id(st_))
                    if st_ is not None and order.get(id(st_), 0) > limit:
                        continue
                    whole_reads.append((x, st_))
            if whole_reads:
                x, st_ = whole_reads[0]
                hits.append(dict(node=x, buffer=B, m="mask",
                                 why=f"`{B}` is a scratch buffer allocated once (line {n.lineno}) and handed to every round of the loop; "
                                     f"inside a round it receives values only where a mask holds (`{ast.unparse(first_masked)[:50]}…`) and is "
                                     f"then read whole (`{ast.unparse(st_)[:50] if st_ is not None else x.id}…`) without being reset first: "
                                     f"outside the mask it still holds the previous round's values"))
                break
    return hits


def positive_examples() -> dict:
    import os
    from ..core.loader import AnalysisError
    here = os.path.join(os.path.dirname(os.path.dirname(os.path.abspath(__file__))), "selftest", "positive")
    pp = Project(here, pkg="pospkg")
    got = {fi.name: len(analyse(pp, fi)) + len(analyse_masked(pp, fi)) for q, fi in pp.functions.items() if q.startswith("pospkg.scratch.")}
    if not got.get("masked_fill_read_whole"):
        raise AnalysisError("BUF-STALE positive example (masked fill) was not found (the rule is not working)")
    if got.get("masked_fill_after_reset"):
        raise AnalysisError("BUF-STALE clean example `masked_fill_after_reset` was flagged")
    if not got.get("blocked_sum_reads_whole_buffer"):
        raise AnalysisError("BUF-STALE positive example was not found (the rule is not working)")
    if not got.get("threshold_rows_reads_whole_scratch"):
        raise AnalysisError("BUF-STALE positive example (scratch array handed in by the caller) was not found")
    for nme in ("blocked_sum_reads_written_part", "buffer_filled_whole", "threshold_rows_reads_written_part"):
        if got.get(nme):
            raise AnalysisError(f"BUF-STALE clean example `{nme}` was flagged")
    return got


def check(project: Project, rep, rule: str = "BUF-STALE"):
    from .oneshot import reachable_functions
    rep.extra["scratch_positive_examples"] = positive_examples()
    fns = reachable_functions(project, sorted(rep.functions_analysed))
    n = 0
    for fi in fns:
        hs = analyse(project, fi) + analyse_masked(project, fi)
        if not hs and any(isinstance(x, (ast.For, ast.While)) for x in ast.walk(fi.node)):
            try:
                from .common import fn_view
                view = fn_view(project, fi)
            except Exception:
                view = None
            if view is not None and view is not fi.node:
                hs = analyse_masked(project, fi, view)   # the buffer travels through a helper
        for h in hs:
            n += 1
            rep.refuted(rule, fi, h["node"], h["why"], construct=f"{fi.qualname}: whole read of scratch buffer `{h['buffer']}`")
    if not n:
        rep.discharged(rule, None, None, f"{len(fns)} function(s): no scratch buffer is refilled in part and read whole", nontrivial=False)
    return len(fns)
