"""C18 — transformers: fit+transform == fit_transform, and refits forget the past (images.py, landscapes/transformer.py).

Decided: TF-RO (`transform` of both transformers writes nothing on self, transitively), TF-FT (fit_transform is
fit then transform on the same data and flags; the landscaper inherits scikit-learn's), TF-ORDER (the image
transformer maps the collection element by element in order), TF-HIST (after fit(A); fit(B) no attribute of the
transformer depends on A — decided by symbolically executing the two fits and looking for atoms of A in the
derived state; user-fixed parameters may appear).
Declined: numerical equality of outputs across calls (follows from purity + determinism, C19).
"""
from __future__ import annotations

import ast

from ..core import sym
from ..core.absint import Config, Interp
from ..core.loader import AnalysisError, Project
from ..core.values import Alt, Arr, Sc, Seq, Val
from .common import local_names, own_analysis
from .distances import dgm_input

IMG = "persim.images.PersistenceImager"
LSC = "persim.landscapes.transformer.PersistenceLandscaper"


def _exprs(v: Val):
    if isinstance(v, Sc):
        return [v.e]
    if isinstance(v, Arr):
        return [v.elem] + [sp.size for sp, _ in v.axes]
    if isinstance(v, Seq):
        out = []
        for x in v.items:
            out += _exprs(x)
        return out
    if isinstance(v, Alt):
        out = []
        for x in v.vals:
            out += _exprs(x)
        return out
    return []


def _depends_on(v: Val, name: str) -> bool:
    for e in _exprs(v):
        for x in sym.walk(e):
            if x[0] == "in" and x[1] == name:
                return True
            if x[0] == "size" and x[1] == ("rows", name):
                return True
    return False


def check_ro(project: Project, rep):
    oa = own_analysis(project)
    for cq in (IMG, LSC):
        c = project.cls(cq)
        tr = c.methods.get("transform")
        if tr is None:
            raise AnalysisError(f"TF-RO: {cq}.transform not found")
        rep.analysed(tr)
        s = oa.summary(tr.qualname)
        selfp = tr.params[0]
        evs = [ev for ev in s.events if ev.origin.is_arg and ev.origin.param == selfp and ev.kind in ("attrstore", "write")]
        # a memo slot (rebuilt whenever the recorded key changes) is not fitted state: it is decided by what the key contains
        from . import memo_rule
        memo_seen = {}
        kept = []
        for ev in evs:
            r_ = None
            if ev.kind == "attrstore" and ev.attr:
                if ev.attr not in memo_seen:
                    try:
                        memo_seen[ev.attr] = memo_rule.classify_attr(project, c, ev.attr)
                    except Exception:
                        memo_seen[ev.attr] = None
                r_ = memo_seen[ev.attr]
            if r_ is None:
                kept.append(ev)
                continue
            tag = (r_["slot"], r_["key_attr"])
            if tag in memo_seen:
                continue
            memo_seen[tag] = True
            if r_["verdict"] == "ok":
                rep.discharged("TF-CACHE", r_["fi"], r_["node"], r_["why"])
            elif r_["verdict"] == "refuted":
                rep.refuted("TF-CACHE", r_["fi"], r_["node"], r_["why"] + ": a refit does not forget the past",
                            construct=f"{r_['fi'].qualname}: memo {r_['slot']}")
            else:
                rep.unmodelled("TF-CACHE", r_["fi"], r_["node"], f"memo slot `{r_['slot']}`: {r_['why']}")
        evs = kept
        if evs:
            for ev in evs:
                owner = project.functions.get(ev.func) or tr
                rep.refuted("TF-RO", owner, ev.node,
                            f"{cq.rsplit('.', 1)[1]}.transform changes the fitted state ({ev.kind} of "
                            f"{ev.origin}{'.' + ev.attr if ev.attr else ''}" + (f" via {' -> '.join(ev.chain)}" if ev.chain else "") +
                            "): transforming is not repeatable",
                            construct=f"{tr.qualname}: {ast.unparse(ev.node)}")
        else:
            rep.discharged("TF-RO", tr, tr.node, f"transitive write-set of transform on self is empty "
                                                 f"({len(s.repo_calls)} repo calls followed)")


def check_data_untouched(project: Project, rep):
    """TF-DATA: fit / transform / fit_transform do not write through the data they are given. If they did, fit(X) followed
    by transform(X) would transform what fit left behind (not what fit_transform sees), and a refit on the same X would learn
    from X as modified by the first fit."""
    oa = own_analysis(project)
    for cq in (IMG, LSC):
        c = project.cls(cq)
        for mname in ("fit", "transform", "fit_transform"):
            m = c.lookup(mname, project)
            if m is None or not m.qualname.startswith("persim."):
                continue
            s = oa.summary(m.qualname)
            data_params = [p_ for p_ in m.params[1:2]]
            evs = [ev for ev in s.events if ev.kind == "write" and ev.origin.is_arg and ev.origin.param in data_params]
            if evs:
                ev = evs[0]
                owner = project.functions.get(ev.func) or m
                rep.refuted("TF-DATA", owner, ev.node,
                            f"{cq.rsplit('.', 1)[1]}.{mname} writes into the data it was given ({ev.how} on {ev.origin}"
                            + (f" via {' -> '.join(ev.chain)}" if ev.chain else "") + "): a later transform / refit on the same "
                            "object sees data altered by this call, so fit + transform and repeated fits stop agreeing with "
                            "fit_transform / a single fit",
                            construct=f"{m.qualname}: write through the data argument")
            else:
                rep.discharged("TF-DATA", m, m.node, f"{cq.rsplit('.', 1)[1]}.{mname}: no write reaches the data argument "
                                                     f"({len(s.repo_calls)} repo calls followed)")


def _ft_semantic(project: Project):
    """fit_transform(X, skew) against fit(X, skew); transform(X, skew), by evaluation: the per-diagram routine is observed
    instead of executed, and what it is handed — the diagram in birth–persistence coordinates, whether converted before the
    call or by the routine's own `skew` — and the fitted ranges must agree.  'ok' / 'differs: why' / None (not followed)."""
    from ..core import sym as _sym
    from ..core.values import Arr, Sc, Seq
    from .c11 import TR, _imager
    from .distances import dgm_input
    c = project.cls(IMG)
    callee = project.function(TR)

    def effective(bound):
        d = bound.get(callee.params[0])
        sk = bound.get("skew")
        if not (isinstance(d, Arr) and d.ndim == 2 and d.axes[1][0].concrete == 2 and isinstance(sk, Sc) and sk.e in (_sym.TRUE, _sym.FALSE)):
            return None
        d = d.renamed()
        iv = d.axes[1][1]
        b, q = _sym.subst_ivar(d.elem, iv, 0), _sym.subst_ivar(d.elem, iv, 1)
        if sk.e == _sym.TRUE:
            q = _sym.sub(q, b)
        riv = d.axes[0][1]
        return _sym.subst_ivar(b, riv, ("$r", 0)), _sym.subst_ivar(q, riv, ("$r", 0))

    def run(style, skew):
        I, obj = _imager(project)
        I.cfg.nonempty |= {("rows", "X")}
        I.cfg.finite_inputs |= {"X"}
        calls = []

        def stub(I_, bound, n):
            calls.append(dict(bound))
            return Sc(_sym.Opq("image", (), f"img#{len(calls)}"))
        I.cfg.flags["stub_func"] = {TR: stub}
        X = dgm_input("X")
        sk = Sc(_sym.Bool(skew))
        n_um, n_lo = len(I.unmodelled), len(I.lossy)
        if style == "combined":
            r = I.call_function(c.methods["fit_transform"], [obj, X], {"skew": sk}, None)
        else:
            I.call_function(c.methods["fit"], [obj, X], {"skew": sk}, None)
            r = I.call_function(c.methods["transform"], [obj, X], {"skew": sk}, None)
        if len(I.unmodelled) > n_um or len(I.lossy) > n_lo or len(calls) != 1:
            return None
        eff = effective(calls[0])
        state = []
        for k in ("_birth_range", "_pers_range", "_resolution"):
            v = obj.attrs.get(k)
            state += [x.e for x in v.items if isinstance(x, Sc)] if isinstance(v, Seq) else [None]
        return eff, state, repr(r)
    try:
        for skew in (True, False):
            a, b = run("combined", skew), run("separate", skew)
            if a is None or b is None or a[0] is None or b[0] is None:
                return None
            for k, what in ((0, "birth"), (1, "persistence")):
                if not _sym.equal(a[0][k], b[0][k]):
                    return (f"differs: with skew={skew} fit_transform hands the kernel the {what} coordinate "
                            f"{_sym.show(a[0][k])[:60]}, fit followed by transform {_sym.show(b[0][k])[:60]}")
            if len(a[1]) != len(b[1]) or None in a[1] or None in b[1]:
                return None
            from ..core import symeval as _se
            for x, y in zip(a[1], b[1]):
                ok_, w_ = (True, None) if _sym.equal(x, y) else _se.equivalent(x, y, positive_syms={"p"}, trials=8)
                if ok_ is False:
                    return (f"differs: with skew={skew} the fitted ranges / resolution differ between the two call styles "
                            f"({_sym.show(x)[:50]} vs {_sym.show(y)[:50]})")
                if ok_ is not True:
                    return None
            if a[2] != b[2]:
                return f"differs: with skew={skew} fit_transform returns {a[2][:50]}, transform after fit {b[2][:50]}"
        return "ok"
    except Exception:
        return None


def check_ft(project: Project, rep):
    c = project.cls(IMG)
    ft = c.methods.get("fit_transform")
    if ft is None:
        rep.refuted("TF-FT", c.methods["fit"], c.node, "PersistenceImager no longer defines fit_transform consistent with "
                                                       "fit(skew)/transform(skew)", construct=f"{IMG}: fit_transform")
    else:
        rep.analysed(ft)
        f = ft.node
        data_p = ft.params[1]
        calls = [n for n in ast.walk(f) if isinstance(n, ast.Call) and isinstance(n.func, ast.Attribute)
                 and isinstance(n.func.value, ast.Name) and n.func.value.id == "self" and n.func.attr in ("fit", "transform")]
        names = [n.func.attr for n in sorted(calls, key=lambda n: (n.lineno, n.col_offset))]
        if names[:2] != ["fit", "transform"]:
            rep.refuted("TF-FT", ft, f, f"fit_transform calls {names} instead of fit then transform")
        else:
            cf, ct = sorted(calls, key=lambda n: (n.lineno, n.col_offset))[:2]
            af = ast.unparse(cf.args[0]) if cf.args else None
            at = ast.unparse(ct.args[0]) if ct.args else None
            kf = {k.arg: ast.unparse(k.value) for k in cf.keywords}
            kt = {k.arg: ast.unparse(k.value) for k in ct.keywords}
            same_data = af is not None and af == at
            same_flags = kf.get("skew") == kt.get("skew") == "skew"
            # the data handed to both is the argument or a copy of it
            src_ok = af == data_p or any(isinstance(n, ast.Assign) and isinstance(n.targets[0], ast.Name) and n.targets[0].id == af
                                         and any(isinstance(x, ast.Name) and x.id == data_p for x in ast.walk(n.value))
                                         for n in ast.walk(f))
            sem = _ft_semantic(project) if not (same_data and same_flags and src_ok) else None
            if same_data and same_flags and src_ok:
                rep.discharged("TF-FT", ft, ct, "fit_transform = fit(X′, skew) then transform(X′, skew) on the same data")
            elif sem == "ok":
                rep.discharged("TF-FT", ft, ct, "fit_transform was evaluated against fit followed by transform (skew on and off): the "
                                                "kernel is handed the same birth–persistence coordinates and the fitted geometry is the same")
            elif sem is not None:
                rep.refuted("TF-FT", ft, ct, "fit_transform differs from fit followed by transform: " + sem[9:],
                            construct=f"{ft.qualname}: fit_transform vs fit + transform")
            elif kf.get("skew") == kt.get("skew") and same_data:
                rep.unmodelled("TF-FT", ft, ct, f"fit and transform receive the same data and the same flag (skew={kf.get('skew')}), but "
                                                f"not the caller's: the equivalence with separate calls could not be evaluated")
            else:
                why = []
                if not same_data:
                    why.append(f"fit gets {af}, transform gets {at}")
                if not same_flags:
                    why.append(f"skew passed as {kf.get('skew')} / {kt.get('skew')}")
                if not src_ok:
                    why.append("the data is not the argument")
                rep.refuted("TF-FT", ft, ct, "fit_transform differs from fit followed by transform: " + "; ".join(why))
            rets = [n for n in ast.walk(f) if isinstance(n, ast.Return)]
            if sem == "ok":
                rep.discharged("TF-FT", ft, rets[-1] if rets else f, "fit_transform returns what transform returns for the same call "
                                                                    "(compared by evaluation)", nontrivial=False)
            elif rets and isinstance(rets[-1].value, ast.Name):
                src = [n for n in ast.walk(f) if isinstance(n, ast.Assign) and isinstance(n.targets[0], ast.Name)
                       and n.targets[0].id == rets[-1].value.id]
                if src and src[-1].value is ct:
                    rep.discharged("TF-FT", ft, rets[-1], "fit_transform returns the transform's result", nontrivial=False)
                else:
                    rep.refuted("TF-FT", ft, rets[-1], "fit_transform does not return what transform produced")
    lc = project.cls(LSC)
    if "fit_transform" in lc.methods:
        rep.note("PersistenceLandscaper overrides fit_transform")
    bases = lc.bases
    if any(b.endswith("TransformerMixin") for b in bases):
        rep.discharged("TF-FT", lc.methods["fit"], lc.node, "PersistenceLandscaper inherits scikit-learn's fit_transform "
                                                            "(fit(X).transform(X))")
    else:
        rep.refuted("TF-FT", lc.methods["fit"], lc.node, "PersistenceLandscaper has no fit_transform (TransformerMixin not in "
                                                         "its bases)", construct=f"{LSC}: bases {bases}")
    fit = lc.methods["fit"]
    rets = [n for n in ast.walk(fit.node) if isinstance(n, ast.Return)]
    if rets and all(isinstance(r.value, ast.Name) and r.value.id == "self" for r in rets):
        rep.discharged("TF-FT", fit, rets[0], "fit returns self (required by the inherited fit_transform)", nontrivial=False)
    else:
        rep.refuted("TF-FT", fit, fit.node, "PersistenceLandscaper.fit does not return self: the inherited fit_transform fails")


def check_hist(project: Project, rep):
    # ---- imager
    c = project.cls(IMG)
    fit = c.methods["fit"]
    rep.analysed(fit)
    S = lambda n: Sc(sym.Sym(n))
    I = Interp(project, Config(nonempty={("rows", "A"), ("rows", "B")}, finite_inputs={"A", "B"}))
    obj = I.construct(IMG, [], {"birth_range": Seq([S("b0"), S("b1")], "tuple"), "pers_range": Seq([S("q0"), S("q1")], "tuple"),
                                "pixel_size": S("p")}, None)
    I.call_function(fit, [obj, dgm_input("A")], {}, None)
    written = set(obj.attrs)
    I.call_function(fit, [obj, dgm_input("B")], {}, None)
    if I.unmodelled or I.lossy:
        why = I.lossy[0]["why"] if I.lossy else "unmodelled value: " + I.unmodelled[0]["tag"]
        rep.unmodelled("TF-HIST", fit, fit.node, f"PersistenceImager: the two fits could not be followed exactly ({why})")
    else:
        _hist_verdict(rep, fit, obj, "PersistenceImager", user_fixed={"p"})
    # ---- landscaper, with and without user-fixed grid
    lc = project.cls(LSC)
    lfit = lc.methods["fit"]
    rep.analysed(lfit)
    for label, kwargs in (("grid learned from data", {"hom_deg": Sc(sym.ZERO)}),
                          ("start/stop fixed by the user", {"hom_deg": Sc(sym.ZERO), "start": S("u0"), "stop": S("u1")})):
        I = Interp(project, Config(nonempty={("rows", "A"), ("rows", "B")}, finite_inputs={"A", "B"}))
        obj = I.construct(LSC, [], dict(kwargs), None)
        I.call_function(lfit, [obj, Seq([dgm_input("A")])], {}, None)
        I.call_function(lfit, [obj, Seq([dgm_input("B")])], {}, None)
        if I.unmodelled or I.lossy:
            why = I.lossy[0]["why"] if I.lossy else "unmodelled value: " + I.unmodelled[0]["tag"]
            rep.unmodelled("TF-HIST", lfit, lfit.node, f"PersistenceLandscaper ({label}): the two fits could not be followed "
                                                       f"exactly ({why}): what they leave on the estimator is not decided")
            continue
        if "start" in kwargs:
            # TF-FIXED: an end-point the user fixed is a number like any other (0 included): no fit replaces it
            for a, u in (("start", "u0"), ("stop", "u1")):
                v = obj.attrs.get(a)
                if isinstance(v, Sc) and v.e == sym.Sym(u):
                    rep.discharged("TF-FIXED", lfit, lfit.node, f"PersistenceLandscaper: a user-fixed `{a}` is still the user's "
                                                                f"value after two fits")
                elif isinstance(v, Sc) and v.e is not None and not I.unmodelled and not I.lossy and (
                        _depends_on(v, "A") or _depends_on(v, "B")):
                    rep.refuted("TF-FIXED", lfit, lfit.node,
                                f"PersistenceLandscaper: the user fixed `{a}`, yet after fitting it is {sym.show(v.e)[:120]}: for "
                                f"some value of the parameter (0, through a truth test, is the usual one) the fit replaces it by "
                                f"what it finds in the data", construct=f"{lfit.qualname}: user-fixed {a} overwritten")
                    obj.attrs[a] = Sc(sym.Sym(u))   # reported here; not again as 'latched'
                else:
                    rep.unmodelled("TF-FIXED", lfit, lfit.node, f"PersistenceLandscaper: value of a user-fixed `{a}` after fitting "
                                                                f"not modelled: {v!r}"[:160])
        _hist_verdict(rep, lfit, obj, f"PersistenceLandscaper ({label})", user_fixed={"u0", "u1"})


def _hist_verdict(rep, fit, obj, who, user_fixed):
    stale = sorted(a for a, v in obj.attrs.items() if _depends_on(v, "A"))
    fresh_ = sorted(a for a, v in obj.attrs.items() if _depends_on(v, "B"))
    if stale:
        for a in stale:
            # blame the store (or the guard that skipped it)
            node = fit.node
            for n in ast.walk(fit.node):
                if isinstance(n, ast.If) and any(isinstance(s, ast.Assign) and isinstance(s.targets[0], ast.Attribute)
                                                 and s.targets[0].attr == a for s in n.body):
                    node = n
            rep.refuted("TF-HIST", fit, node,
                        f"{who}: after fit(A); fit(B) the attribute `{a}` still depends on A "
                        f"({str(obj.attrs[a])[:100]}): a refit does not forget the earlier data",
                        construct=f"{fit.qualname}: attribute {a} latched",
                        failing_input="fit([[0,3],[1,4]]) then fit([[10,13],[11,14]]) leaves start, stop = 0, 4")
    else:
        rep.discharged("TF-HIST", fit, fit.node,
                       f"{who}: after fit(A); fit(B) no attribute depends on A; {len(fresh_)} attribute(s) depend on B "
                       f"({', '.join(fresh_[:6])})")


def check_order_semantic(project: Project, rep) -> str:
    """TF-ORDER decided by evaluation: `transform` (and `fit_transform`) of one imager on collections of 2, 3, 4 and 5 distinct
    diagrams, serially and with n_jobs=2, with the per-diagram routine observed instead of executed (its result is named after
    the diagram it was given).  The list handed back must hold the image of diagram k at position k.  ok / refuted /
    unmodelled."""
    from ..core.values import NoneV
    c = project.cls(IMG)
    TRQ = "persim.images._transform"
    if TRQ not in project.functions:
        return "unmodelled"
    callee = project.function(TRQ)
    S = lambda n: Sc(sym.Sym(n))
    n_runs = 0
    for mname in ("transform", "fit_transform"):
        m = c.methods.get(mname)
        if m is None:
            continue
        for n_dgm in (2, 3, 4, 5, 33, 67):      # 33, 67: more than one batch of any size up to 32, with a short last one
            for n_jobs in (NoneV(), Sc(sym.Num(2.0))):
                if mname == "fit_transform" and (n_dgm > 3 or not isinstance(n_jobs, NoneV)):
                    continue
                if n_dgm > 5 and not isinstance(n_jobs, NoneV) and n_dgm != 33:
                    continue
                names = [f"D{k}" for k in range(n_dgm)]

                def stub(I_, bound, n, names=names):
                    d = bound.get(callee.params[0])
                    src = sorted({x[1] for x in sym.walk(d.elem) if x[0] == "in"}) if isinstance(d, Arr) else []
                    if len(src) != 1 or src[0] not in names:
                        return I_.unknown("per-diagram-argument", n)
                    return Sc(sym.Opq("image-of", (sym.Sym(src[0]),), None))
                I = Interp(project, Config(nonempty={("rows", nm) for nm in names}, finite_inputs=set(names),
                                           flags={"stub_func": {TRQ: stub}}))
                obj = I.construct(IMG, [], {"birth_range": Seq([S("b0"), S("b1")], "tuple"),
                                            "pers_range": Seq([S("q0"), S("q1")], "tuple"), "pixel_size": S("p")}, None)
                kw = {"n_jobs": n_jobs} if mname == "transform" else {}
                try:
                    r = I.call_function(m, [obj, Seq([dgm_input(nm) for nm in names], "list")], kw, None)
                except AnalysisError as ex:
                    rep.unmodelled("TF-ORDER", m, m.node, f"{mname} on {n_dgm} diagrams: {ex}"[:160])
                    return "unmodelled"
                if I.unmodelled or I.lossy:
                    why = I.lossy[0]["why"] if I.lossy else "unmodelled value: " + I.unmodelled[0]["tag"]
                    rep.unmodelled("TF-ORDER", m, m.node, f"{mname} on a collection of {n_dgm} diagrams could not be followed exactly "
                                                          f"({why})")
                    return "unmodelled"
                got = None
                if isinstance(r, Seq):
                    got = [x.e[2][0][1] if isinstance(x, Sc) and x.e is not None and x.e[0] == "opq" and x.e[1] == "image-of" else None
                           for x in r.items]
                if got != names:
                    shown = got if got is not None else repr(r)[:80]
                    rep.refuted("TF-ORDER", m, m.node,
                                f"{mname} of the collection [{', '.join(names)}]" + (" with n_jobs=2" if not isinstance(n_jobs, NoneV) else "") +
                                f" returns the images of {shown}: not one image per diagram in the order given "
                                f"(None = something that is not the image of one of the diagrams)",
                                construct=f"{m.qualname}: order of the images", failing_input=f"a collection of {n_dgm} diagrams")
                    return "refuted"
                n_runs += 1
    # a collection given as ONE (k, n, 2) array (a stack of equally long diagrams): image k is the image of ALL of stack[k]
    from ..core.values import fix, fresh, rows
    m = c.methods.get("transform")
    if m is not None:
        kk, ii, jj = fresh(), fresh(), fresh()
        Z = Arr([(fix(2), kk), (rows("Z"), ii), (fix(2), jj)], sym.In("Z", ((kk, 0), (ii, 0), (jj, 0))), "nd")
        seen_ = []

        def stub3(I_, bound, n):
            d = bound.get(callee.params[0])
            if isinstance(d, Arr) and d.ndim == 2:
                ins = [x for x in sym.walk(d.elem) if x[0] == "in" and x[1] == "Z"]
                ks = {x[2][0] for x in ins if isinstance(x[2][0], int)}
                whole = d.axes[0][0].key == ("rows", "Z")
                if len(ks) == 1 and ins:
                    seen_.append((next(iter(ks)), whole, sym.show(d.axes[0][0].size)))
                    return Sc(sym.Opq("image-of", (sym.Sym(f"Z{next(iter(ks))}" + ("" if whole else "-part")),), None))
            return I_.unknown("per-diagram-argument", n)
        I = Interp(project, Config(nonempty={("rows", "Z")}, finite_inputs={"Z"}, flags={"stub_func": {TRQ: stub3}}))
        obj = I.construct(IMG, [], {"birth_range": Seq([S("b0"), S("b1")], "tuple"),
                                    "pers_range": Seq([S("q0"), S("q1")], "tuple"), "pixel_size": S("p")}, None)
        try:
            r = I.call_function(m, [obj, Z], {}, None)
        except Exception:
            r = None
        if r is not None and not I.unmodelled and not I.lossy and len(seen_) == 2:
            if [k_ for k_, _, _ in seen_] == [0, 1] and all(w_ for _, w_, _ in seen_):
                rep.discharged("TF-ORDER", m, m.node, "a collection given as one (k, n, 2) array: image k is computed from all the pairs of "
                                                      "stack[k]", nontrivial=False)
            elif [k_ for k_, _, _ in seen_] == [0, 1]:
                rep.refuted("TF-ORDER", m, m.node,
                            f"a collection given as one (k, n, 2) array: the per-diagram routine receives only {seen_[0][2]} of the "
                            f"pairs of stack[k] — transform(stack)[k] is not transform(stack[k])",
                            construct=f"{m.qualname}: stacked collection", failing_input="np.stack of two diagrams with more pairs")
                return "refuted"
    rep.discharged("TF-ORDER", c.methods["transform"], c.methods["transform"].node,
                   f"evaluated on collections of 2 to 5 diagrams ({n_runs} runs: transform serial and n_jobs=2, fit_transform): "
                   f"position k of the result is the image of diagram k")
    return "ok"


def check_order(project: Project, rep):
    c = project.cls(IMG)
    tr = c.methods["transform"]
    from ..core.report import Report as _Report
    pre = _Report("C18-order")
    st = check_order_semantic(project, pre)
    if st != "unmodelled":
        check_order_semantic(project, rep)
        return
    comps = [n for n in ast.walk(tr.node) if isinstance(n, (ast.ListComp, ast.GeneratorExp))]
    ok = 0
    for n in comps:
        g = n.generators[0]
        it = ast.unparse(g.iter)
        if "reversed" in it or "sorted" in it or "[::-1]" in it or g.ifs:
            # the evaluation above could not follow transform; a re-ordering construct on the way is not by itself a
            # violation (keys of a position-indexed dictionary are sorted to restore the input order, say)
            rep.unmodelled("TF-ORDER", tr, n, f"the collection is mapped over `{it}`" + (" with a filter" if g.ifs else "") +
                           ": whether the images come back in the input order was not decided")
        else:
            ok += 1
    if ok:
        rep.discharged("TF-ORDER", tr, tr.node, f"{ok} mapping(s) over the collection, in iteration order, one image per "
                                                f"element")


def run(project: Project, rep, tier: str):
    rep.explain(
        "C18 (clauses decided): TF-RO from the inter-procedural effect analysis (attribute stores and in-place writes on "
        "self reachable from `transform`). TF-FT: wiring of fit_transform (same data, same flag, returns the transform). "
        "TF-HIST: the constructor and two successive fits on different generic datasets A then B are executed symbolically; "
        "any attribute whose derived expression still mentions an atom of A is a dependence on an earlier fit (user-fixed "
        "parameters are symbols and may appear). TF-ORDER: the collection is mapped in order. Declined: numerical equality of "
        "outputs across calls.")
    check_ro(project, rep)
    check_data_untouched(project, rep)
    check_ft(project, rep)
    check_hist(project, rep)
    check_order(project, rep)
    for rn, n in (("TF-RO", 2), ("TF-FT", 3), ("TF-HIST", 3), ("TF-ORDER", 1), ("TF-FIXED", 2)):
        rep.floor(rn, n)
    rep.trust("sklearn.base.TransformerMixin.fit_transform")
