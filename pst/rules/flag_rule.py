"""ST-FLAG — a guard flag set around a call must be restored on every exit.

    obj.busy = True            # (or a module-level / global name)
    result = work(...)         # anything that can raise
    obj.busy = False

When `work` raises, the reset is skipped: the flag stays set on that object, and every later call that tests it takes the
"nested / already prepared" path — what a call does then depends on whether an earlier call failed.  The pairing has to
be exception-safe: the reset in the `finally` of a `try` that covers the calls, or a `with` block.

Reported (per function, nested functions — decorator wrappers — included) when all hold:
  * an attribute (or a declared-global name) is assigned a true constant and, later in the same block, a false one
    (True/False, 1/0, an object/None);
  * a call lies between the two assignments (a statement that can raise);
  * the reset is not inside a `finally` whose `try` body contains those calls;
  * the flag is tested somewhere in the module (`if obj.flag:`), i.e. behaviour depends on it.
"""
from __future__ import annotations

import ast
from typing import List

from ..core.loader import FunctionInfo, Project


def _const_truth(e):
    if isinstance(e, ast.Constant):
        if e.value is None:
            return False
        if isinstance(e.value, (bool, int, float)):
            return bool(e.value)
    return None


def _flag_key(t):
    if isinstance(t, ast.Attribute) and isinstance(t.value, ast.Name):
        return ("attr", t.attr)
    return None


def analyse(project: Project, fi: FunctionInfo) -> List[dict]:
    f = fi.node
    if not isinstance(f, (ast.FunctionDef, ast.AsyncFunctionDef)):
        return []
    mod_tree = fi.module.tree if hasattr(fi.module, "tree") else None
    tested = set()
    for n in ast.walk(mod_tree if mod_tree is not None else f):
        if isinstance(n, (ast.If, ast.While, ast.IfExp)):
            for x in ast.walk(n.test):
                if isinstance(x, ast.Attribute):
                    tested.add(x.attr)
    hits = []

    def scan(block, in_finally_of=None):
        for i, st in enumerate(block):
            if isinstance(st, ast.Assign) and len(st.targets) == 1 and _flag_key(st.targets[0]) and _const_truth(st.value) is True:
                key = _flag_key(st.targets[0])
                # the reset later in this block
                for j in range(i + 1, len(block)):
                    st2 = block[j]
                    if isinstance(st2, ast.Assign) and len(st2.targets) == 1 and _flag_key(st2.targets[0]) == key \
                            and _const_truth(st2.value) is False:
                        between = block[i + 1:j]
                        calls = [c for b in between for c in ast.walk(b) if isinstance(c, ast.Call)]
                        if calls and key[1] in tested:
                            hits.append(dict(node=st2, set=st, flag=key[1], call=calls[0],
                                             why=f"`{ast.unparse(st.targets[0])}` is set before `{ast.unparse(calls[0])[:50]}` and reset "
                                                 f"after it, outside any `finally`: when that call raises, the flag stays set, and every "
                                                 f"later call that tests it takes the other path — what a call does then depends on "
                                                 f"whether an earlier one failed"))
                        break
                    if isinstance(st2, ast.Try) and st2.finalbody and any(
                            isinstance(x, ast.Assign) and len(x.targets) == 1 and _flag_key(x.targets[0]) == key
                            and _const_truth(x.value) is False for x in st2.finalbody):
                        break   # restored in a finally: exception-safe
            # recurse into compound statements
            for fld in ("body", "orelse", "finalbody"):
                sub = getattr(st, fld, None)
                if isinstance(sub, list) and sub and isinstance(sub[0], ast.stmt) and not isinstance(st, (ast.FunctionDef, ast.AsyncFunctionDef, ast.ClassDef)):
                    scan(sub)
            if isinstance(st, ast.Try):
                for h in st.handlers:
                    scan(h.body)
            if isinstance(st, (ast.FunctionDef, ast.AsyncFunctionDef)):
                scan(st.body)
    scan(f.body)
    return hits


def positive_examples() -> dict:
    import os
    from ..core.loader import AnalysisError
    here = os.path.join(os.path.dirname(os.path.dirname(os.path.abspath(__file__))), "selftest", "positive")
    pp = Project(here, pkg="pospkg")
    got = {fi.name: len(analyse(pp, fi)) for q, fi in pp.functions.items() if q.startswith("pospkg.flags.") and fi.parent is None}
    if not got.get("guard_without_finally"):
        raise AnalysisError("ST-FLAG positive example was not found (the rule is not working)")
    for nme in ("guard_with_finally", "guard_without_calls"):
        if got.get(nme):
            raise AnalysisError(f"ST-FLAG clean example `{nme}` was flagged")
    return got


def check(project: Project, rep, rule: str = "ST-FLAG"):
    from .oneshot import reachable_functions
    rep.extra["flag_positive_examples"] = positive_examples()
    fns = list(reachable_functions(project, sorted(rep.functions_analysed)))
    # decorators of the reached functions run as part of every call of them
    from .common import decorator_wrappers
    extra = []
    for fi in fns:
        for g, w, _ in decorator_wrappers(project, fi):
            if g not in fns and g not in extra:
                extra.append(g)
    n = 0
    seen = set()
    for fi in fns + extra:
        for h in analyse(project, fi):
            k = (fi.qualname, h["node"].lineno)
            if k in seen:
                continue
            seen.add(k)
            n += 1
            rep.refuted(rule, fi, h["node"], h["why"], construct=f"{fi.qualname}: flag {h['flag']} reset outside finally")
    if not n:
        rep.discharged(rule, None, None, f"{len(fns) + len(extra)} function(s): no guard flag is set around a call and reset outside a `finally`",
                       nontrivial=False)
    return n
