"""C20 — plots draw exactly the data and matchings they are given (visuals.py, landscapes/visuals.py, images.py).

Decided: PL-RECV (every drawing call in a function that owns an `ax` goes to that `ax`; dispatchers forward it),
PL-IDX / PL-FOOT / PL-SEG (matching plots: index provenance, perpendicular foot = ((b+d)/2,(b+d)/2), exactly one
segment per row with a non-diagonal entry), PL-MAX (the max-cost row is styled distinctly), PL-DGM (one scatter
per diagram of (birth, death) or (birth, death−birth), inf entries replaced by the ∞-line ordinate), PL-LIM (limits
enclose [min,max]; ∞-line strictly inside the y-range), PL-LAND (one line per depth from that depth's data).
Declined: pixel-level rendering, single-precision rounding of offsets, legend contents.
"""
from __future__ import annotations

import ast

from ..core import facets, sym, symeval
from ..core.absint import Config, Interp
from ..core.arrays import INDEX_EXPRS
from ..core.loader import AnalysisError, Project
from ..core.values import Alt, Arr, ObjV, Sc, Seq, StrV, fix, fresh, rows
from .common import local_names
from .distances import dgm_input, unmodelled_in

DRAW_PLT = {"plot", "scatter", "imshow", "matshow", "legend", "xlabel", "ylabel", "title", "xlim", "ylim", "axis",
            "hlines", "vlines", "fill_between", "bar", "errorbar", "text", "annotate", "axhline", "axvline", "margins",
            "colorbar", "contour", "contourf", "pcolormesh", "hist", "step", "stem", "grid", "xticks", "yticks"}
ALLOWED_PLT = {"gca", "gcf", "style.use", "show", "savefig", "get_cmap", "figure", "subplots", "close"}


def _ax_bindings(project, fi):
    """expressions bound to the local name `ax` (helpers inlined, temporaries expanded, tuple assignments paired up)"""
    from .common import expand_locals, fn_view
    f = fn_view(project, fi)
    out = []
    for n in ast.walk(f):
        if not isinstance(n, ast.Assign) or len(n.targets) != 1:
            continue
        t, v = n.targets[0], n.value
        if isinstance(t, ast.Name) and t.id == "ax":
            out.append(expand_locals(f, v))
        elif isinstance(t, (ast.Tuple, ast.List)):
            ve = expand_locals(f, v) if not isinstance(v, (ast.Tuple, ast.List)) else v
            if isinstance(ve, (ast.Tuple, ast.List)) and len(ve.elts) == len(t.elts):
                for tt, vv in zip(t.elts, ve.elts):
                    if isinstance(tt, ast.Name) and tt.id == "ax":
                        out.append(expand_locals(f, vv))
            elif any(isinstance(tt, ast.Name) and tt.id == "ax" for tt in t.elts):
                out.append(ve)
    return out


def _owns_ax(project, fi) -> bool:
    if "ax" not in fi.params:
        return False
    for v in _ax_bindings(project, fi):
        if isinstance(v, ast.BoolOp) and isinstance(v.op, ast.Or) and isinstance(v.values[0], ast.Name) \
                and v.values[0].id == "ax":
            return True
        if isinstance(v, ast.IfExp):
            return True
    return False


def _reassigns_ax_from_figure(project, fi) -> bool:
    for v in _ax_bindings(project, fi):
        for x in ast.walk(v):
            if isinstance(x, ast.Call) and isinstance(x.func, ast.Attribute) and x.func.attr in ("add_subplot", "add_axes", "subplots"):
                return True
    return False


def draws_on_current_axes(project, fi, seen=None) -> list:
    """call sites in fi (transitively through repo helpers that have no `ax` parameter) that draw via pyplot"""
    seen = seen or set()
    if fi.qualname in seen:
        return []
    seen.add(fi.qualname)
    out = []
    locs = local_names(fi.node)
    for n in ast.walk(fi.node):
        if not isinstance(n, ast.Call):
            continue
        t = project.resolve(fi.module, n.func, locs)
        if t is None:
            continue
        if t.startswith("matplotlib.pyplot."):
            name = t[len("matplotlib.pyplot."):]
            if name in DRAW_PLT:
                out.append((fi, n, t))
        elif t in project.functions and "ax" not in project.functions[t].params:
            sub = draws_on_current_axes(project, project.functions[t], seen)
            if sub:
                out.append((fi, n, f"{t} (draws with pyplot: {sub[0][2]})"))
    return out


def check_recv(project: Project, rep):
    owners = 0
    dispatch = 0
    for q, fi in sorted(project.functions.items()):
        if fi.parent is not None or not isinstance(fi.node, ast.FunctionDef) or "ax" not in fi.params:
            continue
        if _reassigns_ax_from_figure(project, fi):
            rep.note(f"{q}: creates its own figure and discards the `ax` argument (3-D plot) — outside the statement")
            continue
        locs = local_names(fi.node)
        if _owns_ax(project, fi):
            owners += 1
            rep.analysed(fi)
            bad = draws_on_current_axes(project, fi)
            for _, node, t in bad:
                rep.refuted("PL-RECV", fi, node,
                            f"{t} draws on pyplot's current axes inside a function that was given `ax`: when the supplied "
                            f"axes is not the current one the artist lands on another figure")
            if not bad:
                n_draw = sum(1 for n in ast.walk(fi.node) if isinstance(n, ast.Call) and isinstance(n.func, ast.Attribute)
                             and isinstance(n.func.value, ast.Name) and n.func.value.id == "ax")
                rep.discharged("PL-RECV", fi, fi.node, f"all {n_draw} drawing calls have receiver `ax`; no pyplot drawing "
                                                       f"function is called (directly or through helpers)")
        # forwarding to repo plotting functions that take ax
        for n in ast.walk(fi.node):
            if isinstance(n, ast.Call):
                t = project.resolve(fi.module, n.func, locs)
                if t in project.functions and "ax" in project.functions[t].params and t != q:
                    callee = project.functions[t]
                    from .common import expanded_keywords, expand_locals, fn_view
                    kws, complete = expanded_keywords(fn_view(project, fi), n)
                    pos_i = callee.params.index("ax")
                    passed = None
                    if "ax" in kws:
                        passed = kws["ax"]
                    elif pos_i < len(n.args) and not any(isinstance(a, ast.Starred) for a in n.args):
                        passed = n.args[pos_i]
                    dispatch += 1
                    if passed is not None:
                        passed = expand_locals(fn_view(project, fi), passed)
                    if passed is not None and isinstance(passed, ast.Name) and passed.id == "ax":
                        rep.discharged("PL-RECV", fi, n, f"forwards ax=ax to {t}")
                    elif passed is None and (not complete or any(isinstance(a, ast.Starred) for a in n.args)):
                        rep.unmodelled("PL-RECV", fi, n, f"cannot tell whether `ax` is among the star-arguments passed to {t}")
                    else:
                        rep.refuted("PL-RECV", fi, n, f"calls {t} without forwarding the axes it was given: that part of the "
                                                      f"plot goes to pyplot's current axes")
    if owners < 6:
        raise AnalysisError(f"PL-RECV: only {owners} functions establish `ax = ax or plt.gca()`; hand-confirmed floor is 6")
    rep.floor("PL-RECV", 8)


# ----------------------------------------------------------------------------- matching plots (evaluator)

def _matching_input():
    i, c = fresh(), fresh()
    return Arr([(rows("Mt"), i), (fix(3), c)], sym.Sel(c, tuple(sym.In("Mt", ((i, 0), k)) for k in range(3))))


def _mt_input_fn(pt, name, idx):
    if name == "Mt" and len(idx) == 2 and idx[1] in (0, 1):
        return float(pt.rng.choice([-1, -1, 0, 1, 2]))
    return None


def _index_source_cols(e):
    """for every input atom of S/T in e: the matching columns its row index derives from"""
    out = {}
    for x in sym.walk(e):
        if x[0] == "in" and x[1] in ("S", "T") and isinstance(x[2][0], tuple):
            nm = x[2][0][0]
            src = INDEX_EXPRS.get(nm)
            cols = set()
            if src is not None:
                for y in sym.walk(src):
                    if y[0] == "in" and y[1] == "Mt":
                        cols.add(y[2][1])
            else:
                cols.add("loop:" + nm)
            out.setdefault(x[1], set()).update(cols)
    return out


def _full_reach(ev):
    """reach condition of an event, including the selection conditions of the enclosing loops that run over a filtered
    list (rows kept under a condition by an earlier loop, a comprehension or an eagerly executed generator)"""
    r = ev["reach"]
    for lp in ev.get("loops") or ():
        sp, iv = lp.get("space"), lp.get("ivar")
        while sp is not None and sp.key[0] == "sub" and iv:
            cond = sp.key[2]
            fiv = sorted(sym.free_ivars(cond) - {iv})
            if len(fiv) == 1 and iv not in sym.free_ivars(cond):
                cond = sym.subst_ivar(cond, fiv[0], (iv, 0))
            r = sym.And(r, cond)
            sp = sp.parent
    return r


def check_matching_plot(project: Project, rep, qual):
    fi = project.function(qual)
    rep.analysed(fi)
    I = Interp(project, Config(nonempty={("rows", "S"), ("rows", "T"), ("rows", "Mt")}, finite_inputs={"S", "T", "Mt"}))
    ps = fi.params
    args = {ps[0]: dgm_input("S"), ps[1]: dgm_input("T"), ps[2]: _matching_input(), "ax": ObjV(None, {}, tag="axes")}
    I.run(qual, args)
    segs = [ev for ev in I.log if ev["kind"] in ("draw", "pyplot") and ev["fi"].qualname != "persim.visuals.plot_diagrams"
            and (ev.get("method") == "plot" or ev.get("function") == "plot")]
    if not segs:
        rep.unmodelled("PL-SEG", fi, fi.node, "no segment-drawing call reached in symbolic execution")
        return
    # PL-SEG: exactly one segment per row with a non-(-1) entry
    total = sym.ZERO
    for ev in segs:
        total = sym.add(total, sym.ITE(_full_reach(ev), sym.ONE, sym.ZERO))
    loop_iv = None
    for ev in I.log:
        if ev["kind"] == "loop" and ev["fi"] is fi and ev["ivar"]:
            loop_iv = ev["ivar"]
    r0 = sym.fn("int", sym.In("Mt", ((loop_iv, 0), 0)))
    r1 = sym.fn("int", sym.In("Mt", ((loop_iv, 0), 1)))
    spec = sym.ITE(sym.Or(sym.Cmp("!=", r0, sym.Num(-1)), sym.Cmp("!=", r1, sym.Num(-1))), sym.ONE, sym.ZERO)
    ok, w = symeval.equivalent(total, spec, trials=200, input_fn=_mt_input_fn)
    if ok is True:
        rep.discharged("PL-SEG", fi, segs[0]["node"], "every matching row with a non-diagonal entry reaches exactly one "
                                                      "segment-drawing call; diagonal–diagonal rows reach none")
    elif ok is False and (I.lossy or any(u["fi"].qualname != "persim.visuals.plot_diagrams" for u in I.unmodelled)):
        why = I.lossy[0]["why"] if I.lossy else "unmodelled value: " + I.unmodelled[0]["tag"]
        rep.unmodelled("PL-SEG", fi, segs[0]["node"], f"the drawing loop could not be followed exactly ({why})")
    elif ok is False:
        rep.refuted("PL-SEG", fi, segs[0]["node"], f"the number of segments drawn for a matching row is not 1 iff it has a "
                                                   f"non-diagonal entry; witness {w}", construct=f"{qual}: segments per row")
    else:
        rep.unmodelled("PL-SEG", fi, segs[0]["node"], f"cannot evaluate the segment count ({w})")
    import itertools
    arms = []
    for ev in segs:
        pos = ev["pos"]
        if len(pos) < 2 or not all(isinstance(p, Seq) and len(p.items) == 2 and all(isinstance(x, Sc) for x in p.items)
                                   for p in pos[:2]):
            rep.unmodelled("PL-IDX", fi, ev["node"], "segment end-points are not two (x, y) pairs")
            continue
        coords = [x.e for x in pos[0].items] + [y.e for y in pos[1].items]
        # one call site may serve several cases (coordinates selected by conditional expressions): split into arms
        atoms = []
        for e_ in coords:
            for x in sym.walk(e_):
                if x[0] == "ite":
                    for y in sym.walk(x[1]):
                        if y[0] == "cmp" and not any(y == a_ or sym.Not(y) == a_ for a_ in atoms):
                            atoms.append(y)
        if len(atoms) > 4:
            rep.unmodelled("PL-IDX", fi, ev["node"], "too many case distinctions in one segment-drawing call")
            continue
        grouped = {}
        for bits in itertools.product((True, False), repeat=len(atoms)):
            mp = {}
            lits = []
            for a_, b_ in zip(atoms, bits):
                mp[a_] = sym.TRUE if b_ else sym.FALSE
                mp[sym.Not(a_)] = sym.FALSE if b_ else sym.TRUE
                lits.append(a_ if b_ else sym.Not(a_))
            rch = sym.subst(ev["reach"], mp)
            if rch == sym.FALSE:
                continue
            cs = tuple(sym.subst(e_, mp) for e_ in coords)
            grouped.setdefault(cs, []).append(sym.And(ev["reach"], *lits))
        for cs, conds in grouped.items():
            arms.append(dict(node=ev["node"], reach=sym.Or(*conds), xs=list(cs[:2]), ys=list(cs[2:])))
    for ev in arms:
        xs, ys = ev["xs"], ev["ys"]
        allx = sym.Choice(xs + ys)
        if unmodelled_in(allx):
            rep.unmodelled("PL-IDX", fi, ev["node"], f"segment coordinates not modelled: {unmodelled_in(allx)}")
            continue
        # PL-IDX: rows of the first diagram are selected by column 0 of the matching, of the second by column 1
        src = _index_source_cols(allx)
        bad = [(nm, cols) for nm, cols in src.items() if cols != ({0} if nm == "S" else {1})]
        if bad:
            nm, cols = bad[0]
            rep.refuted("PL-IDX", fi, ev["node"],
                        f"points of the {'first' if nm == 'S' else 'second'} diagram are selected with the matching's "
                        f"column(s) {sorted(map(str, cols))} instead of column {0 if nm == 'S' else 1}")
            continue
        rep.discharged("PL-IDX", fi, ev["node"], "first-diagram points are indexed by the row's first entry, second-diagram "
                                                 "points by its second entry")
        # end-points: a diagram point and either the other diagram's point or the point's foot on the diagonal
        names = sorted(src)
        p0 = (xs[0], ys[0])
        p1 = (xs[1], ys[1])

        def is_point(p, nm):
            iv = [x[2][0][0] for x in sym.walk(p[0]) if x[0] == "in" and x[1] == nm]
            if not iv:
                return False
            return p[0] == sym.In(nm, ((iv[0], 0), 0)) and p[1] == sym.In(nm, ((iv[0], 0), 1))

        def is_foot(p, nm):
            iv = [x[2][0][0] for x in sym.walk(p[0]) if x[0] == "in" and x[1] == nm]
            if not iv:
                return False
            mid = sym.scale(sym.add(sym.In(nm, ((iv[0], 0), 0)), sym.In(nm, ((iv[0], 0), 1))), 0.5)
            return all(symeval.equivalent(c, mid)[0] is True for c in p)

        if len(names) == 2:
            ok_seg = (is_point(p0, "S") and is_point(p1, "T")) or (is_point(p0, "T") and is_point(p1, "S"))
            if ok_seg:
                rep.discharged("PL-FOOT", fi, ev["node"], "segment joins the matched points (b,d) of the two diagrams")
            else:
                rep.refuted("PL-FOOT", fi, ev["node"], f"segment end-points are ({sym.show(p0[0])},{sym.show(p0[1])}) and "
                                                       f"({sym.show(p1[0])},{sym.show(p1[1])}), not the two matched points")
        elif len(names) == 1:
            nm = names[0]
            ok_seg = (is_point(p0, nm) and is_foot(p1, nm)) or (is_point(p1, nm) and is_foot(p0, nm))
            if ok_seg:
                rep.discharged("PL-FOOT", fi, ev["node"], f"segment joins the point (b,d) to its perpendicular foot "
                                                          f"((b+d)/2,(b+d)/2) on the diagonal",
                               derived=f"({sym.show(p1[0])}, {sym.show(p1[1])})")
            else:
                rep.refuted("PL-FOOT", fi, ev["node"], f"segment joins ({sym.show(p0[0])},{sym.show(p0[1])}) to "
                                                       f"({sym.show(p1[0])},{sym.show(p1[1])}): the second end is not the "
                                                       f"perpendicular foot ((b+d)/2,(b+d)/2) of the point")
            # the arm condition must send the row to the diagram that is not -1
            arm = ev["reach"]
            col = 1 if nm == "T" else 0
            other = sym.fn("int", sym.In("Mt", ((loop_iv, 0), 1 - col)))
            want = sym.Cmp("==", other, sym.Num(-1))
            implied, _ = symeval.equivalent(sym.And(arm, sym.Not(want)), sym.FALSE, trials=200, input_fn=_mt_input_fn)
            if implied is True:
                rep.discharged("PL-IDX", fi, ev["node"], f"this arm is taken only when the other diagram's entry is -1")
            elif implied is False:
                rep.refuted("PL-IDX", fi, ev["node"], "a point-to-diagonal segment is drawn on an arm where the other "
                                                      "diagram's entry is not -1")
    return I


def check_max_style(project: Project, rep, qual, I=None):
    """PL-MAX, decided on the symbolic drawing events: some style argument of the segment-drawing calls is a conditional
    value whose condition is `row index == argmax(cost column)` and whose two arms differ."""
    fi = project.function(qual)
    if I is None:
        rep.unmodelled("PL-MAX", fi, fi.node, "matching plot not executed")
        return
    segs = [ev for ev in I.log if ev["kind"] in ("draw", "pyplot") and ev["fi"].qualname != "persim.visuals.plot_diagrams"
            and (ev.get("method") == "plot" or ev.get("function") == "plot")]
    if not segs:
        rep.unmodelled("PL-MAX", fi, fi.node, "no segment-drawing call reached")
        return
    # two call sites, one of them reached only for the row at the argmax of the cost column, drawn with other style arguments
    def _argmax_cols(e):
        am = [y for y in sym.walk(e) if y[0] == "opq" and y[1] == "argmax"]
        am_red = [y for y in sym.walk(e) if y[0] == "red" and y[1] == "argmax"]
        cols = {z[2][1] for y in am for d in y[2] if isinstance(d, tuple) for z in sym.walk(d) if z[0] == "in" and z[1] == "Mt"}
        cols |= {z[2][1] for y in am_red for z in sym.walk(y[4]) if z[0] == "in" and z[1] == "Mt"}
        return cols if (am or am_red) else None
    if len(segs) >= 2:
        sty = lambda ev: tuple(repr(v) for v in list(ev["pos"][2:]) + sorted((ev.get("kwargs") or {}).items(), key=lambda kv: kv[0]))
        by_reach = [(ev, _argmax_cols(ev["reach"]) if ev.get("reach") is not None else None) for ev in segs]
        special = [ev for ev, c_ in by_reach if c_ == {2}]
        wrong = [c_ for ev, c_ in by_reach if c_ is not None and c_ != {2}]
        if special and any(sty(ev) != sty(special[0]) for ev in segs if ev is not special[0]):
            rep.discharged("PL-MAX", fi, special[0]["node"], "the row at argmax of the cost column is drawn by a call of its own, with "
                                                             "other style arguments than the calls for all other rows")
            return
        if wrong:
            rep.refuted("PL-MAX", fi, segs[0]["node"], f"the distinguished row is the argmax of column {sorted(wrong[0])}, not of the "
                                                       f"cost column 2")
            return
    for ev in segs:
        styles = list(ev["pos"][2:]) + list((ev.get("kwargs") or {}).values())
        marked, wrong_col, unknown = [], None, False
        for v in styles:
            if isinstance(v, StrV):
                continue
            if not isinstance(v, Sc):
                unknown = True
                continue
            for x in sym.walk(v.e):
                if x[0] == "ite" and x[2] != x[3]:
                    am = [y for y in sym.walk(x[1]) if y[0] == "opq" and y[1] == "argmax"]
                    am_red = [y for y in sym.walk(x[1]) if y[0] == "red" and y[1] == "argmax"]
                    if not am and not am_red:
                        continue
                    cols = {z[2][1] for y in am for d in y[2] if isinstance(d, tuple) for z in sym.walk(d)
                            if z[0] == "in" and z[1] == "Mt"}
                    cols |= {z[2][1] for y in am_red for z in sym.walk(y[4]) if z[0] == "in" and z[1] == "Mt"}
                    if cols == {2}:
                        marked.append(v)
                    else:
                        wrong_col = cols
            if unmodelled_in(v.e):
                unknown = True
        if marked:
            rep.discharged("PL-MAX", fi, ev["node"], f"the row at argmax of the cost column is drawn with {len(marked)} style "
                                                     f"argument(s) that differ from all other rows")
        elif wrong_col is not None:
            rep.refuted("PL-MAX", fi, ev["node"], f"the distinguished row is the argmax of column {sorted(wrong_col)}, not of the "
                                                  f"cost column 2")
        elif unknown or I.unmodelled or I.lossy:
            rep.unmodelled("PL-MAX", fi, ev["node"], "style arguments of the segment-drawing call not modelled (the run that "
                                                     "reaches it is not exact)")
        else:
            rep.refuted("PL-MAX", fi, ev["node"], "the bottleneck pair is drawn with the same style as every other pair",
                        construct=f"{qual}: bottleneck pair style")


def _minmax_parts(e):
    """(a, b, rest) with e == a*MIN + b*MAX + rest, MIN/MAX the bag-min / bag-max opaque atoms"""
    terms, c = sym.lin_parts(e)
    a = b = 0.0
    rest = 0
    for t, k in terms.items():
        if t[0] == "opq" and t[1] == "bag-min":
            a += k
        elif t[0] == "opq" and t[1] == "bag-max":
            b += k
        else:
            rest += 1
    return a, b, rest, c


def check_plot_diagrams(project: Project, rep0):
    from ..core.report import ExactOnly
    qual = "persim.visuals.plot_diagrams"
    fi = project.function(qual)
    rep0.analysed(fi)
    for lifetime in (False, True):
        I = Interp(project, Config(nonempty={("rows", "S"), ("rows", "T")}, finite_inputs=set()))
        I.run(qual, {"diagrams": Seq([dgm_input("S"), dgm_input("T")]), "lifetime": Sc(sym.Bool(lifetime)),
                     "ax": ObjV(None, {}, tag="axes")})
        rep = ExactOnly(rep0, I)   # a difference found on an inexact run is no finding
        tag = f"lifetime={lifetime}"
        sc = [ev for ev in I.log if ev["kind"] == "draw" and ev["method"] == "scatter"]
        if len(sc) != 2 and (not sc or I.lossy or I.unmodelled):
            rep.unmodelled("PL-DGM", fi, fi.node, f"{tag}: the scatter calls could not be followed ({len(sc)} seen)")
            continue
        if len(sc) != 2:
            rep.refuted("PL-DGM", fi, sc[0]["node"] if sc else fi.node,
                        f"{tag}: {len(sc)} scatter collections are created for 2 diagrams (one per diagram is required)",
                        construct=f"{qual}: scatter count ({tag})")
        b_inf = None
        for ev in I.log:
            if ev["kind"] == "draw" and ev["method"] == "plot" and ev["fi"] is fi and isinstance(ev["kwargs"].get("label"), StrV) \
                    and "infty" in ev["kwargs"]["label"].s:
                ys = ev["pos"][1]
                if isinstance(ys, Seq) and all(isinstance(y, Sc) for y in ys.items) and ys.items[0].e == ys.items[1].e:
                    b_inf = (ev, ys.items[0].e)
        for ev, nm in zip(sc, ("S", "T")):
            pos = ev["pos"]
            if len(pos) < 2 or not all(isinstance(p, Arr) and p.ndim == 1 for p in pos[:2]):
                rep.unmodelled("PL-DGM", fi, ev["node"], f"{tag}: scatter coordinates are not two vectors")
                continue
            xe, ye = pos[0].elem, pos[1].elem
            iv = pos[0].axes[0][1]
            ye = sym.subst_ivar(ye, pos[1].axes[0][1], (iv, 0))
            if pos[0].axes[0][0].key != ("rows", nm) or pos[1].axes[0][0].key != ("rows", nm):
                rep.refuted("PL-DGM", fi, ev["node"], f"{tag}: the scatter of diagram `{nm}` does not have one marker per "
                                                      f"point of that diagram (axes {pos[0].axes[0][0].key})")
                continue
            f32 = lambda c: sym.fn("float32", sym.In(nm, ((iv, 0), c)))
            sx = f32(0)
            sy = sym.sub(f32(1), f32(0)) if lifetime else f32(1)
            okx, wx = symeval.equivalent(xe, sx, tol=1e-6)
            oky, wy = symeval.equivalent(ye, sy, tol=1e-6)
            if okx is True and oky is True:
                rep.discharged("PL-DGM", fi, ev["node"], f"{tag}: scatter of `{nm}` has coordinates (birth, "
                                                         f"{'death−birth' if lifetime else 'death'}) of that diagram in "
                                                         f"single precision")
            elif okx is False or oky is False:
                rep.refuted("PL-DGM", fi, ev["node"],
                            f"{tag}: scatter of `{nm}` plots ({sym.show(xe)[:120]}, {sym.show(ye)[:120]}) instead of (birth, "
                            f"{'death−birth' if lifetime else 'death'}); witness {wx or wy}",
                            construct=f"{qual}: scatter coordinates of {nm} ({tag})")
            else:
                rep.unmodelled("PL-DGM", fi, ev["node"], f"{tag}: cannot evaluate scatter coordinates")
            # inf replacement by the ∞-line ordinate
            if b_inf is not None:
                repl = [x for x in sym.walk(ye) if x[0] == "ite" and x[1][0] == "fn" and x[1][1] == "isinf"]
                if repl and any(sym.equal(r[2], b_inf[1], 1e-9) for r in repl):
                    # with some deaths infinite: the marker of such a point sits exactly on the ∞-line, every other marker
                    # where it would be without the replacement
                    def some_inf(pt_, name, idx):
                        if name == nm and len(idx) == 2 and idx[1] == 1 and pt_.rng.random() < 0.5:
                            return float("inf")
                        return None
                    want_y = sym.ITE(sym.fn("isinf", sy), b_inf[1], sy)
                    oki, wi = symeval.equivalent(ye, want_y, tol=1e-6, input_fn=some_inf, trials=40)
                    if oki is False:
                        rep.refuted("PL-DGM", fi, ev["node"],
                                    f"{tag}: a point of `{nm}` with an infinite death is not drawn on the ∞-line (its ordinate is "
                                    f"{sym.show(ye)[:140]}): the replacement by the ∞-line ordinate and the "
                                    f"{'lifetime conversion' if lifetime else 'plotting'} are applied in the wrong order; witness {wi}",
                                    construct=f"{qual}: inf replacement for {nm} ({tag})")
                    elif oki is None:
                        rep.unmodelled("PL-DGM", fi, ev["node"], f"{tag}: cannot evaluate the ordinate with infinite deaths ({wi})")
                    else:
                        rep.discharged("PL-DGM", fi, ev["node"], f"{tag}: infinite entries of `{nm}` are placed on the ∞-line "
                                                                 f"ordinate before plotting")
                else:
                    rep.refuted("PL-DGM", fi, ev["node"], f"{tag}: infinite deaths of `{nm}` are not replaced by the ∞-line "
                                                          f"ordinate before the scatter",
                                construct=f"{qual}: inf replacement for {nm} ({tag})")
        # PL-LIM (which values feed the range): a finite coordinate must count whatever the other coordinates of its point are
        from ..core.values import VStack as _VS
        import random as _rnd
        stop_lim = False
        for ev in I.log:
            if ev["kind"] != "reduce" or ev.get("op") not in ("min", "max") or not isinstance(ev.get("arg"), _VS):
                continue
            for part in ev["arg"].ordered:
                if part.ndim != 2 or part.axes[1][0].concrete is None:
                    continue
                (rsp, riv), (csp, civ) = part.axes
                key, masks = rsp.key, []
                while isinstance(key, tuple) and key and key[0] == "sub":
                    masks.append(key[2])
                    key = key[1]
                if not masks or not (isinstance(key, tuple) and key[0] == "rows"):
                    continue
                nm = key[1]
                for c in range(csp.concrete):
                    def only_c_finite(pt_, name, idx, c=c, nm=nm):
                        if name == nm and len(idx) == 2 and idx[1] != c:
                            return float("inf")
                        return None
                    pt = symeval.Point(_rnd.Random(5), input_fn=only_c_finite)
                    pt.ivs[riv] = 0
                    try:
                        kept = all(bool(symeval.ev(sym.subst_ivar(m, v_, (riv, 0)) if False else m, pt)) for m in masks
                                   for v_ in [None])
                    except symeval.NotEvaluable:
                        continue
                    if not kept:
                        rep.refuted("PL-LIM", fi, ev["node"],
                                    f"{tag}: the axis range is taken over the points of `{nm}` whose coordinates are ALL finite: the "
                                    f"finite {'birth' if c == 0 else 'coordinate ' + str(c)} of a point with an infinite "
                                    f"{'death' if c == 0 else 'other coordinate'} does not count, so such a point can be drawn outside "
                                    f"the limits",
                                    construct=f"{qual}: values feeding the axis range ({tag})")
                        stop_lim = True
                        break
                if stop_lim:
                    break
            if stop_lim:
                break
        if stop_lim:
            continue
        lims = {}
        for ev in I.log:
            if ev["kind"] == "draw" and ev["fi"] is fi and ev["method"] in ("set_xlim", "set_ylim"):
                v = ev["pos"][0] if ev["pos"] else None
                if isinstance(v, Seq) and len(v.items) == 2 and all(isinstance(x, Sc) for x in v.items):
                    lims[ev["method"]] = (ev, v.items[0].e, v.items[1].e)
        if "set_xlim" not in lims or "set_ylim" not in lims:
            rep.unmodelled("PL-LIM", fi, fi.node, f"{tag}: axis limits not found")
            continue
        for m, (ev, lo, hi) in lims.items():
            if m == "set_ylim" and lifetime:
                continue  # y axis is re-based for lifetimes (declined: depends on the data's persistence range)
            a, b, r1, c1 = _minmax_parts(lo)
            c_, d, r2, c2 = _minmax_parts(hi)
            if r1 or r2:
                rep.unmodelled("PL-LIM", fi, ev["node"], f"{tag}: limits are not affine in the data's min and max")
                continue
            ok_lo = abs(a + b - 1) < 1e-9 and b <= 1e-12 and abs(c1) < 1e-12
            ok_hi = abs(c_ + d - 1) < 1e-9 and c_ <= 1e-12 and abs(c2) < 1e-12
            if ok_lo and ok_hi:
                rep.discharged("PL-LIM", fi, ev["node"], f"{tag}: {m} = [min − {-b:g}·(max−min), max + {-c_:g}·(max−min)] "
                                                         f"contains every finite value")
            else:
                rep.refuted("PL-LIM", fi, ev["node"],
                            f"{tag}: {m} = [{a:g}·min {b:+g}·max {c1:+g}, {c_:g}·min {d:+g}·max {c2:+g}] does not enclose "
                            f"[min, max] for every diagram", construct=f"{qual}: {m} ({tag})")
        if b_inf is not None:
            ev, e = b_inf
            _, ylo, yhi = lims["set_ylim"]
            k = facets._ratio(sym.sub(e, ylo), sym.sub(yhi, ylo))
            if k is not None and 0 < k < 1:
                rep.discharged("PL-LIM", fi, ev["node"], f"{tag}: the ∞-line sits at y_down + {k:g}·(y_up−y_down), strictly "
                                                         f"inside the axes")
            elif k is not None:
                rep.refuted("PL-LIM", fi, ev["node"], f"{tag}: the ∞-line sits at y_down + {k:g}·(y_up−y_down), outside the "
                                                      f"y-range", construct=f"{qual}: inf line ({tag})")
            else:
                # not a fixed fraction of the y-range: is it inside the range at all, for every diagram?
                inside = sym.ITE(sym.Cmp("<", ylo, yhi), sym.And(sym.Cmp("<", ylo, e), sym.Cmp("<", e, yhi)), sym.TRUE)
                ok_, w_ = (None, "not evaluable") if (unmodelled_in(e) or unmodelled_in(ylo) or unmodelled_in(yhi)) else \
                    symeval.equivalent(inside, sym.TRUE, trials=80, nrows=3)
                if ok_ is True:
                    rep.discharged("PL-LIM", fi, ev["node"], f"{tag}: the ∞-line lies strictly between the y-limits (evaluated; its "
                                                             f"position is not a fixed fraction of the range)")
                elif ok_ is False and I.clean_before(ev):
                    rep.refuted("PL-LIM", fi, ev["node"],
                                f"{tag}: the ∞-line is drawn at {sym.show(e)[:90]}, which is not between the y-limits "
                                f"[{sym.show(ylo)[:50]}, {sym.show(yhi)[:50]}] for every diagram: infinite deaths land outside the "
                                f"axes; witness {w_}"[:600], construct=f"{qual}: inf line ({tag})")
                else:
                    rep.unmodelled("PL-LIM", fi, ev["node"], f"{tag}: ∞-line ordinate is not an affine position in the y-range")
        else:
            rep.refuted("PL-LIM", fi, fi.node, f"{tag}: no horizontal ∞-line is drawn when infinite deaths are present",
                        construct=f"{qual}: inf line missing ({tag})")


def check_plot_diagrams_selection(project: Project, rep0):
    """PL-DGM with `plot_only` and `labels`: of three labelled diagrams the first and the third are asked for — exactly those two
    are drawn, each with its own points and its own label."""
    from ..core.report import ExactOnly
    qual = "persim.visuals.plot_diagrams"
    fi = project.function(qual)
    if "plot_only" not in fi.params or "labels" not in fi.params:
        return
    I = Interp(project, Config(nonempty={("rows", "S"), ("rows", "T"), ("rows", "U")}, finite_inputs={"S", "T", "U"}))
    names, labs = ("S", "T", "U"), ("first", "second", "third")
    try:
        I.run(qual, {"diagrams": Seq([dgm_input(nm) for nm in names], "list"), "plot_only": Seq([Sc(sym.Num(0)), Sc(sym.Num(2))], "list"),
                     "labels": Seq([StrV(x) for x in labs], "list"), "ax": ObjV(None, {}, tag="axes")})
    except AnalysisError as ex:
        rep0.unmodelled("PL-DGM", fi, fi.node, f"plot_only=[0, 2]: {ex}"[:160])
        return
    rep = ExactOnly(rep0, I)
    sc = [ev for ev in I.log if ev["kind"] == "draw" and ev["method"] == "scatter"]
    got = []
    for ev in sc:
        pos = ev["pos"]
        src = sorted({x[1] for p_ in pos[:2] if isinstance(p_, Arr) for x in sym.walk(p_.elem) if x[0] == "in"})
        lab = (ev.get("kwargs") or {}).get("label")
        got.append((src, lab.s if isinstance(lab, StrV) else (repr(lab)[:40] if lab is not None else None)))
    want = [(["S"], "first"), (["U"], "third")]
    if got == want:
        rep.discharged("PL-DGM", fi, sc[0]["node"], "plot_only=[0, 2] of three labelled diagrams: the first and the third are drawn, each "
                                                    "under its own label")
    elif len(sc) and all(isinstance(g[1], str) or g[1] is None for g in got) and not (I.unmodelled or I.lossy):
        rep.refuted("PL-DGM", fi, sc[0]["node"],
                    f"plot_only=[0, 2] of the diagrams labelled {list(labs)}: drawn are {[(g[0], g[1]) for g in got]} — not the selected "
                    f"diagrams under their own labels",
                    construct=f"{qual}: plot_only / labels")
    else:
        rep.unmodelled("PL-DGM", fi, fi.node, f"plot_only=[0, 2]: the scatter calls could not be followed ({got})"[:200])


def check_plot_diagrams_given_range(project: Project, rep):
    """PL-LIM with an explicit xy_range: the axes get exactly the requested window (lifetime=False), and the markers are
    still the diagrams' own points"""
    qual = "persim.visuals.plot_diagrams"
    fi = project.function(qual)
    if "xy_range" not in fi.params:
        return
    I = Interp(project, Config(nonempty={("rows", "S"), ("rows", "T")}, finite_inputs={"S", "T"}))
    rng_ = Seq([Sc(sym.Sym(n_)) for n_ in ("x0", "x1", "y0", "y1")], "list")
    try:
        I.run(qual, {"diagrams": Seq([dgm_input("S"), dgm_input("T")]), "lifetime": Sc(sym.FALSE), "xy_range": rng_,
                     "ax": ObjV(None, {}, tag="axes")})
    except AnalysisError as ex:
        rep.unmodelled("PL-LIM", fi, fi.node, f"xy_range given: {ex}"[:160])
        return
    lims = {}
    for ev in I.log:
        if ev["kind"] == "draw" and ev["method"] in ("set_xlim", "set_ylim"):
            v = ev["pos"][0] if ev["pos"] else None
            if isinstance(v, Seq) and len(v.items) == 2 and all(isinstance(x, Sc) and x.e is not None for x in v.items):
                lims[ev["method"]] = (ev, v.items[0].e, v.items[1].e)
    want = {"set_xlim": (sym.Sym("x0"), sym.Sym("x1")), "set_ylim": (sym.Sym("y0"), sym.Sym("y1"))}
    for m, (lo_w, hi_w) in want.items():
        if m not in lims:
            rep.unmodelled("PL-LIM", fi, fi.node, f"xy_range given: {m} not found")
            continue
        ev, lo, hi = lims[m]
        if lo == lo_w and hi == hi_w:
            rep.discharged("PL-LIM", fi, ev["node"], f"xy_range given: {m} is exactly the requested window")
        elif unmodelled_in(lo) or unmodelled_in(hi):
            rep.unmodelled("PL-LIM", fi, ev["node"], f"xy_range given: {m} not modelled")
        else:
            rep.refuted("PL-LIM", fi, ev["node"], f"xy_range given: {m} is [{sym.show(lo)[:50]}, {sym.show(hi)[:50]}] instead of the "
                                                  f"requested [{sym.show(lo_w)}, {sym.show(hi_w)}]",
                        construct=f"{qual}: {m} with xy_range given")


# ----------------------------------------------------------------------------- 2-D landscape plots (pattern)

def _elements(v):
    """the entries of a 1-d value of known length as expressions, or None"""
    from ..core.values import Arr, Sc, Seq
    if isinstance(v, Seq):
        return [x.e for x in v.items] if all(isinstance(x, Sc) and x.e is not None for x in v.items) else None
    if isinstance(v, Arr) and v.ndim == 1 and v.axes[0][0].concrete is not None:
        sp, iv = v.axes[0]
        return [sym.subst_ivar(v.elem, iv, k) for k in range(sp.concrete)]
    return None


LAND_SEMANTIC = {}


def check_landscape_plots_semantic(project: Project, rep):
    """PL-LAND, decided by evaluating the two plotting functions on a small landscape object whose data are independent symbols
    (3 depths × 3 points; `compute_landscape` is stubbed out: the data are given) with a recording axes object, once for
    depth_range=[0, 2] and once for the default: exactly one line per requested depth, in depth order, whose abscissae and
    ordinates are that depth's own data (exact: the two columns of its critical points; grid: np.linspace(start, stop, n) and its
    sampled values) and whose label names that depth.  Returns ok / refuted / unmodelled per function."""
    import random
    from ..core.values import Arr, NoneV, ObjV, Sc, Seq, StrV
    EXQ, APQ = "persim.landscapes.exact.PersLandscapeExact", "persim.landscapes.approximate.PersLandscapeApprox"
    out = {}
    for name, kind, cls in (("plot_landscape_exact_simple", "exact", EXQ), ("plot_landscape_approx_simple", "approx", APQ)):
        q = f"persim.landscapes.visuals.{name}"
        fi = project.functions.get(q)
        if fi is None:
            continue
        status = "ok"
        for requested, lazy in (([0, 2], False), (None, False), (None, True), ([0, 2], True)):
            if kind == "exact":
                data = [[(sym.Sym(f"x{d}{i}"), sym.Sym(f"y{d}{i}")) for i in range(3)] for d in range(3)]
                full = {"critical_pairs": Seq([Seq([Seq([Sc(a), Sc(b)], "list") for a, b in dd], "list") for dd in data], "list"),
                        "max_depth": Sc(sym.Num(3 if lazy else 2))}
                empty = {"critical_pairs": Seq([], "list"), "max_depth": Sc(sym.ZERO)}
                rest = {"hom_deg": Sc(sym.ZERO)}
            else:
                data = [[sym.Sym(f"v{d}{i}") for i in range(4)] for d in range(3)]
                full = {"values": Seq([Seq([Sc(a) for a in dd], "list") for dd in data], "list"),
                        "max_depth": Sc(sym.Num(3 if lazy else 2))}
                empty = {"values": Seq([], "list"), "max_depth": Sc(sym.ZERO)}
                rest = {"hom_deg": Sc(sym.ZERO), "start": Sc(sym.Sym("start")), "stop": Sc(sym.Sym("stop")), "num_steps": Sc(sym.Num(4))}

            def stub(I_, bound, n_, full=full):
                # the computation is not executed: the data are given.  On the lazily built object they appear only now —
                # what the plotting function read from the object before this call it read from an uncomputed landscape
                me = bound.get("self")
                if lazy and isinstance(me, ObjV):
                    me.attrs.update(full)
                return NoneV()
            I = Interp(project, Config(flags={"stub_func": {EXQ + ".compute_landscape": stub, APQ + ".compute_landscape": stub}}))
            land = ObjV(cls, dict(empty if lazy else full, **rest))
            ax = ObjV(None, {}, tag="axes")
            args = {"landscape": land, "ax": ax}
            if requested is not None:
                args["depth_range"] = Seq([Sc(sym.Num(k)) for k in requested], "list")
            tag = f"{name}(depth_range={requested if requested is not None else 'default'}" + (", landscape built with compute=False" if lazy else "") + ")"
            try:
                I.run(q, args)
            except AnalysisError as ex:
                rep.unmodelled("PL-LAND", fi, fi.node, f"{tag}: could not be evaluated ({ex})"[:200])
                status = "unmodelled"
                break
            plots = [ev for ev in I.log if ev["kind"] in ("draw", "pyplot") and (ev.get("method") == "plot" or ev.get("function") == "plot")]
            um = [u for u in I.unmodelled if not str(u["tag"]).startswith("prim:builtins.print")]
            want = requested if requested is not None else [0, 1, 2]
            if um or I.lossy:
                rep.unmodelled("PL-LAND", fi, fi.node, f"{tag}: the run was not exact ({(um[0]['tag'] if um else I.lossy[0]['why'])})"[:200])
                status = "unmodelled"
                break
            if any(ev["kind"] == "pyplot" for ev in plots):
                rep.unmodelled("PL-LAND", fi, plots[0]["node"], f"{tag}: lines are drawn through pyplot (PL-RECV decides the receiver)")
                status = "unmodelled"
                break
            if len(plots) != len(want):
                rep.refuted("PL-LAND", fi, plots[0]["node"] if plots else fi.node,
                            f"{tag}: {len(plots)} line(s) drawn for {len(want)} requested depth(s) {want}",
                            construct=f"{q}: one line per requested depth")
                status = "refuted"
                break
            rng = random.Random(12)
            bad = None
            for ev, d in zip(plots, want):
                pos = ev.get("pos") or []
                if len(pos) < 2:
                    bad = ("?", f"the line of depth {d} is drawn from {len(pos)} positional argument(s)")
                    break
                xs, ys = _elements(pos[0]), _elements(pos[1])
                if xs is None or ys is None:
                    bad = ("?", f"the data of the line of depth {d} could not be read ({pos[0]!r}, {pos[1]!r})"[:200])
                    break
                if kind == "exact":
                    wx, wy = [a for a, _ in data[d]], [b for _, b in data[d]]
                else:
                    n_ = len(data[d])
                    wx = [sym.add(sym.Sym("start"), sym.scale(sym.sub(sym.Sym("stop"), sym.Sym("start")), k / (n_ - 1))) for k in range(n_)]
                    wy = list(data[d])
                if len(xs) != len(wx) or len(ys) != len(wy):
                    bad = ("no", f"the line of depth {d} has {len(xs)}×{len(ys)} points, its data {len(wx)}")
                    break
                pt = symeval.Point(rng)
                try:
                    got = [symeval.ev(e, pt) for e in xs + ys]
                    exp = [symeval.ev(e, pt) for e in wx + wy]
                except symeval.NotEvaluable as ex:
                    bad = ("?", f"the line of depth {d} could not be evaluated ({ex})")
                    break
                if any(abs(a - b) > 1e-9 for a, b in zip(got, exp)):
                    which = "abscissae" if any(abs(a - b) > 1e-9 for a, b in zip(got[:len(xs)], exp[:len(xs)])) else "ordinates"
                    src = None
                    for d2 in range(3):
                        alt = ([b for _, b in data[d2]] if kind == "exact" else list(data[d2]))
                        try:
                            if len(alt) == len(ys) and all(abs(symeval.ev(a, pt) - g_) < 1e-9 for a, g_ in zip(alt, got[len(xs):])):
                                src = d2
                        except symeval.NotEvaluable:
                            pass
                    bad = ("no", f"the {k_th(want.index(d))} line (requested depth {d}) does not show that depth's data: its {which} differ"
                                 + (f" — the ordinates are those of depth {src}" if src is not None and src != d else ""))
                    break
                lab = (ev.get("kwargs") or {}).get("label")
                vals = [pv for pk, pv in getattr(lab, "parts", []) if pk == "val"] if isinstance(lab, StrV) else None
                if isinstance(lab, StrV) and getattr(lab, "arg", None) is not None:
                    vals = [lab.arg]
                if vals and all(v is not None for v in vals):
                    if not any(v[0] == "num" and int(v[1]) == d for v in vals if v[0] == "num") and all(v[0] == "num" for v in vals):
                        bad = ("no", f"the line that shows depth {d} is labelled with {[int(v[1]) for v in vals]}")
                        break
            if bad is not None and bad[0] == "?":
                rep.unmodelled("PL-LAND", fi, plots[0]["node"], f"{tag}: {bad[1]}"[:220])
                status = "unmodelled"
                break
            if bad is not None:
                rep.refuted("PL-LAND", fi, plots[0]["node"], f"{tag}: {bad[1]}", construct=f"{q}: data of the per-depth lines")
                status = "refuted"
                break
            rep.discharged("PL-LAND", fi, plots[0]["node"],
                           f"{tag}: evaluated on a 3-depth landscape of symbols — one line per requested depth, in order, drawn from "
                           f"that depth's own data and labelled with its depth")
        if kind == "approx" and status == "ok":
            status = _thinned_run(project, rep, fi, q, cls, APQ, EXQ)
        out[name] = status
    LAND_SEMANTIC.update(out)
    return out


def _thinned_run(project, rep, fi, q, cls, APQ, EXQ):
    """PL-LAND, grid plots asked for FEWER points than the landscape has samples (num_steps=3 on 7 samples, then 2 on 7): whatever
    the function does with the request (today: nothing), every drawn point whose ordinate is a sampled value v[d][j] must sit at
    that sample's abscissa start + j·(stop − start)/(n − 1).  Only that definite mismatch is refuted; a function that draws
    other ordinates (interpolation) gets no verdict from this run."""
    import random
    from ..core.values import NoneV, ObjV, Sc, Seq
    a = fi.node.args
    if "num_steps" not in [x.arg for x in a.posonlyargs + a.args + a.kwonlyargs]:
        return "ok"
    n_ = 7
    for asked in (3, 2):
        data = [[sym.Sym(f"w{d}{i}") for i in range(n_)] for d in range(2)]
        full = {"values": Seq([Seq([Sc(x) for x in dd], "list") for dd in data], "list"), "max_depth": Sc(sym.Num(1)),
                "hom_deg": Sc(sym.ZERO), "start": Sc(sym.Sym("start")), "stop": Sc(sym.Sym("stop")), "num_steps": Sc(sym.Num(n_))}

        def stub(I_, bound, n2_):
            return NoneV()
        I = Interp(project, Config(flags={"stub_func": {EXQ + ".compute_landscape": stub, APQ + ".compute_landscape": stub}}))
        tag = f"{q.rsplit('.', 1)[1]}(num_steps={asked}) on a landscape of {n_} samples"
        try:
            I.run(q, {"landscape": ObjV(cls, full), "ax": ObjV(None, {}, tag="axes"), "num_steps": Sc(sym.Num(asked))})
        except AnalysisError as ex:
            rep.note(f"PL-LAND {tag}: could not be evaluated ({ex}); no verdict from the thinned run"[:200])
            return "ok"
        um = [u for u in I.unmodelled if not str(u["tag"]).startswith("prim:builtins.print")]
        plots = [ev for ev in I.log if ev["kind"] == "draw" and ev.get("method") == "plot"]
        if um or I.lossy or len(plots) != 2:
            rep.note(f"PL-LAND {tag}: the run was not exact; no verdict from the thinned run")
            return "ok"
        pt = symeval.Point(random.Random(5))
        try:
            st, sp = symeval.ev(sym.Sym("start"), pt), symeval.ev(sym.Sym("stop"), pt)
            for ev, d in zip(plots, range(2)):
                pos = ev.get("pos") or []
                xs, ys = (_elements(pos[0]), _elements(pos[1])) if len(pos) >= 2 else (None, None)
                if xs is None or ys is None or len(xs) != len(ys):
                    rep.note(f"PL-LAND {tag}: line data not read; no verdict from the thinned run")
                    return "ok"
                vals = [symeval.ev(x, pt) for x in data[d]]
                for xe, ye in zip(xs, ys):
                    x, y = symeval.ev(xe, pt), symeval.ev(ye, pt)
                    js = [j for j, v in enumerate(vals) if abs(v - y) < 1e-9]
                    if len(js) != 1:
                        rep.note(f"PL-LAND {tag}: an ordinate is not a sampled value; no verdict from the thinned run")
                        return "ok"
                    gx = st + js[0] * (sp - st) / (n_ - 1)
                    if abs(gx - x) > 1e-9 * max(1.0, abs(gx)):
                        rep.refuted("PL-LAND", fi, ev["node"],
                                    f"{tag}: the point that shows sample {js[0]} of depth {d} (abscissa start + {js[0]}/{n_ - 1}·(stop − start)) "
                                    f"is drawn at start + {(x - st) / (sp - st):.4g}·(stop − start): the thinned ordinates and the "
                                    "rebuilt abscissae are out of step, the line is stretched along the axis",
                                    construct=f"{q}: abscissae of a thinned grid line",
                                    failing_input=f"PersLandscapeApprox with {n_} samples plotted with num_steps={asked}")
                        return "refuted"
        except symeval.NotEvaluable:
            rep.note(f"PL-LAND {tag}: not evaluable; no verdict from the thinned run")
            return "ok"
        rep.discharged("PL-LAND", fi, plots[0]["node"], f"{tag}: every drawn point is a sample at its own grid abscissa")
    return "ok"


def k_th(i):
    return ["first", "second", "third", "fourth"][i] if i < 4 else f"{i + 1}-th"


def check_landscape_plots(project: Project, rep):
    m = project.module("persim.landscapes.visuals")
    sem = check_landscape_plots_semantic(project, rep)
    for name, kind in (("plot_landscape_exact_simple", "exact"), ("plot_landscape_approx_simple", "approx")):
        fi = m.functions.get(name)
        if fi is None:
            raise AnalysisError(f"PL-LAND: {name} not found")
        rep.analysed(fi)
        if sem.get(name) in ("ok", "refuted"):
            continue   # decided by evaluation; the site reader below only speaks when the evaluation could not follow the code
        from .common import expand_locals, fn_view
        f = fn_view(project, fi)
        loops = [n for n in ast.walk(f) if isinstance(n, ast.For) and isinstance(n.iter, ast.Call)
                 and isinstance(n.iter.func, ast.Name) and n.iter.func.id == "enumerate"]
        if len(loops) != 1:
            rep.unmodelled("PL-LAND", fi, fi.node, "depth loop not found")
            continue
        lp = loops[0]
        if not (isinstance(lp.target, ast.Tuple) and len(lp.target.elts) == 2 and isinstance(lp.target.elts[1], ast.Name)):
            rep.unmodelled("PL-LAND", fi, lp, "depth loop target is not (depth, data)")
            continue
        var = lp.target.elts[1].id
        plots = [c for c in ast.walk(lp) if isinstance(c, ast.Call) and isinstance(c.func, ast.Attribute)
                 and c.func.attr == "plot"]
        if not plots:
            rep.unmodelled("PL-LAND", fi, lp, "no line is drawn inside the depth loop (drawing happens elsewhere): not followed")
            continue
        if len(plots) != 1:
            rep.refuted("PL-LAND", fi, lp, f"{len(plots)} line(s) drawn per depth instead of exactly one")
            continue
        c = plots[0]
        # names that hold (a copy / view / conversion of) this depth's data and nothing else
        derived = {var}
        changed = True
        while changed:
            changed = False
            for st in ast.walk(lp):
                if not isinstance(st, ast.Assign) or len(st.targets) != 1:
                    continue
                t, v = st.targets[0], st.value
                pairs = []
                if isinstance(t, ast.Name):
                    pairs = [(t, v)]
                elif isinstance(t, (ast.Tuple, ast.List)) and isinstance(v, (ast.Tuple, ast.List)) and len(t.elts) == len(v.elts):
                    pairs = [(a_, b_) for a_, b_ in zip(t.elts, v.elts) if isinstance(a_, ast.Name)]
                for a_, b_ in pairs:
                    pure = isinstance(b_, ast.Name) or (isinstance(b_, ast.Call) and ast.unparse(b_.func) in (
                        "np.array", "np.asarray", "list", "np.copy") and len(b_.args) == 1 and isinstance(b_.args[0], ast.Name))
                    src = b_ if isinstance(b_, ast.Name) else (b_.args[0] if pure else None)
                    if pure and src.id in derived and a_.id not in derived:
                        derived.add(a_.id)
                        changed = True
        ok = False
        args = [expand_locals(lp, a_) if not (isinstance(a_, ast.Name) and a_.id in derived) else a_ for a_ in c.args]

        def base_is_depth(a):
            while isinstance(a, ast.Call) and ast.unparse(a.func) in ("np.array", "np.asarray", "list") and len(a.args) == 1:
                a = a.args[0]
            return isinstance(a, ast.Name) and a.id in derived
        if kind == "exact" and len(args) >= 2:
            a0, a1 = args[0], args[1]

            def col(a):
                if isinstance(a, ast.Subscript) and base_is_depth(a.value) \
                        and isinstance(a.slice, ast.Tuple) and isinstance(a.slice.elts[1], ast.Constant):
                    return a.slice.elts[1].value
                return None
            cols = (col(a0), col(a1))
            ok = cols == (0, 1)
            if not ok and None not in cols:
                rep.refuted("PL-LAND", fi, c, f"the line of a depth is not (abscissae, ordinates) = (column 0, column 1) of "
                                              f"that depth's critical points")
            elif not ok:
                rep.unmodelled("PL-LAND", fi, c, f"arguments of the per-depth line `{ast.unparse(c)[:80]}` not recognised")
        elif kind == "approx" and len(args) >= 2:
            a1 = args[1]
            ok = base_is_depth(a1)
            if not ok and isinstance(a1, ast.Name):
                rep.refuted("PL-LAND", fi, c, "the ordinates of a depth's line are not that depth's sampled values")
            elif not ok:
                rep.unmodelled("PL-LAND", fi, c, f"ordinates of the per-depth line `{ast.unparse(a1)[:80]}` not recognised")
        if ok:
            rep.discharged("PL-LAND", fi, c, f"one line per depth, drawn from that depth's own data ({kind})")


def run(project: Project, rep, tier: str):
    rep.explain(
        "C20 (clauses decided): PL-RECV is a receiver-discipline rule over every function that owns an `ax` (call "
        "resolution through the import table, transitive through helpers). The matching plots and `plot_diagrams` are "
        "evaluated symbolically on generic diagrams / a generic matching with an abstract axes object; every drawing "
        "call is logged with its reachability condition and coordinate normal forms. PL-SEG: Σ[reach of plot calls] ≡ "
        "[row has a non-diagonal entry]. PL-IDX: row indices of first/second-diagram coordinates derive from matching "
        "column 0/1. PL-FOOT: the diagonal end of a point-to-diagonal segment is ((b+d)/2,(b+d)/2). PL-DGM: scatter "
        "coordinates are float32 (birth, death) or (birth, death−birth) per diagram, inf entries replaced by the ∞-line "
        "ordinate. PL-LIM: limits are affine in data min/max and enclose them; the ∞-line lies strictly inside. PL-MAX, "
        "PL-LAND: site patterns. Declined: rendering, float32 rounding of offsets, legend contents.")
    rep.assume("matplotlib Axes methods draw on their receiver; pyplot functions draw on the current axes")
    check_recv(project, rep)
    for q in ("persim.visuals.bottleneck_matching", "persim.visuals.wasserstein_matching"):
        I_ = check_matching_plot(project, rep, q)
        if q.endswith("bottleneck_matching"):
            check_max_style(project, rep, q, I_)
    check_plot_diagrams_selection(project, rep)
    check_plot_diagrams(project, rep)
    check_plot_diagrams_given_range(project, rep)
    check_landscape_plots(project, rep)
    # PL-PURE: a plot draws the data it is given and leaves them alone — in-place edits made while preparing the plot
    # (lifetime conversion, moving infinite deaths onto the infinity line) must act on a private copy, otherwise a second
    # plot of the same array shows different data
    from .common import own_analysis
    oa = own_analysis(project)
    n_pure = 0
    for q in ("persim.visuals.plot_diagrams", "persim.visuals.bottleneck_matching", "persim.visuals.wasserstein_matching",
              "persim.landscapes.visuals.plot_landscape", "persim.landscapes.visuals.plot_landscape_simple"):
        if q not in project.functions:
            continue
        f2 = project.functions[q]
        s_ = oa.summary(q)
        w_ = [ev for ev in s_.events if ev.kind == "write" and ev.origin.is_arg and ev.origin.param not in ("ax", "self")
              and not (ev.needs_nd and isinstance(getattr(ev.node, "target", None), ast.Name))]
        n_pure += 1
        if w_:
            ev = w_[0]
            owner = project.functions.get(ev.func) or f2
            rep.refuted("PL-PURE", owner, ev.node,
                        f"{q} edits in place what its caller passed as `{ev.origin.param}` ({ev.how} on {ev.origin}): plotting "
                        f"the same array again shows different data (e.g. the lifetime conversion applied twice, or the "
                        f"infinity line gone)", construct=f"{q}({ev.origin.param}): {ast.unparse(ev.node)[:100]}")
        else:
            rep.discharged("PL-PURE", f2, f2.node, "no write event reaches the data passed in (conversions act on private copies)")
    # PL-DTYPE: what is drawn is a function of the numbers in the diagrams, not of their numpy dtype — rotated / projected
    # coordinates (floats) must not be stored into a scratch array typed by an integer diagram (rules/dtype_rule.py)
    from . import dtype_rule as _dt
    _fns = [f_ for q_, f_ in sorted(project.functions.items()) if q_.startswith("persim.visuals.") and f_.parent is None
            and isinstance(f_.node, (ast.FunctionDef, ast.AsyncFunctionDef))]
    if _fns:
        _dt.run_on(project, rep, "PL-DTYPE", _fns)
    rep.floor("PL-DTYPE", 1)
    for rn, n in (("PL-SEG", 2), ("PL-IDX", 6), ("PL-FOOT", 6), ("PL-MAX", 1), ("PL-DGM", 4), ("PL-LIM", 4), ("PL-LAND", 2), ("PL-PURE", 5)):
        rep.floor(rn, n)
    for t in ("matplotlib.axes.Axes.plot", "matplotlib.axes.Axes.scatter", "matplotlib.pyplot.plot", "numpy.argmax",
              "numpy.ndarray.dot", "numpy.ndarray.astype"):
        rep.trust(t)
