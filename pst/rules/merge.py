"""AR-MERGE — the sum of two exact landscapes' depths, decided per ordering class of the breakpoints (bounded).

`union_crit_pairs(A, B)` turns each depth's critical pairs into (x, slope) pairs, merges the two slope lists and
integrates back. Which branch of the merge runs depends only on how the breakpoints of the two operands interleave (and
on which coincide): for fixed numbers of breakpoints there are finitely many such ordering classes. For every class with
up to L breakpoints per operand the pipeline is followed by the symbolic interpreter with symbolic abscissae constrained
to that class (comparisons between abscissae are decided by the class, loops over the concrete-length lists are followed
trip by trip) and symbolic ordinates; the result is a list of (abscissa, ordinate expression). It must be, breakpoint by
breakpoint of the union, f_A(x) + f_B(x) with f the piecewise-linear function through the operand's critical pairs (0
outside its support). Expressions are compared by identity testing at random valuations inside the class.

This is a bounded claim: operands with more than L breakpoints are not covered (the merge treats elements uniformly, which
is why small classes are telling, but that is an argument, not a proof).
"""
from __future__ import annotations

import itertools
import random

from ..core import sym, symeval
from ..core.absint import Config, Interp
from ..core.loader import AnalysisError, Project
from ..core.values import Arr, ObjV, Sc, Seq, Unknown

EX = "persim.landscapes.exact.PersLandscapeExact"
UNION = "persim.landscapes.auxiliary.union_crit_pairs"


def interleavings(la, lb):
    """all ways two increasing sequences of lengths la, lb interleave, ties between an a and a b allowed: lists of
    'a' | 'b' | 'ab' steps"""
    out = []

    def rec(i, j, acc):
        if i == la and j == lb:
            out.append(list(acc))
            return
        if i < la:
            rec(i + 1, j, acc + ["a"])
        if j < lb:
            rec(i, j + 1, acc + ["b"])
        if i < la and j < lb:
            rec(i + 1, j + 1, acc + ["ab"])
    rec(0, 0, [])
    return out


def _operand(name, ranks):
    n = len(ranks)
    pairs = []
    ys = []
    for k, r in enumerate(ranks):
        y = sym.ZERO if k in (0, n - 1) else sym.Sym(f"{name}y{k}")
        ys.append(y)
        pairs.append(Seq([Sc(sym.Sym(f"x{r}")), Sc(y)], "list"))
    return Seq(pairs, "list"), ys


def _f(ranks, ys, r):
    """ordinate at the breakpoint of rank r of the piecewise-linear function through (x_rank, y)"""
    if r < ranks[0] or r > ranks[-1]:
        return sym.ZERO
    for k, rk in enumerate(ranks):
        if rk == r:
            return ys[k]
    for k in range(len(ranks) - 1):
        if ranks[k] < r < ranks[k + 1]:
            x0, x1, x = sym.Sym(f"x{ranks[k]}"), sym.Sym(f"x{ranks[k + 1]}"), sym.Sym(f"x{r}")
            t = sym.div(sym.sub(x, x0), sym.sub(x1, x0))
            return sym.add(ys[k], sym.mul(sym.sub(ys[k + 1], ys[k]), t))
    return sym.ZERO


def _pairs_of(v):
    """[(x expr, y expr)] of a depth returned by the merge, or None"""
    items = None
    if isinstance(v, Seq):
        items = v.items
    if items is None:
        return None
    out = []
    for it in items:
        if isinstance(it, Seq) and len(it.items) == 2 and all(isinstance(z, Sc) and z.e is not None for z in it.items):
            out.append((it.items[0].e, it.items[1].e))
        else:
            return None
    return out


def _values(rng, nranks, names):
    xs = sorted(rng.uniform(-3, 3) for _ in range(nranks))
    # keep breakpoints apart so that slopes stay moderate
    xs = [x + 0.35 * k for k, x in enumerate(xs)]
    vals = {f"x{r}": xs[r] for r in range(nranks)}
    for n in names:
        vals[n] = rng.choice([-1, 1]) * rng.uniform(0.1, 3.0)
    return vals


def _ev(e, vals, rng):
    pt = symeval.Point(rng)
    pt.syms.update(vals)
    return symeval.ev(e, pt)


def check_merge(project: Project, rep, max_len=3):
    fi = project.functions.get(UNION)
    if fi is None:
        rep.unmodelled("AR-MERGE", None, None, f"{UNION} not found")
        return
    rep.analysed(fi)
    rng = random.Random(5)
    n_classes = 0
    for la, lb in itertools.product(range(2, max_len + 1), repeat=2):
        for steps in interleavings(la, lb):
            ra, rb = [], []
            for r, s in enumerate(steps):
                if "a" in s:
                    ra.append(r)
                if "b" in s:
                    rb.append(r)
            nr = len(steps)
            A_pairs, ya = _operand("a", ra)
            B_pairs, yb = _operand("b", rb)
            model = {f"x{r}": float(r) for r in range(nr)}
            I = Interp(project, Config(flags={"order_model": model, "unroll_while": 64}))
            A = ObjV(EX, {"critical_pairs": Seq([A_pairs], "list"), "hom_deg": Sc(sym.ZERO), "dgms": Seq([], "list")})
            B = ObjV(EX, {"critical_pairs": Seq([B_pairs], "list"), "hom_deg": Sc(sym.ZERO), "dgms": Seq([], "list")})
            cls_txt = " ".join(steps)
            try:
                r = I.call_function(fi, [A, B], {}, None)
            except AnalysisError as ex:
                rep.unmodelled("AR-MERGE", fi, fi.node, f"ordering class [{cls_txt}]: {ex}"[:220])
                return
            depth = None
            if isinstance(r, Seq) and len(r.items) == 1:
                depth = _pairs_of(r.items[0])
            if depth is None or I.lossy or any(not str(u["tag"]).startswith("prim:builtins.print") for u in I.unmodelled):
                why = (I.unmodelled[0]["tag"] if I.unmodelled else (I.lossy[0]["why"] if I.lossy else f"result {r!r}"))
                rep.unmodelled("AR-MERGE", fi, fi.node, f"ordering class [{cls_txt}]: the merged depth could not be followed "
                                                        f"({str(why)[:100]})")
                return
            names = [str(y[1]) for y in ya + yb if y[0] == "sym"]
            # drop repeated breakpoints that carry the same ordinate (a zero-length segment changes nothing)
            spec = [(sym.Sym(f"x{r_}"), sym.add(_f(ra, ya, r_), _f(rb, yb, r_))) for r_ in range(nr)]
            bad = None
            for trial in range(6):
                vals = _values(rng, nr, names)
                try:
                    got = [(_ev(x, vals, rng), _ev(y, vals, rng)) for x, y in depth]
                    want = [(_ev(x, vals, rng), _ev(y, vals, rng)) for x, y in spec]
                except symeval.NotEvaluable as ex:
                    rep.unmodelled("AR-MERGE", fi, fi.node, f"ordering class [{cls_txt}]: cannot evaluate ({ex})")
                    return
                g2 = []
                for p in got:
                    if g2 and abs(g2[-1][0] - p[0]) < 1e-12 and abs(g2[-1][1] - p[1]) < 1e-9 * (1 + abs(p[1])):
                        continue
                    g2.append(p)
                ok = len(g2) == len(want) and all(abs(a_[0] - b_[0]) < 1e-9 and abs(a_[1] - b_[1]) < 1e-7 * (1 + abs(b_[1]))
                                                  for a_, b_ in zip(g2, want))
                if not ok:
                    bad = (vals, g2, want)
                    break
            n_classes += 1
            if bad is not None:
                vals, g2, want = bad
                A_num = [(round(vals[f"x{r_}"], 3), round(_ev(y, vals, rng), 3)) for r_, y in zip(ra, ya)]
                B_num = [(round(vals[f"x{r_}"], 3), round(_ev(y, vals, rng), 3)) for r_, y in zip(rb, yb)]
                rep.refuted("AR-MERGE", fi, fi.node,
                            f"breakpoints interleaved as [{cls_txt}]: the sum of the depths A={A_num} and B={B_num} comes out as "
                            f"{[(round(x, 3), round(y, 3)) for x, y in g2]} instead of "
                            f"{[(round(x, 3), round(y, 3)) for x, y in want]} (f_A + f_B at every breakpoint of the union)",
                            construct=f"{UNION}: slope merge", failing_input=f"A={A_num} B={B_num}")
                return
    rep.discharged("AR-MERGE", fi, fi.node,
                   f"for all {n_classes} ordering classes of two depths with 2…{max_len} breakpoints each (ties included), "
                   f"the merged depth is f_A + f_B at every breakpoint of the union (symbolic ordinates, identity-tested)")


def check_pad_semantic(project: Project, rep):
    """AR-PAD — a missing depth counts as the zero function, decided on what the two padding helpers return.
    Grid class: `union_vals(A, B)` is evaluated for A shallower than B and for B shallower than A (symbolic depth counts with
    that strict order as a fact): both results must have max(depths) rows and the grid's columns, the rows an operand had
    are unchanged and the added rows are 0. Exact class: `union_crit_pairs` with one operand one depth deeper returns the
    deeper operand's extra depth unchanged."""
    from ..core.values import fresh, rows
    status = {}
    uv = project.functions.get("persim.landscapes.auxiliary.union_vals")
    if uv is None:
        rep.unmodelled("AR-PAD", None, None, "union_vals not found")
        status["vals"] = "unmodelled"
    else:
        rep.analysed(uv)
        status["vals"] = "ok"
        rng = random.Random(3)
        for shallow, facts, da_db in (("A", [(("rows", "DA"), ("rows", "DB"))], [(1, 2), (1, 3), (2, 4)]),
                                      ("B", [(("rows", "DB"), ("rows", "DA"))], [(2, 1), (3, 1), (4, 2)])):
            I = Interp(project, Config(nonempty={("rows", "DA"), ("rows", "DB"), ("rows", "G")}, finite_inputs={"A", "B"},
                                       size_facts=facts))
            a, g, b, g2 = fresh(), fresh(), fresh(), fresh()
            A = Arr([(rows("DA"), a), (rows("G"), g)], sym.In("A", ((a, 0), (g, 0))))
            B = Arr([(rows("DB"), b), (rows("G"), g2)], sym.In("B", ((b, 0), (g2, 0))))
            try:
                r = I.call_function(uv, [A, B], {}, None)
            except AnalysisError as ex:
                rep.unmodelled("AR-PAD", uv, uv.node, f"union_vals could not be evaluated: {ex}"[:200])
                status["vals"] = "unmodelled"
                break
            outs = r.items if isinstance(r, Seq) and len(r.items) == 2 else None
            if outs is None or not all(isinstance(x, Arr) and x.ndim == 2 for x in outs) or I.unmodelled or I.lossy:
                why = I.unmodelled[0]["tag"] if I.unmodelled else repr(r)[:80]
                rep.unmodelled("AR-PAD", uv, uv.node, f"union_vals with `{shallow}` shallower: result not modelled ({why})")
                status["vals"] = "unmodelled"
                break
            bad = None
            for (da, db) in da_db:
                for name, out, own in (("A", outs[0], da), ("B", outs[1], db)):
                    pt = symeval.Point(rng, nrows=3, sizes={("rows", "DA"): da, ("rows", "DB"): db, ("rows", "G"): 2})
                    pt.eval_ranges = True
                    try:
                        n0 = int(round(symeval.ev(out.axes[0][0].size, pt)))
                        n1 = int(round(symeval.ev(out.axes[1][0].size, pt)))
                        if (n0, n1) != (max(da, db), 2):
                            bad = f"with {da} and {db} depths the {name} result has shape ({n0}, {n1}) instead of ({max(da, db)}, 2)"
                            break
                        for i in range(n0):
                            for j in range(n1):
                                pt.ivs[out.axes[0][1]] = i
                                pt.ivs[out.axes[1][1]] = j
                                got = symeval.ev(out.elem, pt)
                                want = pt.inp(name, (i, j)) if i < own else 0.0
                                if abs(got - want) > 1e-12:
                                    bad = (f"with {da} and {db} depths, row {i} of the {name} result holds {got:.4g} where "
                                           f"{'the operand has ' + format(want, '.4g') if i < own else 'a missing depth must be 0'}")
                                    break
                            if bad:
                                break
                    except symeval.NotEvaluable as ex:
                        rep.unmodelled("AR-PAD", uv, uv.node, f"cannot evaluate the padded result ({ex})")
                        status["vals"] = "unmodelled"
                        bad = "?"
                    if bad:
                        break
                if bad:
                    break
            if bad == "?":
                break
            if bad:
                rep.refuted("AR-PAD", uv, uv.node, f"union_vals: {bad}", construct="persim.landscapes.auxiliary.union_vals: padding")
                status["vals"] = "refuted"
                break
            rep.discharged("AR-PAD", uv, uv.node, f"union_vals with `{shallow}` shallower: both results have max(depths) rows, existing "
                                                  f"rows unchanged, added rows 0")
    # exact class
    fi = project.functions.get(UNION)
    status["crit"] = "ok"
    if fi is None:
        status["crit"] = "unmodelled"
        return status
    for deeper in ("A", "B"):
        d1, ya = _operand("a", [0, 1, 2])
        d2, yb = _operand("b", [0, 1, 2])
        extra, ye = _operand("e", [0, 1, 2])
        I = Interp(project, Config(flags={"order_model": {f"x{r}": float(r) for r in range(3)}, "unroll_while": 64}))
        A = ObjV(EX, {"critical_pairs": Seq([d1] + ([extra] if deeper == "A" else []), "list"), "hom_deg": Sc(sym.ZERO),
                      "dgms": Seq([], "list")})
        B = ObjV(EX, {"critical_pairs": Seq([d2] + ([extra] if deeper == "B" else []), "list"), "hom_deg": Sc(sym.ZERO),
                      "dgms": Seq([], "list")})
        try:
            r = I.call_function(fi, [A, B], {}, None)
        except AnalysisError as ex:
            rep.unmodelled("AR-PAD", fi, fi.node, f"union_crit_pairs could not be evaluated: {ex}"[:200])
            status["crit"] = "unmodelled"
            return status
        if not isinstance(r, Seq) or I.lossy or I.unmodelled:
            rep.unmodelled("AR-PAD", fi, fi.node, "union_crit_pairs with operands of different depth: result not modelled")
            status["crit"] = "unmodelled"
            return status
        if len(r.items) != 2:
            rep.refuted("AR-PAD", fi, fi.node, f"an operand with 2 depths plus one with 1 depth gives {len(r.items)} depth(s): the "
                                               f"deeper operand's extra depth is lost or duplicated")
            status["crit"] = "refuted"
            return status
        got = _pairs_of(r.items[1])
        want = _pairs_of(extra)
        if got is None:
            rep.unmodelled("AR-PAD", fi, fi.node, "the extra depth of the result is not a list of pairs")
            status["crit"] = "unmodelled"
            return status
        if len(got) == len(want) and all(sym.equal(a_[0], b_[0]) and sym.equal(a_[1], b_[1]) for a_, b_ in zip(got, want)):
            rep.discharged("AR-PAD", fi, fi.node, f"when `{deeper}` is one depth deeper its extra depth is the result's extra depth, "
                                                  f"unchanged (the missing depth counts as the zero function)")
        else:
            rep.refuted("AR-PAD", fi, fi.node, f"when `{deeper}` is one depth deeper the result's extra depth is not that depth "
                                               f"unchanged", construct=f"{UNION}: missing depth")
            status["crit"] = "refuted"
            return status
    return status


def check_snap_semantic(project: Project, rep):
    """AR-SNAP — re-sampling grid landscapes onto a common grid, decided on the constructor calls observed while `snap_pl` is
    followed on two landscapes with independent symbolic grids and values: landscape k's row d becomes
    np.interp(node g of linspace(start, stop, num_steps), landscape k's own grid, landscape k's own row d), the result carries
    the requested grid and landscape k's degree; with the grid left out it is (min start, max stop, max num_steps)."""
    from ..core.values import fresh, rows
    AP = "persim.landscapes.approximate.PersLandscapeApprox"
    fi = project.functions.get("persim.landscapes.tools.snap_pl")
    if fi is None:
        rep.unmodelled("AR-SNAP", None, None, "snap_pl not found")
        return "unmodelled"
    rep.analysed(fi)

    def run(given):
        def stub(I, bound, n):
            return ObjV(AP, dict(bound))
        I = Interp(project, Config(nonempty={("rows", "D0"), ("rows", "G0"), ("rows", "D1"), ("rows", "G1")},
                                   finite_inputs={"V0", "V1"}, flags={"stub_ctor": {AP: stub}}))

        def land(k):
            d, g = fresh(), fresh()
            return ObjV(AP, {"values": Arr([(rows(f"D{k}"), d), (rows(f"G{k}"), g)], sym.In(f"V{k}", ((d, 0), (g, 0)))),
                             "start": Sc(sym.Sym(f"s{k}")), "stop": Sc(sym.Sym(f"e{k}")), "num_steps": Sc(sym.Sym(f"n{k}")),
                             "hom_deg": Sc(sym.Sym(f"hd{k}")), "dgms": Seq([], "list"), "max_depth": Sc(sym.Sym(f"md{k}"))})
        pls = Seq([land(0), land(1)], "list")
        kw = {}
        if given:
            kw = {"start": Sc(sym.Sym("start")), "stop": Sc(sym.Sym("stop")), "num_steps": Sc(sym.Sym("n"))}
        I.call_function(fi, [pls], kw, None)
        return I

    try:
        I = run(True)
    except Exception as ex:
        rep.unmodelled("AR-SNAP", fi, fi.node, f"snap_pl could not be followed: {type(ex).__name__}: {ex}"[:200])
        return "unmodelled"
    cons = [ev for ev in I.log if ev["kind"] == "construct" and ev["cls"] == AP]
    um = [u for u in I.unmodelled]
    if len(cons) != 2 or um or I.lossy:
        why = um[0]["tag"] if um else f"{len(cons)} landscapes built for 2 inputs"
        if len(cons) != 2 and not um and not I.lossy:
            rep.refuted("AR-SNAP", fi, fi.node, f"snap_pl builds {len(cons)} landscapes for 2 inputs")
            return "refuted"
        rep.unmodelled("AR-SNAP", fi, fi.node, f"snap_pl could not be followed ({why})")
        return "unmodelled"
    status = "ok"
    for k, ev in enumerate(cons):
        args, node = ev["args"], ev["node"]
        for name, want in (("start", sym.Sym("start")), ("stop", sym.Sym("stop")), ("num_steps", sym.Sym("n")),
                           ("hom_deg", sym.Sym(f"hd{k}"))):
            v = args.get(name)
            if isinstance(v, Sc) and v.e == want:
                continue
            got = sym.show(v.e)[:60] if isinstance(v, Sc) and v.e is not None else ("<default>" if v is None else type(v).__name__)
            rep.refuted("AR-SNAP", fi, node, f"re-sampled landscape {k + 1} is built with {name} = {got} instead of {sym.show(want)}")
            status = "refuted"
        vals = args.get("values")
        if not isinstance(vals, Arr) or vals.ndim != 2:
            rep.unmodelled("AR-SNAP", fi, node, f"values of re-sampled landscape {k + 1} are not a 2-d array")
            return "unmodelled"
        (dsp, div), (gsp, giv) = vals.axes
        e = vals.elem
        if dsp.key != ("rows", f"D{k}") or not sym.equal(gsp.size, sym.Sym("n")):
            rep.refuted("AR-SNAP", fi, node, f"re-sampled landscape {k + 1} has shape ({sym.show(dsp.size)[:40]}, "
                                             f"{sym.show(gsp.size)[:40]}) instead of (its own depths, num_steps)")
            status = "refuted"
            continue
        if not (e[0] == "opq" and e[1] == "interp" and len(e[2]) == 3):
            rep.unmodelled("AR-SNAP", fi, node, f"a re-sampled value is {sym.show(e)[:100]}, not an interpolation")
            return "unmodelled"
        x, xp, fp = e[2]
        grid = sym.add(sym.Sym("start"), sym.mul(sym.IV(giv), sym.div(sym.sub(sym.Sym("stop"), sym.Sym("start")),
                                                                        sym.sub(sym.Sym("n"), sym.ONE))))
        okx, wx = symeval.equivalent(x, grid, trials=20)
        jv = sorted(sym.free_ivars(xp))
        own = None
        if len(jv) == 1:
            own = sym.add(sym.Sym(f"s{k}"), sym.mul(sym.IV(jv[0]), sym.div(sym.sub(sym.Sym(f"e{k}"), sym.Sym(f"s{k}")),
                                                                            sym.sub(sym.Sym(f"n{k}"), sym.ONE))))
        okp, wp = symeval.equivalent(xp, own, trials=20) if own is not None else (False, "abscissae are not a grid")
        okf = fp[0] == "in" and fp[1] == f"V{k}" and len(fp[2]) == 2 and isinstance(fp[2][0], tuple) and fp[2][0][0] == div \
            and isinstance(fp[2][1], tuple)
        if okx is True and okp is True and okf:
            rep.discharged("AR-SNAP", fi, node, f"landscape {k + 1}: row d is np.interp(new grid, its own grid, its own row d)")
        elif okx is None or okp is None:
            rep.unmodelled("AR-SNAP", fi, node, f"cannot evaluate the interpolation arguments ({wx or wp})")
            return "unmodelled"
        else:
            what = ("it is sampled at " + sym.show(x)[:80] + " instead of the nodes of the requested grid") if okx is not True else \
                   ("the abscissae are " + sym.show(xp)[:80] + " instead of the landscape's own grid") if okp is not True else \
                   ("the ordinates are " + sym.show(fp)[:60] + " instead of the landscape's own row d")
            rep.refuted("AR-SNAP", fi, node, f"landscape {k + 1} is re-sampled wrongly: {what}", construct=f"{fi.qualname}: re-sampling")
            status = "refuted"
    # defaults
    try:
        I2 = run(False)
        cons2 = [ev for ev in I2.log if ev["kind"] == "construct" and ev["cls"] == AP]
    except Exception:
        cons2 = []
    if len(cons2) == 2:
        want = {"start": sym.fn("min", sym.Sym("s0"), sym.Sym("s1")), "stop": sym.fn("max", sym.Sym("e0"), sym.Sym("e1")),
                "num_steps": sym.fn("max", sym.Sym("n0"), sym.Sym("n1"))}
        for name, w in want.items():
            v = cons2[0]["args"].get(name)
            if isinstance(v, Sc) and v.e is not None and not unmodelled_local(v.e):
                ok, wit = symeval.equivalent(v.e, w, trials=30)
                if ok is True:
                    rep.discharged("AR-SNAP", fi, cons2[0]["node"], f"default `{name}` is the tightest common value "
                                                                    f"({sym.show(w)})")
                elif ok is False:
                    rep.refuted("AR-SNAP", fi, cons2[0]["node"], f"default `{name}` is {sym.show(v.e)[:80]}, not {sym.show(w)}")
                    status = "refuted"
    return status


def unmodelled_local(e):
    return [x[1] for x in sym.walk(e) if x[0] == "opq" and x[1].startswith("unmodelled")]
