"""LX-SWEEP — the exact landscape of a small diagram, decided per ordering class of the bars' end-points (bounded).

Every comparison of `PersLandscapeExact.compute_landscape` is between births and deaths of bars (original or the residual
bars the sweep pushes back). For k bars there are finitely many weak orderings of their 2k end-points (with b_i < d_i): in
each, all tests of the sweep are decided, its loops over the (concrete-length) work lists are followed trip by trip with
python's live-list iteration semantics, and the critical pairs come out as expressions in the end-points. They must describe,
depth by depth, the (depth)-th largest of the tent functions max(0, min(t − b_i, d_i − t)) — checked at every end-point, every
pairwise mid-point and between consecutive ones, at random valuations inside the class.

Bounded: diagrams with more bars than the bound are not covered. Classes in which two bars coincide run into the repeated-bar
shortcut (known finding K1); their verdict is reported under that finding, not as a new violation.
"""
from __future__ import annotations

import itertools
import random

from ..core import sym, symeval
from ..core.absint import Config, Interp
from ..core.loader import AnalysisError, Project
from ..core.values import ObjV, Sc, Seq

EX = "persim.landscapes.exact.PersLandscapeExact"


def classes(k):
    """weak orderings of the end-points (b_0, d_0, …) with b_i < d_i, as rank tuples (rb_0, rd_0, …) onto 0..m-1"""
    n = 2 * k
    seen = set()
    out = []
    for m in range(1, n + 1):
        for ranks in itertools.product(range(m), repeat=n):
            if len(set(ranks)) != m:
                continue
            if any(ranks[2 * i] >= ranks[2 * i + 1] for i in range(k)):
                continue
            if ranks not in seen:
                seen.add(ranks)
                out.append(ranks)
    return out


def _pl(points, t):
    """value at t of the piecewise-linear function through `points` (sorted by x; 0 outside)"""
    if not points or t < points[0][0] or t > points[-1][0]:
        return 0.0
    for (x0, y0), (x1, y1) in zip(points, points[1:]):
        if x0 <= t <= x1:
            if x1 == x0:
                return max(y0, y1) if False else y1
            return y0 + (y1 - y0) * (t - x0) / (x1 - x0)
    return points[-1][1] if t == points[-1][0] else 0.0


LAST_DUP = {}


def run_class(project, fi, ranks):
    k = len(ranks) // 2
    m = max(ranks) + 1
    model = {f"v{r}": float(r) for r in range(m)}
    bars = Seq([Seq([Sc(sym.Sym(f"v{ranks[2 * i]}")), Sc(sym.Sym(f"v{ranks[2 * i + 1]}"))], "list") for i in range(k)], "list")
    I = Interp(project, Config(flags={"order_model": model, "unroll_while": 200, "live_lists": True}))
    me = ObjV(EX, {"dgms": bars, "critical_pairs": Seq([], "list"), "hom_deg": Sc(sym.ZERO), "max_depth": Sc(sym.ZERO)})
    args = {"self": me}
    for p in fi.params[1:]:
        args[p] = Sc(sym.FALSE)
    I.run(fi.qualname, args)
    return I, me


def check_sweep(project: Project, rep, max_bars=2, sample3=0):
    fi = project.function(f"{EX}.compute_landscape")
    rng = random.Random(9)
    todo = []
    for k in range(1, max_bars + 1):
        todo += classes(k)
    if sample3:
        # sampled ordering classes of 4 bars: end-points drawn from a small grid, then ranked
        rng2 = random.Random(4)
        seen4 = set()
        while len(seen4) < sample3:
            vals = [rng2.randrange(7) for _ in range(8)]
            if any(vals[2 * i] >= vals[2 * i + 1] for i in range(4)):
                continue
            order = sorted(set(vals))
            seen4.add(tuple(order.index(v) for v in vals))
        todo += sorted(seen4)
        # one bar many times over: the copy loop of the repeated-bar shortcut runs more than once per level only from the fourth
        # copy on (the scan pops while it enumerates)
        todo += [tuple([0, 1] * n_) for n_ in (4, 5, 6, 7)]
    n_ok = 0
    dup_bad = None
    n_dup = 0
    dup_fail, dup_unfollowed = [], []
    dup_why = {}
    for ranks in todo:
        k = len(ranks) // 2
        bars_r = [(ranks[2 * i], ranks[2 * i + 1]) for i in range(k)]
        has_dup = len(set(bars_r)) < k
        try:
            I, me = run_class(project, fi, ranks)
        except AnalysisError as ex:
            msg = str(ex)
            if "still running after" in msg and "not exact" not in msg and not has_dup:
                rep.refuted("LX-SWEEP", fi, fi.node, f"bars with end-points ordered as {bars_r}: the sweep does not terminate",
                            construct=f"{fi.qualname}: sweep", failing_input=str(bars_r))
                return "refuted"
            if has_dup:
                n_dup += 1
                dup_bad = dup_bad or (bars_r, "does not terminate / cannot be followed")
                dup_unfollowed.append(tuple(ranks))
                continue
            rep.unmodelled("LX-SWEEP", fi, fi.node, f"bars {bars_r}: {msg}"[:200])
            return "unmodelled"
        # an exception that is certain on this run (a pop at a position a fully known list does not have)
        boom = [ev_ for ev_ in I.log if ev_["kind"] == "raise" and ev_.get("exc") and ev_.get("definite")]
        if boom and not I.lossy and not [u for u in I.unmodelled if not str(u["tag"]).startswith(("prim:builtins.print", "index-StrV"))]:
            if has_dup:
                n_dup += 1
                dup_bad = dup_bad or (bars_r, f"raises {boom[0]['exc']} ({boom[0].get('message', '')})")
                dup_fail.append(tuple(ranks))
                dup_why[tuple(ranks)] = f"the sweep raises {boom[0]['exc']} ({boom[0].get('message', '')})"
                continue
            owner = boom[0]["fi"] or fi
            rep.refuted("LX-SWEEP", owner, boom[0]["node"],
                        f"bars with end-points ordered as {bars_r}: the sweep raises {boom[0]['exc']} ({boom[0].get('message', '')})",
                        construct=f"{fi.qualname}: sweep", failing_input=str(bars_r))
            return "refuted"
        # a test that sees None when nothing is left and a birth / death otherwise takes a coordinate 0 for 'nothing left'
        for rec in getattr(I, "truth_kinds", {}).values():
            if {"none", "data-number"} <= rec["kinds"]:
                owner = rec["fi"] or fi
                import ast as _ast
                rep.refuted("LX-SWEEP", owner, rec["node"],
                            f"`{_ast.unparse(rec['node'])}` is truth-tested while it holds None in one case and an end-point of a bar "
                            f"({sym.show(rec['example'])[:60]}) in another: a bar that is born or dies exactly at 0 is taken for "
                            f"'nothing left', so the depth is closed early (e.g. bars (-4,-1), (-3,0))",
                            construct=f"{owner.qualname}: truth test of {_ast.unparse(rec['node'])}")
                return "refuted"
        # the repeated-bar shortcut ran (a depth was appended as a copy of the previous one): known finding K1
        for ev_ in I.log:
            if ev_["kind"] == "method-call" and ev_.get("target") == "append" and isinstance(ev_.get("recv"), Seq) \
                    and ev_["pos"] and isinstance(ev_["pos"][0], Seq) \
                    and sum(1 for x in ev_["recv"].items if x is ev_["pos"][0]) >= 2:
                has_dup = True
        cp = me.attrs.get("critical_pairs")
        depths = None
        if isinstance(cp, Seq):
            depths = []
            for d in cp.items:
                if not isinstance(d, Seq):
                    depths = None
                    break
                pts = []
                for pr in d.items:
                    if isinstance(pr, Seq) and len(pr.items) == 2 and all(isinstance(z, Sc) and z.e is not None for z in pr.items):
                        pts.append((pr.items[0].e, pr.items[1].e))
                    else:
                        depths = None
                        break
                if depths is None:
                    break
                depths.append(pts)
        um = [u for u in I.unmodelled if not str(u["tag"]).startswith(("prim:builtins.print", "index-StrV"))]
        if depths is None or I.lossy or um:
            why = um[0]["tag"] if um else (I.lossy[0]["why"] if I.lossy else f"critical_pairs = {cp!r}"[:80])
            if has_dup:
                n_dup += 1
                dup_bad = dup_bad or (bars_r, f"cannot be followed ({why})")
                dup_unfollowed.append(tuple(ranks))
                continue
            rep.unmodelled("LX-SWEEP", fi, fi.node, f"bars {bars_r}: the sweep could not be followed ({str(why)[:100]})")
            return "unmodelled"
        m = max(ranks) + 1
        bad = None
        for trial in range(3):
            xs = sorted(rng.uniform(-3, 3) for _ in range(m))
            xs = [x + 0.4 * j for j, x in enumerate(xs)]
            vals = {f"v{r}": xs[r] for r in range(m)}
            pt = symeval.Point(rng)
            pt.syms.update(vals)
            try:
                got = [[(symeval.ev(x, pt), symeval.ev(y, pt)) for x, y in d] for d in depths]
            except symeval.NotEvaluable as ex:
                rep.unmodelled("LX-SWEEP", fi, fi.node, f"bars {bars_r}: cannot evaluate the critical pairs ({ex})")
                return "unmodelled"
            # a depth that repeats the previous one value for value is the signature of the repeated-bar shortcut (K1),
            # however the copy is written
            if any(a_ == b_ for a_, b_ in zip(got, got[1:])):
                has_dup = True
            bars = [(xs[rb], xs[rd]) for rb, rd in bars_r]
            cand = sorted(set(xs) | {(a + b) / 2 for a in xs for b in xs})
            ts = sorted(set(cand) | {(a + b) / 2 for a, b in zip(cand, cand[1:])})
            for depth in range(k + 1):
                for t in ts:
                    tents = sorted((max(0.0, min(t - b, d - t)) for b, d in bars), reverse=True)
                    want = tents[depth] if depth < len(tents) else 0.0
                    have = _pl(got[depth], t) if depth < len(got) else 0.0
                    if abs(want - have) > 1e-9:
                        bad = (bars, depth, t, want, have)
                        break
                if bad:
                    break
            if not bad and len(got) > k:
                bad = (bars, len(got) - 1, None, None, None)
            if bad:
                break
        if bad:
            if has_dup:
                n_dup += 1
                dup_bad = dup_bad or (bars_r, f"depth {bad[1] + 1} is wrong")
                dup_fail.append(tuple(ranks))
                dup_why[tuple(ranks)] = f"depth {bad[1] + 1} is not the {bad[1] + 1}-th largest tent"
                continue
            bars, depth, t, want, have = bad
            rep.refuted("LX-SWEEP", fi, fi.node,
                        (f"diagram {[(round(b, 3), round(d, 3)) for b, d in bars]}: λ{depth + 1}({t:.4g}) is {have:.4g} instead of "
                         f"{want:.4g} (the {depth + 1}-th largest tent)" if t is not None else
                         f"diagram {[(round(b, 3), round(d, 3)) for b, d in bars]}: more depths are returned than there are bars"),
                        construct=f"{fi.qualname}: sweep", failing_input=str([(round(b, 3), round(d, 3)) for b, d in bars]))
            return "refuted"
        n_ok += 1
    LAST_DUP["fail"], LAST_DUP["unfollowed"] = dup_fail, dup_unfollowed
    # the known finding K1c is the list of classes that fail on the pinned tree (findings/k1c_classes.json): a class with a
    # repeated bar that fails and is not on it is a different violation (e.g. three copies of one bar, which the pinned code
    # handles) and is reported as such
    import json as _json
    import os as _os
    try:
        with open(_os.path.join(_os.path.dirname(_os.path.dirname(_os.path.abspath(__file__))), "findings", "k1c_classes.json")) as fh:
            known_cls = {tuple(x) for x in _json.load(fh)["classes"]}
    except (OSError, ValueError, KeyError):
        known_cls = set()
    fresh_fail = [c for c in dup_fail if c not in known_cls]
    if fresh_fail:
        c0 = fresh_fail[0]
        k0 = len(c0) // 2
        rep.refuted("LX-SWEEP", fi, fi.node,
                    f"a diagram with a repeated bar whose end-points are ordered as {[(c0[2 * i], c0[2 * i + 1]) for i in range(k0)]}: "
                    f"{dup_why.get(c0, 'some depth is not the k-th largest tent')}, and this class is not among those of the known repeated-bar finding "
                    f"(the pinned code handles it): {len(fresh_fail)} such class(es)",
                    construct=f"{fi.qualname}: sweep of a diagram with a repeated bar, class outside the known finding",
                    failing_input=f"end-point ranks {[(c0[2 * i], c0[2 * i + 1]) for i in range(k0)]}")
        if not [c for c in dup_fail if c in known_cls] and not dup_unfollowed:
            dup_bad = None
    if dup_bad is not None:
        rep.refuted("LX-SWEEP", fi, fi.node,
                    f"ordering classes in which the repeated-bar shortcut runs (a bar occurring twice, or a residual bar coinciding "
                    f"with an input bar): {dup_bad[1]} (e.g. end-point ranks {dup_bad[0]}) — the shortcut copies the previous depth / "
                    f"pops while iterating",
                    construct=f"{fi.qualname}: sweep of a diagram with a repeated bar",
                    failing_input="a diagram with a repeated bar, e.g. [[1,5],[1,5],[3,6]]")
    rep.discharged("LX-SWEEP", fi, fi.node,
                   f"for all {n_ok} ordering classes of the end-points of up to {max_bars} bars"
                   + (f" and {sample3} sampled classes of 4 bars" if sample3 else "") +
                   " in which the repeated-bar shortcut does not run, the critical pairs are the k-th largest tent at every depth")
    return "ok"
