"""C11 — persistence images are additive, order-free and call-style independent (images.py).

Decided: AD-FOLD (image = zero accumulator + Σ over points of a term that depends on that point only ⇒ additive
over unions, independent of point order, zeros for an empty diagram), AD-ZERO (the term is weight × mass, so zero
weight contributes nothing), AD-EMPTY (an empty collection yields zeros of the configured resolution), AD-PAR (the
serial and the parallel call sites bind identical arguments to the same callee, iterating in order), AD-WRAP
(wrap / unwrap of a single diagram are paired on one flag), AD-SKEW (every birth-death → birth-persistence
conversion in the package is (b, d−b) on a private copy).
Declined: non-negativity and 'pixel total ≤ total weight' (CDF monotonicity — numeric); bit-identical
serial/parallel floats (same callee ⇒ same arithmetic; joblib trusted to preserve order).
"""
from __future__ import annotations

import ast

from ..core import facets, sym, symeval
from ..core.absint import Config, Interp
from ..core.loader import AnalysisError, Project
from ..core.values import Arr, ObjV, Sc, Seq
from .common import local_names, own_analysis
from .distances import dgm_input, unmodelled_in
from .images_common import TR, run_transform

CLS = "persim.images.PersistenceImager"


def check_fold(project: Project, rep, weight, kernel, sigma, skew):
    fi, I, r = run_transform(project, weight, kernel, skew, sigma)
    rep.analysed(fi)
    tag = f"weight={weight}, kernel={kernel}, skew={skew}"
    if not isinstance(r, Arr) or unmodelled_in(r.elem):
        rep.unmodelled("AD-FOLD", fi, fi.node, f"{tag}: image not modelled")
        return
    e = r.elem
    # top-level shape: Σ over the points of the diagram (possibly inside an ITE on configuration)
    sums = [x for x in sym.walk(e) if x[0] == "sum" and x[2] == ("rows", "X")]
    loops = [ev for ev in I.log if ev["kind"] == "loop"]  # in _transform or in a helper it delegates to
    accs = [(ev, n, c) for ev in loops for n, c in ev["carried"].items() if c.get("kind") == "fold"]
    nested = any(len(ev.get("loops") or ()) > 0 for ev, _, _ in accs) or len({id(ev) for ev, _, _ in accs}) > 1
    if not accs or nested:
        # no single accumulation loop over the points (none at all, or loops inside loops: blocks of points, helpers):
        # no accumulation loop: decide on the value itself — a linear combination of Σ over the points whose bodies read
        # the point being summed only is additive all the same (vectorised form)
        terms, const = sym.lin_parts(e)
        pt_sums = [t for t in terms if t[0] == "sum" and t[2] == ("rows", "X")]
        reads_x = any(x[0] == "in" and x[1] == "X" for x in sym.walk(e)) or any(x[0] == "size" and x[1] == ("rows", "X") for x in sym.walk(e))
        if I.lossy or I.unmodelled:
            rep.unmodelled("AD-FOLD", fi, fi.node, f"{tag}: no accumulation over the points was recognised and the run is not exact")
        elif pt_sums and len(pt_sums) == len(terms) and const == 0 and all(
                not any(a[0] == "in" and a[1] == "X" and not (isinstance(a[2][0], tuple) and a[2][0] == (t[1], 0)) for a in sym.walk(t[3]))
                and not any(x[0] in ("sum", "red") and x is not t and ("rows", "X") in (x[2], x[3] if len(x) > 3 else None)
                            for x in sym.walk(t[3])) for t in pt_sums):
            rep.discharged("AD-FOLD", fi, fi.node, f"{tag}: image = Σ_i g(point i, configuration) (no loop: the sum is taken by an "
                                                   f"array reduction): additive over disjoint unions, all-zero for zero points")
        elif not reads_x:
            rep.refuted("AD-FOLD", fi, fi.node, f"{tag}: the image does not depend on the points of the diagram at all",
                        construct=f"{TR}: accumulation [{tag}]")
        else:
            rep.unmodelled("AD-FOLD", fi, fi.node, f"{tag}: the image is not accumulated by a loop over the points and its value "
                                                   f"{sym.show(e)[:80]} is not a plain sum over them; additivity not decided")
        return
    for ev, n, c in accs:
        init = c["init"]
        ie = init.elem if isinstance(init, Arr) else getattr(init, "e", None)
        if ie != sym.ZERO:
            rep.refuted("AD-FOLD", fi, ev["node"], f"{tag}: the accumulator `{n}` starts from {sym.show(ie) if ie is not None else init!r}, "
                                                   f"not zeros: an empty diagram does not give an all-zero image")
            continue
        if not sym.equal(ev["space"].size, sym.Size(("rows", "X"))):
            rep.refuted("AD-FOLD", fi, ev["node"], f"{tag}: the accumulation runs over {sym.show(ev['space'].size)} terms, not "
                                                   f"one per point of the diagram")
            continue
        upd = c["update"]
        ue = upd.elem if isinstance(upd, Arr) else upd.e
        ph = c["placeholder"]
        # the placeholder of the array accumulator was renamed along with the axes; recover the term structurally
        terms, const = sym.lin_parts(ue)
        carry_terms = [t for t in terms if t[0] == "opq" and t[1] == "carry"]
        rest = sym.sub(ue, carry_terms[0]) if carry_terms else ue
        iv = ev["ivar"]
        rest = _drop_vacuous_guards(rest, iv)
        glob = [x for x in sym.walk(rest) if x[0] in ("sum", "red") and ("rows", "X") in (x[2], x[3] if len(x) > 3 else None)]
        if glob and all(x[0] == "red" and x[1] in ("any", "all") for x in glob):
            rep.unmodelled("AD-FOLD", fi, ev["node"],
                           f"{tag}: the contribution of a point is guarded by a test over the whole diagram "
                           f"({sym.show(glob[0])[:80]}) that could not be shown vacuous")
            continue
        if glob:
            rep.refuted("AD-FOLD", fi, ev["node"],
                        f"{tag}: the contribution of a point depends on the whole diagram ({sym.show(glob[0])[:100]}): the image "
                        f"of a union is not the sum of the images")
            continue
        bad = [a for a in sym.walk(rest) if a[0] == "in" and a[1] == "X" and not (isinstance(a[2][0], tuple) and a[2][0] == (iv, 0))]
        if bad:
            rep.refuted("AD-FOLD", fi, ev["node"],
                        f"{tag}: the contribution of point i reads another row ({sym.show(bad[0])}): the image depends on the order "
                        f"of the points")
            continue
        rep.discharged("AD-FOLD", fi, ev["node"],
                       f"{tag}: image = zeros + Σ_i g(point i, configuration): additive over disjoint unions, independent of "
                       f"point order, all-zero for zero points", derived=sym.show(rest)[:200])
        if weight == "opaque":
            ws = [x for x in sym.walk(rest) if x[0] == "opq" and x[1] == "W"]
            if ws and sym.subst(rest, {ws[0]: sym.ZERO}) == sym.ZERO:
                rep.discharged("AD-ZERO", fi, ev["node"], f"{tag}: the contribution of a point is weight × kernel mass: a point of "
                                                          f"zero weight contributes nothing")
            else:
                rep.refuted("AD-ZERO", fi, ev["node"], f"{tag}: the contribution of a point does not vanish with its weight: "
                                                       f"{sym.show(rest)[:160]}")


def _drop_vacuous_guards(e, iv):
    """ite(any_j c(j), A, B) = A whenever A with c(i) := False is B (i the point being accumulated): when no point satisfies
    c the guarded branch would have done nothing for point i either — the usual `if mask.any(): out[mask] = ...` guard of
    vectorised code.  Applied bottom-up until nothing changes."""
    def once(x):
        if x[0] == "ite" and x[1][0] == "red" and x[1][1] == "any" and x[1][3] == ("rows", "X"):
            j, body = x[1][2], x[1][4]
            ci = sym.subst_ivar(body, j, (iv, 0))
            a0 = sym.subst(x[2], {ci: sym.FALSE})
            if a0 == x[3]:
                return x[2]
        return x
    for _ in range(6):
        e2 = sym.rebuild(e, once)
        if e2 == e:
            break
        e = e2
    return e


def check_empty_diagram(project: Project, rep):
    """AD-EMPTY (one diagram): the per-diagram routine evaluated on a diagram with no points must give zeros of shape
    (birth pixels, persistence pixels) — the shape every other image of the collection has, so that images can be added"""
    from ..core.values import DictV, FuncV
    from .images_common import grid
    fi = project.function(TR)
    for skew in (True, False):
        I = Interp(project, Config(nonempty={("rows", "Bg"), ("rows", "Pg")}, finite_inputs={"X", "bg", "pg"},
                                   flags={"empty": {("rows", "X")}}))
        res = Seq([Sc(sym.add(sym.Size(("rows", "Bg")), sym.Num(-1))), Sc(sym.add(sym.Size(("rows", "Pg")), sym.Num(-1)))], "tuple")
        try:
            r = I.run(TR, {"pers_dgm": dgm_input("X"), "skew": Sc(sym.Bool(skew)), "resolution": res, "weight": FuncV("opaque", "W"),
                           "weight_params": DictV({}), "kernel": FuncV("opaque", "K"), "kernel_params": DictV({}),
                           "_bpnts": grid("bg", "Bg"), "_ppnts": grid("pg", "Pg")})
        except AnalysisError as ex:
            rep.unmodelled("AD-EMPTY", fi, fi.node, f"empty diagram, skew={skew}: {ex}"[:160])
            continue
        if I.unmodelled or I.lossy or not isinstance(r, Arr) or r.ndim != 2:
            rep.unmodelled("AD-EMPTY", fi, fi.node, f"empty diagram, skew={skew}: image not modelled ({r!r})"[:200])
            continue
        (s0, _), (s1, _) = r.axes
        w0 = sym.add(sym.Size(("rows", "Bg")), sym.Num(-1))
        w1 = sym.add(sym.Size(("rows", "Pg")), sym.Num(-1))
        # the sum over the points of an empty diagram is empty; what is left must be zero
        def _root(k_):
            while isinstance(k_, tuple) and len(k_) >= 3 and k_[0] in ("sub", "slice"):
                k_ = k_[1]
            return k_
        e0 = sym.subst(r.elem, {x: sym.ZERO for x in sym.walk(r.elem) if x[0] == "sum" and _root(x[2]) == ("rows", "X")})
        if not (sym.equal(s0.size, w0) and sym.equal(s1.size, w1)):
            rep.refuted("AD-EMPTY", fi, fi.node,
                        f"a diagram with no points (skew={skew}) is imaged as an array of shape ({sym.show(s0.size)}, "
                        f"{sym.show(s1.size)}) instead of (birth pixels, persistence pixels): it cannot be added to, or listed "
                        f"with, the images of the other diagrams", construct=f"{TR}: image of an empty diagram")
        elif e0 != sym.ZERO:
            rep.refuted("AD-EMPTY", fi, fi.node, f"a diagram with no points (skew={skew}) is not imaged as zeros: {sym.show(e0)[:100]}",
                        construct=f"{TR}: image of an empty diagram")
        else:
            rep.discharged("AD-EMPTY", fi, fi.node, f"a diagram with no points (skew={skew}) gives zeros of shape (birth pixels, "
                                                    f"persistence pixels)")


def _imager(project):
    I = Interp(project, Config())
    S = lambda n: Sc(sym.Sym(n))
    obj = I.construct(CLS, [], {"birth_range": Seq([S("b0"), S("b1")], "tuple"), "pers_range": Seq([S("q0"), S("q1")], "tuple"),
                                "pixel_size": S("p")}, None)
    return I, obj


def check_empty(project: Project, rep):
    cls = project.cls(CLS)
    tr = cls.methods["transform"]
    rep.analysed(tr)
    I, obj = _imager(project)
    r = I.call_function(tr, [obj, Seq([], "list")], {}, None)
    res = obj.attrs.get("_resolution")
    ok = False
    if isinstance(r, Arr) and r.elem == sym.ZERO and isinstance(res, Seq) and r.ndim == 2:
        ok = all(sym.equal(sp.size, x.e) for (sp, _), x in zip(r.axes, res.items))
    if ok:
        rep.discharged("AD-EMPTY", tr, tr.node, "an empty collection yields an all-zero array whose shape is the configured "
                                                "resolution")
    elif not isinstance(r, Arr) or I.lossy or not isinstance(res, Seq):
        rep.unmodelled("AD-EMPTY", tr, tr.node, f"result for an empty collection not modelled: {r!r}"[:200])
    else:
        rep.refuted("AD-EMPTY", tr, tr.node, f"an empty diagram does not yield zeros(resolution): {r!r}"[:200],
                    construct=f"{tr.qualname}: empty input")


def _same(a, b):
    """True / False when the two argument values can be compared, None when they cannot (an alternative of several values, an
    unmodelled value): a difference between values that cannot be compared is no finding"""
    from ..core.values import Alt, Unknown
    if a is b:
        return True
    if isinstance(a, (Alt, Unknown)) or isinstance(b, (Alt, Unknown)):
        return None
    if type(a) is not type(b):
        return False
    if isinstance(a, Sc):
        return a.e == b.e
    if isinstance(a, Seq):
        if len(a.items) != len(b.items):
            return False
        rs = [_same(x, y) for x, y in zip(a.items, b.items)]
        return False if any(r is False for r in rs) else (None if any(r is None for r in rs) else True)
    if isinstance(a, Arr):
        if a.ndim != b.ndim or not all(x[0].same_size(y[0]) for x, y in zip(a.axes, b.axes)):
            return False
        eb = b.elem
        for (sa, ia), (sb, ib) in zip(a.axes, b.axes):
            if ia != ib:
                eb = sym.subst_ivar(eb, ib, (ia, 0))
        return a.elem == eb
    return repr(a) == repr(b)


def check_par_wrap(project: Project, rep):
    """AD-WRAP / AD-PAR, decided by executing `transform` symbolically on one imager while observing (not executing) the
    calls of the per-diagram routine `_transform`: which diagram and which parameters reach it, in which order, and what
    `transform` hands back — for a lone diagram, a one-element collection and a two-element collection, serially and with
    n_jobs=2 (joblib's Parallel/delayed are modelled as an order-preserving map; trusted)."""
    from ..core.values import NoneV
    cls = project.cls(CLS)
    tr = cls.methods["transform"]
    callee = project.function(TR)
    I, obj = _imager(project)
    I.cfg.nonempty |= {("rows", "X"), ("rows", "Y")}
    I.cfg.finite_inputs |= {"X", "Y"}
    calls = []

    def stub(I_, bound, n):
        calls.append(dict(bound))
        return Sc(sym.Opq("image", (), f"image#{len(calls)}"))
    I.cfg.flags["stub_func"] = {TR: stub}
    X, Y = dgm_input("X"), dgm_input("Y")

    inexact = []

    def run(arg, n_jobs):
        del calls[:]
        n_um, n_lo = len(I.unmodelled), len(I.lossy)
        try:
            r = I.call_function(tr, [obj, arg], {"n_jobs": n_jobs, "skew": Sc(sym.Sym("skew"))}, None)
        except Exception as ex:
            return None, [], f"{type(ex).__name__}: {ex}"
        if len(I.unmodelled) > n_um or len(I.lossy) > n_lo:
            why = I.lossy[n_lo]["why"] if len(I.lossy) > n_lo else "unmodelled value: " + I.unmodelled[n_um]["tag"]
            inexact.append(why)
        return r, [dict(c) for c in calls], None

    def which(c):
        d = c.get(callee.params[0])
        return sorted({x[1] for x in sym.walk(d.elem) if x[0] == "in"}) if isinstance(d, Arr) else None

    def uid(v):
        return v.e[3] if isinstance(v, Sc) and v.e[0] == "opq" and v.e[1] == "image" else None
    serial, par = NoneV(), Sc(sym.Num(2))
    r1, c1, e1 = run(X, serial)
    r2, c2, e2 = run(Seq([X], "list"), serial)
    r3, c3, e3 = run(Seq([X, Y], "list"), serial)
    r4, c4, e4 = run(Seq([X, Y], "list"), par)
    r5, c5, e5 = run(X, par)
    r6, c6, e6 = run(Seq([X], "list"), par)
    err = e1 or e2 or e3 or e4 or e5 or e6
    if not err and inexact:
        err = "transform could not be followed exactly (" + inexact[0] + "): which diagram reaches the per-diagram routine is not decided"
    if err:
        rep.unmodelled("AD-WRAP", tr, tr.node, f"symbolic execution of transform failed: {err}"[:200])
        rep.unmodelled("AD-PAR", tr, tr.node, "symbolic execution of transform failed")
        return
    # ---- AD-WRAP
    if len(c1) == 1 and which(c1[0]) == ["X"] and uid(r1) is not None:
        rep.discharged("AD-WRAP", tr, tr.node, "a lone diagram is imaged by one call of the per-diagram routine on that diagram, "
                                               "and its image is returned unwrapped")
    elif len(c1) == 1 and which(c1[0]) == ["X"] and isinstance(r1, Seq):
        rep.refuted("AD-WRAP", tr, tr.node, "the single-diagram result is not unwrapped: a lone diagram yields a one-element "
                                            "list instead of its image", construct=f"{tr.qualname}: unwrap")
    elif c1 and which(c1[0]) != ["X"]:
        rep.refuted("AD-WRAP", tr, tr.node, f"a lone diagram is not passed whole to the per-diagram routine (it receives "
                                            f"{c1[0].get(callee.params[0])!r})"[:200], construct=f"{tr.qualname}: wrap")
    else:
        rep.unmodelled("AD-WRAP", tr, tr.node, f"lone diagram: {len(c1)} per-diagram calls, result {r1!r}"[:200])
    if len(c2) == 1 and which(c2[0]) == ["X"] and isinstance(r2, Seq) and len(r2.items) == 1 and uid(r2.items[0]) is not None:
        cmp_ = [_same(c1[0].get(p_), c2[0].get(p_)) for p_ in callee.params[1:]] if len(c1) == 1 else [None]
        same_args = False if any(r is False for r in cmp_) else (None if any(r is None for r in cmp_) else True)
        if same_args:
            rep.discharged("AD-WRAP", tr, tr.node, "a one-element collection yields a one-element list holding the image "
                                                   "computed with the same parameters as for the lone diagram")
        elif same_args is False:
            rep.refuted("AD-WRAP", tr, tr.node, "a diagram passed alone and inside a collection is imaged with different "
                                                "parameters", construct=f"{tr.qualname}: call-style parameters")
        else:
            rep.unmodelled("AD-WRAP", tr, tr.node, "the parameters of the per-diagram routine for a lone diagram and for a one-element "
                                                   "collection could not be compared")
    elif len(c2) == 1 and uid(r2) is not None:
        rep.refuted("AD-WRAP", tr, tr.node, "a one-element collection is unwrapped like a lone diagram: a lone diagram and a "
                                            "one-element collection give differently shaped results than documented",
                    construct=f"{tr.qualname}: unwrap")
    else:
        rep.unmodelled("AD-WRAP", tr, tr.node, f"one-element collection: {len(c2)} calls, result {r2!r}"[:200])
    # a one-element collection with n_jobs set: the same one-element list as without
    if len(c6) == 1 and which(c6[0]) == ["X"] and isinstance(r6, Seq) and len(r6.items) == 1 and uid(r6.items[0]) is not None:
        rep.discharged("AD-WRAP", tr, tr.node, "a one-element collection with n_jobs set yields a one-element list as well",
                       nontrivial=False)
    elif len(c6) == 1 and uid(r6) is not None and isinstance(r2, Seq):
        rep.refuted("AD-WRAP", tr, tr.node, "with n_jobs set a one-element collection is unwrapped like a lone diagram, without n_jobs "
                                            "it yields a one-element list: the shape of the result depends on n_jobs",
                    construct=f"{tr.qualname}: unwrap under n_jobs")
    else:
        rep.unmodelled("AD-WRAP", tr, tr.node, f"one-element collection with n_jobs: {len(c6)} calls, result {r6!r}"[:200])
    # ---- AD-PAR
    if len(c3) == 2 and len(c4) == 2 and [which(c) for c in c3] == [["X"], ["Y"]]:
        diff = None
        for k in range(2):
            for p_ in callee.params:
                if not _same(c3[k].get(p_), c4[k].get(p_)):
                    diff = (k, p_, c3[k].get(p_), c4[k].get(p_))
                    break
            if diff:
                break
        if diff is None:
            rep.discharged("AD-PAR", tr, tr.node, f"serial and parallel execution call the same routine on the same diagrams with "
                                                  f"identical values for all {len(callee.params)} parameters")
        else:
            k, p_, a_, b_ = diff
            rep.refuted("AD-PAR", tr, tr.node, f"with n_jobs set, diagram {k} is imaged with {p_}={b_!r} where the serial path "
                                               f"passes {p_}={a_!r}: n_jobs changes the image"[:300])
        ids3 = [uid(x) for x in r3.items] if isinstance(r3, Seq) else None
        ids4 = [uid(x) for x in r4.items] if isinstance(r4, Seq) else None
        if ids3 and ids4 and None not in ids3 + ids4 and ids3 == sorted(ids3) and ids4 == sorted(ids4) and len(ids3) == len(ids4) == 2:
            rep.discharged("AD-PAR", tr, tr.node, "both paths return the images in the order of the input collection")
        elif ids3 and ids4 and None not in ids3 + ids4:
            rep.refuted("AD-PAR", tr, tr.node, f"the images are not returned in input order (serial {ids3}, parallel {ids4})")
        else:
            rep.unmodelled("AD-PAR", tr, tr.node, f"collection results not modelled: {r3!r} / {r4!r}"[:200])
    elif len(c3) == 2 and [which(c) for c in c3] != [["X"], ["Y"]]:
        rep.refuted("AD-PAR", tr, tr.node, f"the serial path images diagrams {[which(c) for c in c3]} for the collection [X, Y]")
    else:
        rep.unmodelled("AD-PAR", tr, tr.node, f"expected two per-diagram calls on each path; serial {len(c3)}, parallel {len(c4)}")
    if len(c5) == 1 and len(c1) == 1:
        if all(_same(c1[0].get(p_), c5[0].get(p_)) for p_ in callee.params) and uid(r5) is not None:
            rep.discharged("AD-PAR", tr, tr.node, "a lone diagram with n_jobs set goes through the same call and is unwrapped "
                                                  "the same way", nontrivial=False)
        else:
            rep.refuted("AD-PAR", tr, tr.node, "a lone diagram is treated differently when n_jobs is set")


def check_alignment(project: Project, rep):
    """AD-ALIGN: the weights are computed from the rows of the diagram, one per row, and later paired with the rows by
    position (a common loop index, or `zip`). If one of the two parallel arrays goes through a row selection (`X[keep]`)
    that the other does not go through, position i of one no longer belongs to position i of the other: points get other
    points' weights (the image stops being additive / order-free as soon as a point is filtered out).
    A small dataflow over the helper-inlined view: every name is traced back to `rows` or `weights` plus the list of row
    selections applied on the way."""
    from .common import expand_locals, fn_view, stmts_in_order
    fi = project.function(TR)
    f = fn_view(project, fi)
    order = stmts_in_order(f)
    # the statement computing the weights: a call of the `weight` parameter with two column reads of one array
    wparam = fi.params[3] if len(fi.params) > 3 else "weight"
    src = {}  # name -> (root, [selection texts])
    widx = None
    for k, st in enumerate(order):
        if not (isinstance(st, ast.Assign) and len(st.targets) == 1 and isinstance(st.targets[0], ast.Name)):
            continue
        calls = [c for c in ast.walk(st.value) if isinstance(c, ast.Call) and isinstance(c.func, ast.Name) and c.func.id == wparam]
        if not calls:
            continue
        cols = [a_ for a_ in calls[0].args if isinstance(a_, ast.Subscript) and isinstance(a_.value, ast.Name)]
        if len(cols) >= 2 and len({a_.value.id for a_ in cols}) == 1:
            src[cols[0].value.id] = ("rows", [])
            src[st.targets[0].id] = ("weights", [])
            widx = k
            wstmt = st
            break
    if widx is None:
        rep.unmodelled("AD-ALIGN", fi, fi.node, "the statement computing one weight per diagram row was not found")
        return

    def row_selection(sl):
        first = sl.elts[0] if isinstance(sl, ast.Tuple) else sl
        if isinstance(first, ast.Slice) and first.lower is None and first.upper is None and first.step is None:
            return None  # all rows
        if isinstance(first, ast.Constant) or (isinstance(sl, ast.Tuple) and isinstance(first, ast.Name) and False):
            return None
        return ast.unparse(expand_locals(f, first))

    def trace(e):
        """(root, selections) of an expression, or None"""
        if isinstance(e, ast.Name):
            return src.get(e.id)
        if isinstance(e, ast.Subscript):
            base = trace(e.value)
            if base is None:
                return None
            sel = row_selection(e.slice)
            first = e.slice.elts[0] if isinstance(e.slice, ast.Tuple) else e.slice
            if isinstance(first, (ast.Name, ast.Constant)) and not isinstance(first, ast.Slice) and sel is not None \
                    and not any(isinstance(x, (ast.Compare, ast.Call)) for x in ast.walk(expand_locals(f, first))):
                return None  # a single row / element read, not a selection of rows
            return (base[0], base[1] + ([sel] if sel is not None else []))
        if isinstance(e, ast.Call) and e.args and ast.unparse(e.func) in ("np.asarray", "np.array", "np.copy", "np.ascontiguousarray", "list"):
            return trace(e.args[0])
        return None

    for st in order[widx + 1:]:
        if not isinstance(st, ast.Assign) or len(st.targets) != 1:
            continue
        t, v = st.targets[0], st.value
        pairs = []
        if isinstance(t, ast.Name):
            pairs = [(t, v)]
        elif isinstance(t, (ast.Tuple, ast.List)):
            ve = v if isinstance(v, (ast.Tuple, ast.List)) else expand_locals(f, v)
            if isinstance(ve, (ast.Tuple, ast.List)) and len(ve.elts) == len(t.elts):
                pairs = [(a_, b_) for a_, b_ in zip(t.elts, ve.elts) if isinstance(a_, ast.Name)]
        new_src = {}
        for a_, b_ in pairs:
            tr = trace(b_)
            if tr is not None:
                new_src[a_.id] = (tr[0], list(tr[1]), st)
        for k_, v_ in new_src.items():
            src[k_] = (v_[0], v_[1])
            src.setdefault("$node:" + k_, v_[2])
    # pairings by position: a common loop index, or zip(rows-derived, weights-derived)
    verdicts = []
    for lp in [n for n in ast.walk(f) if isinstance(n, ast.For)]:
        pair = None
        if isinstance(lp.iter, ast.Call) and ast.unparse(lp.iter.func) == "zip" and len(lp.iter.args) == 2:
            a_, b_ = trace(lp.iter.args[0]), trace(lp.iter.args[1])
            if a_ and b_ and {a_[0], b_[0]} == {"rows", "weights"}:
                pair = (a_, b_)
        elif isinstance(lp.target, ast.Name):
            iv = lp.target.id
            seen = {}
            for n in ast.walk(lp):
                if isinstance(n, ast.Subscript):
                    first = n.slice.elts[0] if isinstance(n.slice, ast.Tuple) else n.slice
                    if isinstance(first, ast.Name) and first.id == iv:
                        tr = trace(n.value)
                        if tr:
                            seen[tr[0]] = tr
            if set(seen) == {"rows", "weights"}:
                pair = (seen["rows"], seen["weights"])
        if pair is not None:
            verdicts.append((lp, pair[0][1] == pair[1][1], pair))
    if not verdicts:
        rep.unmodelled("AD-ALIGN", fi, wstmt, "how rows and weights are paired was not recognised")
        return
    for lp, ok, (a_, b_) in verdicts:
        if ok:
            rep.discharged("AD-ALIGN", fi, lp, "rows and weights are paired by position and went through the same row "
                                               f"selections ({a_[1] or 'none'})")
        else:
            ra, wa = (a_, b_) if a_[0] == "rows" else (b_, a_)
            rep.refuted("AD-ALIGN", fi, lp,
                        f"after the weights were computed the rows went through the row selection(s) {ra[1] or '—'} but the "
                        f"weights through {wa[1] or '—'}; they are then paired by position: once a row is filtered out, every "
                        f"later point is accumulated with another point's weight (the image depends on point order and is no "
                        f"longer the sum of the images of its parts)", construct=f"{TR}: weights and rows filtered differently")


def check_skew_sites(project: Project, rep):
    # PersImage.to_landscape
    fi = project.function("persim.images.PersImage.to_landscape")
    rep.analysed(fi)
    I = Interp(project, Config(nonempty={("rows", "X")}, finite_inputs={"X"}))
    r = I.run(fi.qualname, {fi.params[0]: dgm_input("X")})
    _skew_ok(rep, fi, r, "PersImage.to_landscape")
    # PersistenceImager.plot_diagram(skew=True): scatter coordinates
    cls = project.cls(CLS)
    pd = cls.methods.get("plot_diagram")
    if pd is not None:
        rep.analysed(pd)
        I, obj = _imager(project)
        I.cfg.nonempty.add(("rows", "X"))
        I.cfg.finite_inputs.add("X")
        I.call_function(pd, [obj, dgm_input("X")], {"skew": Sc(sym.TRUE), "ax": ObjV(None, {}, tag="axes")}, None)
        sc = [ev for ev in I.log if ev["kind"] == "draw" and ev["method"] == "scatter" and ev["fi"] is pd]
        if sc and all(isinstance(p_, Arr) and p_.ndim == 1 for p_ in sc[0]["pos"][:2]):
            x, y = sc[0]["pos"][0], sc[0]["pos"][1]
            iv = x.axes[0][1]
            ye = sym.subst_ivar(y.elem, y.axes[0][1], (iv, 0))
            b, d = sym.In("X", ((iv, 0), 0)), sym.In("X", ((iv, 0), 1))
            if x.elem == b and symeval.equivalent(ye, sym.sub(d, b))[0] is True:
                rep.discharged("AD-SKEW", pd, sc[0]["node"], "plot_diagram(skew=True) plots (b, d−b)")
            else:
                rep.refuted("AD-SKEW", pd, sc[0]["node"], f"plot_diagram(skew=True) plots ({sym.show(x.elem)}, {sym.show(ye)}) "
                                                          f"instead of (b, d−b)")
        else:
            rep.unmodelled("AD-SKEW", pd, pd.node, "scatter of plot_diagram not modelled")
    # conversions act on private copies: no write event reaches a parameter (ownership analysis)
    oa = own_analysis(project)
    for q in (TR, f"{CLS}.fit", f"{CLS}.plot_diagram", "persim.images.PersImage.to_landscape", "persim.visuals.plot_diagrams"):
        s = oa.summary(q)
        w = [ev for ev in s.events if ev.kind == "write" and ev.origin.is_arg and ev.origin.param != "self"]
        f2 = project.function(q)
        if w:
            rep.refuted("AD-SKEW", f2, w[0].node, f"{q} converts to birth–persistence coordinates in place on the caller's "
                                                  f"array: transforming the same diagram twice gives different images")
        else:
            rep.discharged("AD-SKEW", f2, f2.node, f"{q}: the conversion acts on a private copy", nontrivial=True)
    rep.note("the (b, d−b) form of the conversion in _transform is part of C04 PI-PIXEL, in fit of C12 GE-FIT, in plot_diagrams "
             "of C20 PL-DGM")


def check_skew_equivalence(project: Project, rep):
    """AD-SKEWEQ: the image of a birth–death diagram with skew=True is the image of its birth–persistence form with
    skew=False — decided on the two symbolically evaluated images with uninterpreted weight and kernel: the second, with every
    d replaced by d − b, must be the first."""
    for sigma in ("scalar",):
        try:
            fi, I1, r1 = run_transform(project, "opaque", "opaque", True, sigma)
            _, I2, r2 = run_transform(project, "opaque", "opaque", False, sigma)
        except AnalysisError as ex:
            rep.unmodelled("AD-SKEWEQ", None, None, f"_transform could not be evaluated: {ex}"[:160])
            return
        if not (isinstance(r1, Arr) and isinstance(r2, Arr) and r1.ndim == r2.ndim) or unmodelled_in(r1.elem) or unmodelled_in(r2.elem):
            rep.unmodelled("AD-SKEWEQ", fi, fi.node, "image not modelled for the general weight / kernel")
            return
        e2 = r2.elem
        for (s1, i1), (s2, i2) in zip(r1.axes, r2.axes):
            if i1 != i2:
                e2 = sym.subst_ivar(e2, i2, (i1, 0))
        mapping = {}
        for x in sym.walk(e2):
            if x[0] == "in" and x[1] == "X" and len(x[2]) == 2 and x[2][1] == 1:
                mapping[x] = sym.sub(x, sym.In("X", (x[2][0], 0)))
        e2s = sym.subst(e2, mapping)
        ok, w = symeval.equivalent(r1.elem, e2s, trials=20, positive_syms={"sigma"})
        if ok is True:
            rep.discharged("AD-SKEWEQ", fi, fi.node, "image(D, skew=True) is image(D with d replaced by d − b, skew=False), for an "
                                                     "arbitrary weight and kernel")
        elif ok is False:
            rep.refuted("AD-SKEWEQ", fi, fi.node,
                        f"with skew=True the image of a birth–death diagram differs from the image of its birth–persistence form with "
                        f"skew=False (general weight / kernel path): part of the computation still reads the un-converted "
                        f"coordinates; witness {str(w)[:200]}", construct=f"{TR}: skew=True vs pre-converted input")
        else:
            rep.unmodelled("AD-SKEWEQ", fi, fi.node, f"cannot compare the two images ({w})")


def _skew_ok(rep, fi, r, what):
    if isinstance(r, Arr) and r.ndim == 2 and r.axes[1][0].concrete == 2:
        (sp, iv), (cs, civ) = r.axes
        c0 = sym.subst_ivar(r.elem, civ, 0)
        c1 = sym.subst_ivar(r.elem, civ, 1)
        b, d = sym.In("X", ((iv, 0), 0)), sym.In("X", ((iv, 0), 1))
        if c0 == b and symeval.equivalent(c1, sym.sub(d, b))[0] is True:
            rep.discharged("AD-SKEW", fi, fi.node, f"{what}: (b, d) ↦ (b, d−b)")
        else:
            rep.refuted("AD-SKEW", fi, fi.node, f"{what} maps (b, d) to ({sym.show(c0)}, {sym.show(c1)}) instead of (b, d−b)")
    else:
        rep.unmodelled("AD-SKEW", fi, fi.node, f"{what}: result not modelled")


def run(project: Project, rep, tier: str):
    rep.explain(
        "C11 (clauses decided): `_transform` is evaluated symbolically (as for C04) for built-in and uninterpreted weights "
        "and kernels; the loop summary of the accumulation gives image = zeros + Σ_i g(point i, configuration) with g reading "
        "no other row and no whole-diagram reduction (AD-FOLD) — hence additivity over unions, order independence and zeros "
        "for the empty diagram, for every diagram and grid; AD-ZERO: g = weight × mass. AD-EMPTY: `transform([])` evaluated on "
        "a symbolic imager. AD-PAR / AD-WRAP: the two call sites of `_transform` bind identical expressions parameter by "
        "parameter and iterate identically; wrap/unwrap are paired on one flag. AD-SKEW: remaining conversion sites yield "
        "(b, d−b) and act on private copies. Declined: non-negativity, pixel total ≤ total weight, bit-identical "
        "serial/parallel floats.")
    rep.assume("user weights/kernels are element-wise; joblib.Parallel preserves order; exact arithmetic for additivity")
    configs = [("opaque", "opaque", "scalar", True), ("persistence", "gaussian", "scalar", True),
               ("linear_ramp", "uniform", "scalar", True), ("persistence", "opaque", "scalar", False)]
    for w, k, sg, skew in configs:
        check_fold(project, rep, w, k, sg, skew)
    # AD-MULT: coincident pairs that are pooled before rendering must pool their weights by accumulation (scatter_rule)
    from .common import numerics_positive_examples
    rep.extra["positive_examples"] = numerics_positive_examples()
    from . import scatter_rule
    hits, st_ = scatter_rule.analyse(project, "persim.images.")
    for h in hits:
        rep.refuted("AD-MULT", h["fi"], h["node"],
                    h["why"] + ": a pair that occurs k times in a diagram is rendered with the weight of one, so the image of a "
                               "union is not the sum of the images (img(A ∪ A) = img(A))",
                    construct=f"{h['fi'].qualname}: {ast.unparse(h['node'])[:100]}")
    if not hits:
        rep.discharged("AD-MULT", None, None, f"{st_['functions']} function(s) of persim.images: no weight is added through a "
                                              f"grouping index without accumulating ({st_['accumulating_sites']} accumulating "
                                              f"site(s))", nontrivial=False)
    check_empty(project, rep)
    check_empty_diagram(project, rep)
    check_par_wrap(project, rep)
    check_skew_equivalence(project, rep)
    from ..core.report import Report
    pre_al = Report("C11-align")
    check_alignment(project, pre_al)
    if pre_al.errors and not pre_al.refutations and not any(o for o in rep.refutations if o.get("rule") == "AD-SKEWEQ"):
        # the statement shape AD-ALIGN reads is not there; the per-row alignment of weights and kernel centres is part of what
        # AD-FOLD (every term reads its own row only) and AD-SKEWEQ established on the evaluated image
        rep.discharged("AD-ALIGN", None, None, "weights and points are paired row by row: established on the evaluated image "
                                               "(AD-FOLD: the term of point i reads row i only)", nontrivial=False)
    else:
        check_alignment(project, rep)
    check_skew_sites(project, rep)
    for rn, n in (("AD-FOLD", 4), ("AD-ALIGN", 1), ("AD-ZERO", 1), ("AD-EMPTY", 1), ("AD-PAR", 2), ("AD-WRAP", 2), ("AD-SKEW", 6), ("AD-SKEWEQ", 1)):
        rep.floor(rn, n)
    for t in ("joblib.Parallel", "joblib.delayed", "numpy.zeros", "numpy.copy"):
        rep.trust(t)
