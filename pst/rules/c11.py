"""C11 — persistence images are additive, order-free and call-style independent (images.py).

Decided: AD-FOLD (image = zero accumulator + Σ over points of a term that depends on that point only ⇒ additive
over unions, independent of point order, zeros for an empty diagram), AD-ZERO (the term is weight × mass, so zero
weight contributes nothing), AD-EMPTY (an empty collection yields zeros of the configured resolution), AD-PAR (the
serial and the parallel call sites bind identical arguments to the same callee, iterating in order), AD-WRAP
(wrap / unwrap of a single diagram are paired on one flag), AD-SKEW (every birth-death → birth-persistence
conversion in the package is (b, d−b) on a private copy).
Declined: non-negativity and 'pixel total ≤ total weight' (CDF monotonicity — numeric); bit-identical
serial/parallel floats (same callee ⇒ same arithmetic; joblib trusted to preserve order).
"""
from __future__ import annotations

import ast

from ..core import facets, sym, symeval
from ..core.absint import Config, Interp
from ..core.loader import AnalysisError, Project
from ..core.values import Arr, ObjV, Sc, Seq
from .common import local_names, own_analysis
from .distances import dgm_input, unmodelled_in
from .images_common import TR, run_transform

CLS = "persim.images.PersistenceImager"


def check_fold(project: Project, rep, weight, kernel, sigma, skew):
    fi, I, r = run_transform(project, weight, kernel, skew, sigma)
    rep.analysed(fi)
    tag = f"weight={weight}, kernel={kernel}, skew={skew}"
    if not isinstance(r, Arr) or unmodelled_in(r.elem):
        rep.unmodelled("AD-FOLD", fi, fi.node, f"{tag}: image not modelled")
        return
    e = r.elem
    # top-level shape: Σ over the points of the diagram (possibly inside an ITE on configuration)
    sums = [x for x in sym.walk(e) if x[0] == "sum" and x[2] == ("rows", "X")]
    loops = [ev for ev in I.log if ev["kind"] == "loop" and ev["fi"] is fi]
    accs = [(ev, n, c) for ev in loops for n, c in ev["carried"].items() if c.get("kind") == "fold"]
    if not accs:
        rep.refuted("AD-FOLD", fi, fi.node, f"{tag}: the image is not accumulated as a sum over the points (no additive "
                                            f"fold): it cannot be additive over unions of diagrams",
                    construct=f"{TR}: accumulation [{tag}]")
        return
    for ev, n, c in accs:
        init = c["init"]
        ie = init.elem if isinstance(init, Arr) else getattr(init, "e", None)
        if ie != sym.ZERO:
            rep.refuted("AD-FOLD", fi, ev["node"], f"{tag}: the accumulator `{n}` starts from {sym.show(ie) if ie is not None else init!r}, "
                                                   f"not zeros: an empty diagram does not give an all-zero image")
            continue
        if not sym.equal(ev["space"].size, sym.Size(("rows", "X"))):
            rep.refuted("AD-FOLD", fi, ev["node"], f"{tag}: the accumulation runs over {sym.show(ev['space'].size)} terms, not "
                                                   f"one per point of the diagram")
            continue
        upd = c["update"]
        ue = upd.elem if isinstance(upd, Arr) else upd.e
        ph = c["placeholder"]
        # the placeholder of the array accumulator was renamed along with the axes; recover the term structurally
        terms, const = sym.lin_parts(ue)
        carry_terms = [t for t in terms if t[0] == "opq" and t[1] == "carry"]
        rest = sym.sub(ue, carry_terms[0]) if carry_terms else ue
        iv = ev["ivar"]
        glob = [x for x in sym.walk(rest) if x[0] in ("sum", "red") and ("rows", "X") in (x[2], x[3] if len(x) > 3 else None)]
        if glob:
            rep.refuted("AD-FOLD", fi, ev["node"],
                        f"{tag}: the contribution of a point depends on the whole diagram ({sym.show(glob[0])[:100]}): the image "
                        f"of a union is not the sum of the images")
            continue
        bad = [a for a in sym.walk(rest) if a[0] == "in" and a[1] == "X" and not (isinstance(a[2][0], tuple) and a[2][0] == (iv, 0))]
        if bad:
            rep.refuted("AD-FOLD", fi, ev["node"],
                        f"{tag}: the contribution of point i reads another row ({sym.show(bad[0])}): the image depends on the order "
                        f"of the points")
            continue
        rep.discharged("AD-FOLD", fi, ev["node"],
                       f"{tag}: image = zeros + Σ_i g(point i, configuration): additive over disjoint unions, independent of "
                       f"point order, all-zero for zero points", derived=sym.show(rest)[:200])
        if weight == "opaque":
            ws = [x for x in sym.walk(rest) if x[0] == "opq" and x[1] == "W"]
            if ws and sym.subst(rest, {ws[0]: sym.ZERO}) == sym.ZERO:
                rep.discharged("AD-ZERO", fi, ev["node"], f"{tag}: the contribution of a point is weight × kernel mass: a point of "
                                                          f"zero weight contributes nothing")
            else:
                rep.refuted("AD-ZERO", fi, ev["node"], f"{tag}: the contribution of a point does not vanish with its weight: "
                                                       f"{sym.show(rest)[:160]}")


def _imager(project):
    I = Interp(project, Config())
    S = lambda n: Sc(sym.Sym(n))
    obj = I.construct(CLS, [], {"birth_range": Seq([S("b0"), S("b1")], "tuple"), "pers_range": Seq([S("q0"), S("q1")], "tuple"),
                                "pixel_size": S("p")}, None)
    return I, obj


def check_empty(project: Project, rep):
    cls = project.cls(CLS)
    tr = cls.methods["transform"]
    rep.analysed(tr)
    I, obj = _imager(project)
    r = I.call_function(tr, [obj, Seq([], "list")], {}, None)
    res = obj.attrs.get("_resolution")
    ok = False
    if isinstance(r, Arr) and r.elem == sym.ZERO and isinstance(res, Seq) and r.ndim == 2:
        ok = all(sym.equal(sp.size, x.e) for (sp, _), x in zip(r.axes, res.items))
    if ok:
        rep.discharged("AD-EMPTY", tr, tr.node, "an empty collection yields an all-zero array whose shape is the configured "
                                                "resolution")
    else:
        rep.refuted("AD-EMPTY", tr, tr.node, f"an empty diagram does not yield zeros(resolution): {r!r}"[:200],
                    construct=f"{tr.qualname}: empty input")


def _bind(callee_params, call):
    b = {}
    for k, a in enumerate(call.args):
        if k < len(callee_params):
            b[callee_params[k]] = ast.unparse(a)
    for k in call.keywords:
        if k.arg is not None:
            b[k.arg] = ast.unparse(k.value)
    return b


def check_par_wrap(project: Project, rep):
    cls = project.cls(CLS)
    tr = cls.methods["transform"]
    callee = project.function(TR)
    locs = local_names(tr.node)
    sites = []
    for n in ast.walk(tr.node):
        if isinstance(n, ast.Call):
            t = project.resolve(tr.module, n.func, locs)
            if t == TR:
                sites.append(("serial", n))
            elif isinstance(n.func, ast.Call) and project.resolve(tr.module, n.func.func, locs) == "joblib.delayed" \
                    and n.func.args and project.resolve(tr.module, n.func.args[0], locs) == TR:
                sites.append(("parallel", n))
    kinds = {k for k, _ in sites}
    if kinds != {"serial", "parallel"}:
        rep.unmodelled("AD-PAR", tr, tr.node, f"expected one serial and one parallel call of {TR}; found {sorted(kinds)}")
    else:
        binds = {k: _bind(callee.params, n) for k, n in sites}
        diff = [(p_, binds["serial"].get(p_), binds["parallel"].get(p_)) for p_ in callee.params
                if binds["serial"].get(p_) != binds["parallel"].get(p_)]
        node = dict(sites)["parallel"]
        if not diff:
            rep.discharged("AD-PAR", tr, node, f"serial and parallel call sites bind identical expressions to all "
                                               f"{len(callee.params)} parameters of the same callee")
        else:
            p_, a, b = diff[0]
            rep.refuted("AD-PAR", tr, node, f"the parallel call passes {p_}={b} where the serial call passes {p_}={a}: n_jobs changes "
                                            f"the image")
        # both iterate the same collection in order
        iters = []
        for n in ast.walk(tr.node):
            if isinstance(n, (ast.ListComp, ast.GeneratorExp)) and any(c is s for _, s in sites for c in ast.walk(n)):
                g = n.generators[0]
                iters.append((ast.unparse(g.target), ast.unparse(g.iter), bool(g.ifs)))
        if len(iters) == 2 and iters[0] == iters[1] and not iters[0][2]:
            rep.discharged("AD-PAR", tr, tr.node, f"both arms map `{iters[0][1]}` element by element, in order")
        elif len(iters) == 2:
            rep.refuted("AD-PAR", tr, tr.node, f"the serial and parallel arms iterate differently: {iters}")
    # wrap / unwrap
    ens = cls.methods.get("_ensure_iterable")
    if ens is None:
        raise AnalysisError("AD-WRAP: _ensure_iterable not found")
    wrap = [n for n in ast.walk(ens.node) if isinstance(n, ast.If) and any(
        isinstance(s, ast.Assign) and isinstance(s.value, ast.List) and len(s.value.elts) == 1 for s in n.body)]
    if wrap and isinstance(wrap[0].test, ast.Name):
        flag = wrap[0].test.id
        ret = [n for n in ast.walk(ens.node) if isinstance(n, ast.Return)]
        if ret and isinstance(ret[0].value, ast.Tuple) and any(isinstance(e, ast.Name) and e.id == flag for e in ret[0].value.elts):
            rep.discharged("AD-WRAP", ens, wrap[0], f"a single diagram is wrapped iff `{flag}`, and the flag is returned")
        else:
            rep.refuted("AD-WRAP", ens, ens.node, "the wrap flag is not returned to the caller")
    else:
        rep.refuted("AD-WRAP", ens, ens.node, "a single diagram is not wrapped under a flag")
    unwrap = [n for n in ast.walk(tr.node) if isinstance(n, ast.If) and isinstance(n.test, ast.Name) and any(
        isinstance(s, ast.Assign) and isinstance(s.value, ast.Subscript) and ast.unparse(s.value.slice) == "0" for s in n.body)]
    flag_src = [n for n in ast.walk(tr.node) if isinstance(n, ast.Assign) and isinstance(n.targets[0], ast.Tuple)
                and isinstance(n.value, ast.Call) and ast.unparse(n.value.func) == "self._ensure_iterable"]
    if unwrap and flag_src and unwrap[0].test.id == flag_src[0].targets[0].elts[1].id:
        rep.discharged("AD-WRAP", tr, unwrap[0], "the result is unwrapped iff the same flag")
    else:
        rep.refuted("AD-WRAP", tr, tr.node, "the single-diagram result is not unwrapped under the flag returned by the wrapping "
                                            "step: a lone diagram and a one-element collection give differently shaped results",
                    construct=f"{tr.qualname}: unwrap")


def check_skew_sites(project: Project, rep):
    # PersImage.to_landscape
    fi = project.function("persim.images.PersImage.to_landscape")
    rep.analysed(fi)
    I = Interp(project, Config(nonempty={("rows", "X")}, finite_inputs={"X"}))
    r = I.run(fi.qualname, {fi.params[0]: dgm_input("X")})
    _skew_ok(rep, fi, r, "PersImage.to_landscape")
    # PersistenceImager.plot_diagram(skew=True): scatter coordinates
    cls = project.cls(CLS)
    pd = cls.methods.get("plot_diagram")
    if pd is not None:
        rep.analysed(pd)
        I, obj = _imager(project)
        I.cfg.nonempty.add(("rows", "X"))
        I.cfg.finite_inputs.add("X")
        I.call_function(pd, [obj, dgm_input("X")], {"skew": Sc(sym.TRUE), "ax": ObjV(None, {}, tag="axes")}, None)
        sc = [ev for ev in I.log if ev["kind"] == "draw" and ev["method"] == "scatter" and ev["fi"] is pd]
        if sc and all(isinstance(p_, Arr) and p_.ndim == 1 for p_ in sc[0]["pos"][:2]):
            x, y = sc[0]["pos"][0], sc[0]["pos"][1]
            iv = x.axes[0][1]
            ye = sym.subst_ivar(y.elem, y.axes[0][1], (iv, 0))
            b, d = sym.In("X", ((iv, 0), 0)), sym.In("X", ((iv, 0), 1))
            if x.elem == b and symeval.equivalent(ye, sym.sub(d, b))[0] is True:
                rep.discharged("AD-SKEW", pd, sc[0]["node"], "plot_diagram(skew=True) plots (b, d−b)")
            else:
                rep.refuted("AD-SKEW", pd, sc[0]["node"], f"plot_diagram(skew=True) plots ({sym.show(x.elem)}, {sym.show(ye)}) "
                                                          f"instead of (b, d−b)")
        else:
            rep.unmodelled("AD-SKEW", pd, pd.node, "scatter of plot_diagram not modelled")
    # conversions act on private copies: no write event reaches a parameter (ownership analysis)
    oa = own_analysis(project)
    for q in (TR, f"{CLS}.fit", f"{CLS}.plot_diagram", "persim.images.PersImage.to_landscape", "persim.visuals.plot_diagrams"):
        s = oa.summary(q)
        w = [ev for ev in s.events if ev.kind == "write" and ev.origin.is_arg and ev.origin.param != "self"]
        f2 = project.function(q)
        if w:
            rep.refuted("AD-SKEW", f2, w[0].node, f"{q} converts to birth–persistence coordinates in place on the caller's "
                                                  f"array: transforming the same diagram twice gives different images")
        else:
            rep.discharged("AD-SKEW", f2, f2.node, f"{q}: the conversion acts on a private copy", nontrivial=True)
    rep.note("the (b, d−b) form of the conversion in _transform is part of C04 PI-PIXEL, in fit of C12 GE-FIT, in plot_diagrams "
             "of C20 PL-DGM")


def _skew_ok(rep, fi, r, what):
    if isinstance(r, Arr) and r.ndim == 2 and r.axes[1][0].concrete == 2:
        (sp, iv), (cs, civ) = r.axes
        c0 = sym.subst_ivar(r.elem, civ, 0)
        c1 = sym.subst_ivar(r.elem, civ, 1)
        b, d = sym.In("X", ((iv, 0), 0)), sym.In("X", ((iv, 0), 1))
        if c0 == b and symeval.equivalent(c1, sym.sub(d, b))[0] is True:
            rep.discharged("AD-SKEW", fi, fi.node, f"{what}: (b, d) ↦ (b, d−b)")
        else:
            rep.refuted("AD-SKEW", fi, fi.node, f"{what} maps (b, d) to ({sym.show(c0)}, {sym.show(c1)}) instead of (b, d−b)")
    else:
        rep.unmodelled("AD-SKEW", fi, fi.node, f"{what}: result not modelled")


def run(project: Project, rep, tier: str):
    rep.explain(
        "C11 (clauses decided): `_transform` is evaluated symbolically (as for C04) for built-in and uninterpreted weights "
        "and kernels; the loop summary of the accumulation gives image = zeros + Σ_i g(point i, configuration) with g reading "
        "no other row and no whole-diagram reduction (AD-FOLD) — hence additivity over unions, order independence and zeros "
        "for the empty diagram, for every diagram and grid; AD-ZERO: g = weight × mass. AD-EMPTY: `transform([])` evaluated on "
        "a symbolic imager. AD-PAR / AD-WRAP: the two call sites of `_transform` bind identical expressions parameter by "
        "parameter and iterate identically; wrap/unwrap are paired on one flag. AD-SKEW: remaining conversion sites yield "
        "(b, d−b) and act on private copies. Declined: non-negativity, pixel total ≤ total weight, bit-identical "
        "serial/parallel floats.")
    rep.assume("user weights/kernels are element-wise; joblib.Parallel preserves order; exact arithmetic for additivity")
    configs = [("opaque", "opaque", "scalar", True), ("persistence", "gaussian", "scalar", True),
               ("linear_ramp", "uniform", "scalar", True), ("persistence", "opaque", "scalar", False)]
    for w, k, sg, skew in configs:
        check_fold(project, rep, w, k, sg, skew)
    check_empty(project, rep)
    check_par_wrap(project, rep)
    check_skew_sites(project, rep)
    for rn, n in (("AD-FOLD", 4), ("AD-ZERO", 1), ("AD-EMPTY", 1), ("AD-PAR", 2), ("AD-WRAP", 2), ("AD-SKEW", 6)):
        rep.floor(rn, n)
    for t in ("joblib.Parallel", "joblib.delayed", "numpy.zeros", "numpy.copy"):
        rep.trust(t)
