"""DT-NARROW — the coordinates of a diagram are never cast to a floating-point type narrower than the one they came in.

A cast of the caller's data to float32 / float16 (`x.astype(np.float32)`, `np.asarray(x, dtype="float32")`, or the same
through the dtype of another array known to be single precision: `x.astype(table.dtype)`) rounds every coordinate to a
relative 6e-8: relations that hold for the numbers themselves (invariance under a translation of both diagrams, exact
linear scaling, symmetry to the last bit) then hold only up to an error that grows with the magnitude of the coordinates.

Two small inter-procedural fixpoints over the functions of one module (call sites resolved by the project's import table,
methods by name over the module's classes):

  data(e)     the parameters of the public entry point that carry diagrams, and everything computed from them: names
              assigned from an expression that mentions data, parameters of module functions / methods / constructors that
              receive data at some call site, attributes `obj.a` assigned from data in any method of the module;
  single(e)   np.float32 / np.float16 / 'float32' / a module constant bound to one, `a.dtype` of a single-precision array;
              single-precision arrays: `e.astype(single)`, `np.array(..., dtype=single)`, a call of a module function
              whose returns are such arrays, a name or attribute assigned from one.

Reported: a cast `E.astype(T)` / `np.array(E, dtype=T)` / `np.asarray(E, dtype=T)` with data(E) and single(T).
Module-level tables that are single precision by construction (the direction vectors) are not data and are not reported.
"""
from __future__ import annotations

import ast
from typing import Dict, List, Set, Tuple

from ..core.loader import FunctionInfo, Project
from .common import local_names

SINGLE = {"numpy.float32", "numpy.float16", "numpy.single", "numpy.half"}
SINGLE_STR = {"float32", "float16", "f4", "f2", "single", "half", "<f4", "<f2"}
CASTERS = {"numpy.array", "numpy.asarray", "numpy.asanyarray", "numpy.asarray_chkfinite", "numpy.ascontiguousarray", "numpy.zeros_like", "numpy.empty_like",
           "numpy.ones_like", "numpy.full_like"}


def _names_in(e) -> Set[str]:
    return {n.id for n in ast.walk(e) if isinstance(n, ast.Name)}


def _attrs_in(e) -> Set[str]:
    return {n.attr for n in ast.walk(e) if isinstance(n, ast.Attribute)}


def analyse(project: Project, module: str, entry: str) -> Tuple[List[dict], dict]:
    """findings, statistics — over the functions of `module` reachable by name from it"""
    fns: Dict[str, FunctionInfo] = {q: f for q, f in project.functions.items()
                                   if q.startswith(module + ".") and isinstance(f.node, (ast.FunctionDef, ast.AsyncFunctionDef))}
    if entry not in fns:
        return [], dict(functions=0)
    m = project.function(entry).module
    by_name: Dict[str, List[FunctionInfo]] = {}
    for q, f in fns.items():
        by_name.setdefault(q.rsplit(".", 1)[1], []).append(f)
    classes = {q: c for q, c in project.classes.items() if q.startswith(module + ".")}
    # module-level constants bound to a single-precision type
    single_names: Set[str] = set()
    for name, val in m.globals.items():
        if isinstance(val, (ast.Attribute, ast.Name)) and project.resolve(m, val) in SINGLE:
            single_names.add(name)
        elif isinstance(val, ast.Constant) and isinstance(val.value, str) and val.value in SINGLE_STR:
            single_names.add(name)

    def is_single_type(e, f32_names, f32_attrs, fi) -> bool:
        if isinstance(e, ast.Constant) and isinstance(e.value, str):
            return e.value in SINGLE_STR
        if isinstance(e, ast.Name) and e.id in single_names and e.id not in local_names(fi.node):
            return True
        if isinstance(e, (ast.Attribute, ast.Name)) and project.resolve(fi.module, e, local_names(fi.node)) in SINGLE:
            return True
        if isinstance(e, ast.Attribute) and e.attr == "dtype":
            return is_single_array(e.value, f32_names, f32_attrs, fi)
        return False

    def dtype_arg(call: ast.Call):
        for k in call.keywords:
            if k.arg == "dtype":
                return k.value
        return None

    f32_returns: Set[str] = set()       # module functions whose returns are single-precision arrays
    f32_attrs: Set[str] = set()         # attribute names assigned from single-precision arrays
    f32_globals: Set[str] = set()       # module-level names bound to single-precision arrays

    def is_single_array(e, f32_names, f32_attrs_, fi, depth=0) -> bool:
        if depth > 6:
            return False
        if isinstance(e, ast.Name):
            return e.id in f32_names or (e.id in f32_globals and e.id not in local_names(fi.node))
        if isinstance(e, ast.Attribute):
            if e.attr == "T":
                return is_single_array(e.value, f32_names, f32_attrs_, fi, depth + 1)
            return e.attr in f32_attrs_
        if isinstance(e, ast.Subscript):
            return is_single_array(e.value, f32_names, f32_attrs_, fi, depth + 1)
        if isinstance(e, ast.Call):
            if isinstance(e.func, ast.Attribute) and e.func.attr == "astype" and e.args:
                return is_single_type(e.args[0], f32_names, f32_attrs_, fi)
            d = dtype_arg(e)
            t = project.resolve(fi.module, e.func, local_names(fi.node))
            if d is not None and t and t.startswith("numpy."):
                return is_single_type(d, f32_names, f32_attrs_, fi)
            if t in fns and t in f32_returns:
                return True
            if isinstance(e.func, ast.Attribute) and e.func.attr in ("copy", "reshape", "ravel", "flatten", "transpose"):
                return is_single_array(e.func.value, f32_names, f32_attrs_, fi, depth + 1)
        return False

    # ---- fixpoint 1: single-precision arrays
    f32_local: Dict[str, Set[str]] = {q: set() for q in fns}
    for _ in range(6):
        changed = False
        for name, val in m.globals.items():
            if name not in f32_globals and isinstance(val, ast.AST):
                fake = project.function(entry)
                if is_single_array(val, set(), f32_attrs, fake):
                    f32_globals.add(name)
                    changed = True
        for q, fi in fns.items():
            loc = f32_local[q]
            for n in ast.walk(fi.node):
                if isinstance(n, ast.Assign) and len(n.targets) == 1:
                    t = n.targets[0]
                    if is_single_array(n.value, loc, f32_attrs, fi):
                        if isinstance(t, ast.Name) and t.id not in loc:
                            loc.add(t.id)
                            changed = True
                        elif isinstance(t, ast.Attribute) and t.attr not in f32_attrs:
                            f32_attrs.add(t.attr)
                            changed = True
                elif isinstance(n, ast.Return) and n.value is not None and q not in f32_returns:
                    rets = [r for r in ast.walk(fi.node) if isinstance(r, ast.Return) and r.value is not None]
                    if rets and all(is_single_array(r.value, loc, f32_attrs, fi) for r in rets):
                        f32_returns.add(q)
                        changed = True
        if not changed:
            break

    # ---- fixpoint 2: data
    efi = fns[entry]
    a = efi.node.args
    pos = a.posonlyargs + a.args
    defaults = dict(zip([x.arg for x in pos[len(pos) - len(a.defaults):]], a.defaults))
    data_params: Dict[str, Set[str]] = {q: set() for q in fns}
    data_params[entry] = {x.arg for x in pos if x.arg not in ("self", "cls")
                          and not (x.arg in defaults and isinstance(defaults[x.arg], ast.Constant)
                                   and defaults[x.arg].value is not None)}
    data_attrs: Set[str] = set()
    data_local: Dict[str, Set[str]] = {q: set() for q in fns}

    def is_data(e, q) -> bool:
        loc = data_local[q] | data_params[q]
        if _names_in(e) & loc:
            return True
        return bool(_attrs_in(e) & data_attrs)

    def callee_of(call: ast.Call, fi) -> List[Tuple[FunctionInfo, int]]:
        """(function, number of leading parameters bound implicitly)"""
        t = project.resolve(fi.module, call.func, local_names(fi.node))
        if t in fns:
            f2 = fns[t]
            return [(f2, 1 if (f2.kind == "classmethod") else 0)]
        if t in classes:
            init = classes[t].methods.get("__init__")
            return [(init, 1)] if init is not None and init.qualname in fns else []
        if isinstance(call.func, ast.Attribute) and t is None:
            return [(f2, 0 if f2.kind == "staticmethod" else 1) for f2 in by_name.get(call.func.attr, []) if f2.cls is not None]
        return []

    for _ in range(8):
        changed = False
        for q, fi in fns.items():
            for n in ast.walk(fi.node):
                if isinstance(n, ast.Assign):
                    if is_data(n.value, q):
                        for t in n.targets:
                            for x in ast.walk(t):
                                if isinstance(x, ast.Name) and isinstance(x.ctx, ast.Store) and x.id not in data_local[q]:
                                    data_local[q].add(x.id)
                                    changed = True
                            if isinstance(t, ast.Attribute) and t.attr not in data_attrs:
                                data_attrs.add(t.attr)
                                changed = True
                elif isinstance(n, (ast.For, ast.comprehension)) and is_data(n.iter, q):
                    for x in ast.walk(n.target):
                        if isinstance(x, ast.Name) and x.id not in data_local[q]:
                            data_local[q].add(x.id)
                            changed = True
                elif isinstance(n, ast.Call):
                    for f2, skip in callee_of(n, fi):
                        ps = [x.arg for x in f2.node.args.posonlyargs + f2.node.args.args][skip:]
                        for k, arg in enumerate(n.args):
                            if k < len(ps) and not isinstance(arg, ast.Starred) and is_data(arg, q) \
                                    and ps[k] not in data_params[f2.qualname]:
                                data_params[f2.qualname].add(ps[k])
                                changed = True
                        for kw in n.keywords:
                            if kw.arg and is_data(kw.value, q) and kw.arg not in data_params[f2.qualname] \
                                    and kw.arg in [x.arg for x in f2.node.args.args + f2.node.args.kwonlyargs]:
                                data_params[f2.qualname].add(kw.arg)
                                changed = True
        if not changed:
            break

    hits = []
    n_casts = 0
    for q, fi in fns.items():
        for n in ast.walk(fi.node):
            if not isinstance(n, ast.Call):
                continue
            recv = ty = None
            if isinstance(n.func, ast.Attribute) and n.func.attr == "astype" and n.args:
                recv, ty = n.func.value, n.args[0]
            else:
                t = project.resolve(fi.module, n.func, local_names(fi.node))
                if t in CASTERS and n.args and dtype_arg(n) is not None:
                    recv, ty = n.args[0], dtype_arg(n)
            if recv is None:
                continue
            n_casts += 1
            params_q = {x.arg for x in fi.node.args.posonlyargs + fi.node.args.args + fi.node.args.kwonlyargs}
            # already single precision: nothing is lost (a parameter re-bound to its own narrowed copy does not count —
            # the analysis is flow-insensitive and what arrives in the parameter is the caller's)
            already = is_single_array(recv, f32_local[q] - params_q, f32_attrs, fi)
            if is_single_type(ty, f32_local[q], f32_attrs, fi) and is_data(recv, q) and not already:
                hits.append(dict(fi=fi, node=n, why=f"`{ast.unparse(n)[:90]}` casts coordinates of the caller's diagrams to single "
                                                    f"precision (`{ast.unparse(ty)[:40]}`)"))
    stats = dict(functions=len(fns), casts=n_casts, single_arrays=sorted(f32_attrs | f32_globals | {x for s in f32_local.values() for x in s}),
                 data_params={q.rsplit('.', 1)[1]: sorted(v) for q, v in data_params.items() if v})
    return hits, stats
